#!/usr/bin/env python3
"""Run the checks against the seeded breaking changes kept under /verif/seeded/<name>/ (patch.diff, demo.py, meta.json).

  tools_seeded.py [name ...] [--tier quick|thorough] [--in-repo]

Default: every seeded change is applied to its own scratch git worktree of /repo under /tmp (removed afterwards) and
the check of the property it breaks is run with CUQIVERIF_REPO pointing at that worktree, so several can run in
parallel and /repo is never touched.  --in-repo applies the patch to /repo itself (git apply / git checkout -- .),
which is the official procedure; it runs the changes one after another.
Prints one line per change: CAUGHT (exit 1 + VIOLATION line) / MISSED (exit 0) / ERROR (exit 2), and whether the
demonstration fails with the change.  Writes seeded/RESULTS.json.
"""
import json, os, subprocess, sys, concurrent.futures as cf

HERE = os.path.dirname(os.path.abspath(__file__))
SEEDED = os.path.join(HERE, "seeded")
PY = "/venv/bin/python"


def sh(cmd, **kw):
    return subprocess.run(cmd, shell=True, stdout=subprocess.PIPE, stderr=subprocess.STDOUT, text=True, **kw)


def run_one(name, tier, in_repo):
    d = os.path.join(SEEDED, name)
    meta = json.load(open(os.path.join(d, "meta.json")))
    pid = meta["breaks"]
    patch = os.path.join(d, "patch.diff")
    out = {"name": name, "property": pid}
    if in_repo:
        tree = "/repo"
        r = sh("git -C /repo apply %s" % patch)
    else:
        tree = "/tmp/seedwt_%s" % name
        sh("git -C /repo worktree remove --force %s" % tree)
        r = sh("git -C /repo worktree add --detach %s HEAD && git -C %s apply %s" % (tree, tree, patch))
    if r.returncode != 0:
        out["status"] = "ERROR(apply): " + r.stdout[-300:]
        return out
    try:
        env = dict(os.environ, PYTHONPATH=tree, TQDM_DISABLE="1")
        demo = os.path.join(d, "demo.py")
        if os.path.exists(demo):
            rd = sh("%s %s" % (PY, demo), env=env, cwd=d, timeout=1800)
            out["demo_fails_with_change"] = rd.returncode != 0
        checks = meta.get("checks", [pid])
        out["checks"] = {}
        for c in checks:
            env2 = dict(os.environ, CUQIVERIF_REPO=tree) if not in_repo else dict(os.environ)
            # --in-repo runs exactly the registered command, which rewrites evidence/<id>.json - with the change applied.  The
            # evidence file of the unchanged tree is put back afterwards (evidence describes /repo as committed).
            ev = os.path.join(HERE, "evidence", "%s.json" % c)
            saved = open(ev, "rb").read() if in_repo and os.path.exists(ev) else None
            try:
                rc = sh("%s check.py %s --tier %s" % (PY, c, tier), env=env2, cwd=HERE, timeout=7200)
            finally:
                if saved is not None:
                    open(ev, "wb").write(saved)
            vio = [l for l in rc.stdout.splitlines() if l.startswith("VIOLATION")]
            what = [l.strip() for l in rc.stdout.splitlines() if l.strip().startswith("what:")]
            out["checks"][c] = {"exit": rc.returncode, "violations": len(vio), "first": (what[0][:300] if what else None)}
        codes = [v["exit"] for v in out["checks"].values()]
        out["status"] = "CAUGHT" if 1 in codes else ("ERROR" if 2 in codes else "MISSED")
    finally:
        if in_repo:
            sh("git -C /repo checkout -- .")
        else:
            sh("git -C /repo worktree remove --force %s" % tree)
    return out


def main():
    args = [a for a in sys.argv[1:] if not a.startswith("--")]
    tier = "thorough" if "--tier=thorough" in sys.argv or ("--tier" in sys.argv and "thorough" in sys.argv) else "quick"
    args = [a for a in args if a not in ("quick", "thorough")]
    in_repo = "--in-repo" in sys.argv
    names = args or sorted(n for n in os.listdir(SEEDED) if os.path.isdir(os.path.join(SEEDED, n)))
    results = []
    if in_repo:
        for n in names:
            results.append(run_one(n, tier, True))
            print(results[-1]["name"], results[-1]["status"], results[-1].get("checks"), flush=True)
    else:
        with cf.ThreadPoolExecutor(max_workers=int(os.environ.get('SEEDED_WORKERS', '4'))) as ex:
            for r in ex.map(lambda n: run_one(n, tier, False), names):
                results.append(r)
                print(r["name"], r["status"], "demo_fails=%s" % r.get("demo_fails_with_change"), r.get("checks"), flush=True)
    path = os.path.join(SEEDED, "RESULTS.json")
    old = {}
    if os.path.exists(path):
        old = {r["name"]: r for r in json.load(open(path))}
    for r in results:
        r["tier"] = tier
        old[r["name"]] = r
    old = {n: r for n, r in old.items() if os.path.isdir(os.path.join(SEEDED, n))}      # changes that were withdrawn
    json.dump(sorted(old.values(), key=lambda r: r["name"]), open(path, "w"), indent=1)


if __name__ == "__main__":
    main()
