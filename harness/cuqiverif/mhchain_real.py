"""C02: the behaviours of MHKernel.tla that consist of transitions only, executed through the PUBLIC CHAIN LOOPS of the
samplers instead of one transition at a time:

  cuqi.experimental.mcmc   sample(n) | warmup(n, tune_freq=1.0) (no tuning before the last transition) on one object;
                           point / cached evaluations / acceptance flag after every step() of the loop, recorded samples
  cuqi.sampler             sample(n + 1): the loop of _sample threads the state and the cached evaluation(s) from one
                           single_update to the next; recorded states and Samples.loglike_eval of every transition

The replay of props/c02.py drives step() / single_update() directly and threads the state of the stateless interface
itself; a loop that hands a transition the wrong state or a stale cached evaluation is only visible here.  Expectation:
the states the specification predicts after every transition (same scripted noise and uniforms as the one-transition
replay: mhkernel_real.script_for).
"""
import numpy as np

from .script_rng import scripted, ScriptError
from .tlc import MachineryError
from . import mhkernel_real as R


def pure_transitions(beh):
    items = R.split_transitions(beh["prog"])
    return items if items and all(k == "T" for k, _ in items) else None


def run_chain(ctx, beh, rows, sv0, root, entry, salt=0, sigprefix="chain"):
    """-> number of transitions compared; entry: "sample" | "warmup" (stateful interface only)"""
    from .zoo import quiet
    cfg = beh["cfg"]
    items = pure_transitions(beh)
    if items is None:
        return 0
    n = len(items)
    base = "%s/via=%s" % (R._base(sigprefix, cfg, "user"), entry)
    case = {"kind": "chain", "cfg": cfg, "prog": beh["prog"], "rows": rows, "sv0": sv0, "root": root, "entry": entry, "salt": salt}
    drv = R.driver(cfg, rows, sv0, "user")
    try:
        drv.construct()
    except MachineryError:
        raise
    except Exception as ex:
        ctx.mismatch(base + "/construct", case, "sampler cannot be constructed: %s: %s" % (type(ex).__name__, str(ex)[:200]))
        return 0
    normals, us = [], []
    for pos, (_, pairs) in enumerate(items):
        a, b = R.script_for(cfg, pairs, salt=salt + pos)
        normals += a
        us += b
    exps = [R.expect_state(cfg, pairs[-1][1], None, drv.const) for _, pairs in items]
    eaccs = [np.array([d["acc"] for _, d in pairs], dtype=float) for _, pairs in items]
    seen = []                       # stateful interface: (acceptance flag(s), state) after every step() of the loop
    out = None
    try:
        with scripted({"normal": normals, "uniform": us}) as st, quiet():
            if cfg["iface"] == "exp":
                S, orig = drv.s, drv.s.step

                def step(*a, **k):
                    r = orig(*a, **k)
                    seen.append((R._flag(r, drv.cls.__name__), drv.state()))
                    return r
                S.step = step
                try:
                    if entry == "warmup":
                        S.warmup(n, tune_freq=1.0)
                    else:
                        S.sample(n)
                finally:
                    del S.step
                out = np.asarray(S.get_samples().samples, dtype=float)
            else:
                res = drv.s.sample(n + 1)
                out = (np.asarray(res.samples, dtype=float), np.asarray(res.loglike_eval, dtype=float).reshape(-1))
            left = st.remaining()
    except ScriptError as ex:
        raise MachineryError("the loop %s of %s asked for random draws the binding does not script: %s" % (entry, drv.cls.__name__, ex))
    except MachineryError:
        raise
    except Exception as ex:
        ctx.mismatch(base + "/error", case, "%s raised %s: %s" % (entry, type(ex).__name__, str(ex)[:200]))
        return 0
    if cfg["iface"] == "exp":
        if len(seen) != n or out.shape != (cfg["d"], n):
            raise MachineryError("%s(%d) of %s made %d calls of step() and recorded samples of shape %r" % (
                entry, n, drv.cls.__name__, len(seen), out.shape))
        for i, ((acc, got), exp, eacc) in enumerate(zip(seen, exps, eaccs)):
            pos = dict(case, pos=i)
            if acc.shape != eacc.shape or not np.array_equal(acc > 0, eacc > 0):
                ctx.mismatch("%s/decision" % base, pos, "transition %d of the loop: acceptance flag(s) differ from the specification's" % (i + 1),
                             expected=eacc, observed=acc)
                return i
            for q in ("x", "clp", "cgrad", "clik"):
                if q in exp and (q not in got or not R.close(got[q], exp[q])):
                    ctx.mismatch("%s/state/%s" % (base, R.CACHE_NAME[q]), pos,
                                 "after transition %d of the loop %s differs from the specification's state" % (i + 1, R.CACHE_NAME[q]),
                                 expected=exp[q], observed=got.get(q))
                    return i
            if not R.close(out[:, i], exp["x"]):
                ctx.mismatch("%s/samples/point" % base, pos, "the state recorded for transition %d differs from the specification's" % (i + 1),
                             expected=exp["x"], observed=out[:, i])
                return i
    else:
        X, le = out
        if X.shape != (cfg["d"], n + 1) or le.size != n + 1:
            raise MachineryError("sample(%d) of %s returned samples %r / evaluations %r" % (n + 1, drv.cls.__name__, X.shape, le.shape))
        cache = "clik" if cfg["k"] == "PCN" else "clp"
        e0 = R.expect_state(cfg, root, None, drv.const)
        for i, exp in enumerate([e0] + exps):
            pos = dict(case, pos=i - 1)
            # component-wise kernel: all columns but the last are overwritten in place by their successor (finding C14-F1)
            if (cfg["k"] != "CW" or i == n) and not R.close(X[:, i], exp["x"]):
                ctx.mismatch("%s/samples/point" % base, pos, "recorded state %d of the chain differs from the specification's" % i,
                             expected=exp["x"], observed=X[:, i])
                return max(i - 1, 0)
            if not R.close(le[i], exp[cache]):
                ctx.mismatch("%s/samples/cache" % base, pos,
                             "evaluation recorded with state %d of the chain is not the evaluation at that state" % i,
                             expected=exp[cache], observed=le[i])
                return max(i - 1, 0)
    if left:
        R.UNUSED_DRAWS["transitions"] += 1
    return n
