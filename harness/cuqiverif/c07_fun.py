"""C07, round 7: function-backed linear models whose user functions return VIEWS OF THEIR INPUT (part FUN).

Spec: specs/ModelGeomFun.tla (EXTENDS ModelGeom).  A case = (selection operator, FunKind, domain geometry, range geometry) with
the exact par -> par matrix, Fwd xa, Fwd xb, Adj ya.  TLC checks over an abstract memory (buffers + handles) that the assembled
matrix has the columns Fwd e_j and that every array handed to the user keeps its value, for every FunKind and every choice of
"the view really aliases"; deviations ColumnsStackedAtTheEnd / ScratchInputBuffer are refuted.

Replay: ONE real LinearModel(forward_function, adjoint_function, geometries) per sequence of user-level operations
(forward(xa), forward(xb), adjoint(ya), get_matrix(), T.get_matrix()); the functions realise the operator as the FunKind says
(x[::2], x[::-1], x, np.asarray(x), X.T, ... - views; or copies).  After EVERY operation: the value it returned, every array
returned EARLIER (held by reference, never copied), and the user's own input arrays against the specification's numbers.
"""
import os

import numpy as np

SPEC = "ModelGeomFun"
EXTRA = ["ModelGeom.tla"]
DEVIATIONS = [("ColumnsStackedAtTheEnd", "FunColumns"), ("ScratchInputBuffer", "FunResultsStable")]
BASE_OPS = ["Fa", "GM", "Fb", "TGM", "Aa"]


def start_tlc(ctx):
    from concurrent.futures import ThreadPoolExecutor
    from cuqiverif import tlc
    tag = "%d-%d" % (os.getpid(), id(ctx) % 100000)

    def wd(name):
        return os.path.join(tlc.WORK, "%s-%s-%s" % (SPEC, tag, name))

    jobs = [("dev", dev, inv, dict(cfg="ModelGeomFun.%s.deviation.cfg" % dev, workers=1, expect_violation=True, timeout=600,
                                   extra_modules=EXTRA, workdir=wd(dev), heap="1g")) for dev, inv in DEVIATIONS]
    jobs += [("main", "decide", None, dict(cfg="ModelGeomFun.%s.cfg" % ctx.tier, workers=4, timeout=1500, extra_modules=EXTRA, workdir=wd("decide"))),
             ("lay", "lay", None, dict(cfg="ModelGeomFun.LAY.%s.cfg" % ctx.tier, workers=2, timeout=1500, extra_modules=EXTRA, workdir=wd("lay")))]
    ex = ThreadPoolExecutor(max_workers=len(jobs))
    futs = [ex.submit(lambda kw=kw: ctx.tlc(SPEC, **kw)) for _, _, _, kw in jobs]
    return ex, jobs, futs


def wait_tlc(started):
    started[0].shutdown(wait=True)


# ----------------------------------------------------------------------------------------------------------------------
def _gk(g):
    from cuqiverif.modelgeom_real import gkey
    return "%s%dx%d" % (g["kind"], g["r"], g["q"]) if g["kind"] in ("imgC", "imgF", "cont2d") else "%s%d" % (gkey(g), g["n"])


def _sig(case, what):
    return "fun/%s/op=%s/fk=%s/dom=%s/rng=%s/x=%s" % (what, case["op"], case["fk"], _gk(case["dg"]), _gk(case["rg"]), case.get("layX", "f64c"))


def make_functions(case, dom, rng, log, stats=None):
    """The user's function pair for (operator, FunKind).  `log`: list the `keeps` kind appends (argument, snapshot, result, snapshot) to.
    `stats`: counts the calls whose result shares memory with the argument (what the FunKind is about)."""
    op, fk = case["op"], case["fk"]
    idx0 = np.array(case["idx"], dtype=int) - 1
    nd = int(np.prod(dom.fun_shape))

    def sel_view(X, shape_out):
        if op == "transp":
            return X.T
        v = X.reshape(-1)                      # a view whenever numpy can make one
        out = {"ident": v, "rev": v[::-1], "sub2": v[::2], "sub2off": v[1::2], "tail": v[2:]}[op]
        return out.reshape(shape_out)

    def adj_view(Y, shape_out):
        if op == "transp":
            return Y.T
        w = Y.reshape(-1)
        if op == "ident":
            return w.reshape(shape_out)
        if op == "rev":
            return w[::-1].reshape(shape_out)
        out = np.zeros(nd)                     # scatter: the transpose of a restriction allocates by necessity
        out[idx0] = w
        return out.reshape(shape_out)

    def wrap(core, shape_in, shape_out):
        def f(X):
            if fk == "same" and tuple(shape_in) == tuple(shape_out):
                return X
            if fk == "asarray":
                X = np.asarray(X)
                if tuple(shape_in) == tuple(shape_out):
                    return X
            out = core(X, shape_out)
            if stats is not None and fk == "view" and np.shares_memory(out, X):
                d = stats.setdefault("function_results_that_are_views_of_the_argument", {})
                d[op] = d.get(op, 0) + 1
            if fk in ("fresh", "keeps"):
                out = np.array(out, dtype=float, copy=True)
            if fk == "keeps":
                log.append((X, np.array(X, dtype=float, copy=True), out, out.copy()))
            return out
        return f

    return wrap(sel_view, dom.fun_shape, rng.fun_shape), wrap(adj_view, rng.fun_shape, dom.fun_shape)


def sequences(case, tier, seed):
    ops = [o for o in BASE_OPS if case["ortho"] or o not in ("TGM", "Aa")]
    n = len(ops)
    rots = [ops[i:] + ops[:i] for i in range(n)]
    seqs = rots + [list(reversed(r)) for r in rots]
    if tier != "thorough":
        # quick: four of them per configuration, which ones depends on the configuration and the seed; GM-first always among them
        h = (sum(ord(ch) for ch in _sig(case, "")) + seed) % len(seqs)
        pick = [seqs[(h + 3 * i) % len(seqs)] for i in range(3)]
        first_gm = [s for s in seqs if s[0] == "GM"][0]
        seqs = [first_gm] + [s for s in pick if s != first_gm]
    return seqs


def check_case(ctx, case, stats=None, seqs=None):
    import cuqi
    from cuqiverif.modelgeom_real import build_geometry, rmat, rvec, close
    from cuqiverif.props.c07 import _quiet, _dense
    from cuqiverif.lingauss_common import layout
    stats = stats if stats is not None else {}
    M = rmat(case["matrix"])
    exp = {"Fa": rvec(case["fwd_a"]), "Fb": rvec(case["fwd_b"]), "Aa": rvec(case["adj_a"]), "GM": M, "TGM": M.T}
    names = {"Fa": "forward", "Fb": "forward", "Aa": "adjoint", "GM": "get_matrix", "TGM": "T_get_matrix"}
    for seq in (seqs if seqs is not None else sequences(case, ctx.tier, ctx.seed)):
        dom = build_geometry(case["dg"], rmat(case["Gd"]), rmat(case["Gpd"]))
        rng = build_geometry(case["rg"], rmat(case["Hr"]), rmat(case["Hpr"]))
        log = []
        fwd, adj = make_functions(case, dom, rng, log, stats)
        users = {k: layout(rvec(case[k]), case.get("layX")) for k in ("xa", "xb", "ya")}
        snap = {k: v.copy() for k, v in users.items()}
        held = []                                                   # (operation, returned object, expected)
        ctx.case(("fun", _sig(case, ""), "-".join(seq)), facet="fun/%s" % case["fk"])
        try:
            with _quiet():
                model = cuqi.model.LinearModel(fwd, adj, range_geometry=rng.obj, domain_geometry=dom.obj)
                for pos, o in enumerate(seq):
                    if o == "Fa":
                        got = model.forward(users["xa"])
                    elif o == "Fb":
                        got = model.forward(users["xb"])
                    elif o == "Aa":
                        got = model.adjoint(users["ya"])
                    elif o == "GM":
                        got = model.get_matrix()
                    else:
                        got = model.T.get_matrix()
                    if o in ("Fa", "Fb", "Aa"):
                        src = users["xa" if o == "Fa" else "xb" if o == "Fb" else "ya"]
                        try:
                            if isinstance(got, np.ndarray) and np.shares_memory(got, src):
                                stats.setdefault("results_sharing_memory_with_the_users_input", {}).setdefault(case["op"] + "/" + case["fk"], 0)
                                stats["results_sharing_memory_with_the_users_input"][case["op"] + "/" + case["fk"]] += 1
                        except Exception:      # noqa: BLE001
                            pass
                    held.append([o, got, exp[o], True])
                    where = "after %s" % " . ".join(seq[:pos + 1])
                    for hp, (ho, hobj, hexp, was_ok) in enumerate(held):
                        if not was_ok:
                            continue                     # wrong when it was returned: reported then
                        val = _dense(hobj) if ho in ("GM", "TGM") else np.asarray(hobj, dtype=float).ravel()
                        if not close(val, hexp):
                            held[hp][3] = False
                            if hp == len(held) - 1:
                                ctx.mismatch(_sig(case, names[ho]), dict(case, seq=seq), "%s of a function-backed model whose functions return %s (%s): not the "
                                             "specification's value" % (names[ho], case["fk"], where), expected=hexp, observed=val)
                            else:
                                ctx.mismatch(_sig(case, "held_" + names[ho]), dict(case, seq=seq), "the array returned by an EARLIER %s changed its value (%s; the "
                                             "user did not touch it or its input)" % (names[ho], where), expected=hexp, observed=val)
                    for k, v in users.items():
                        if not np.array_equal(v, snap[k]):
                            ctx.mismatch(_sig(case, "input_modified"), dict(case, seq=seq), "the user's input array %s was modified by the model (%s)" % (k, where),
                                         expected=snap[k], observed=v.copy())
                            v[...] = snap[k]
        except Exception as e:      # noqa: BLE001
            ctx.mismatch(_sig(case, "raised"), dict(case, seq=seq), "a function-backed linear model with documented geometries raised during %s: %r" % ("-".join(seq), e))
        # observation only: did the library later write into an array the function was GIVEN / RETURNED?  (both undefined)
        for (arg, arg0, out, out0) in log:
            stats["keeps_calls"] = stats.get("keeps_calls", 0) + 1
            if not np.array_equal(np.asarray(arg, dtype=float), arg0):
                stats["keeps_argument_later_rewritten_by_the_library"] = stats.get("keeps_argument_later_rewritten_by_the_library", 0) + 1
            if not np.array_equal(out, out0):
                stats["keeps_result_later_rewritten_by_the_library"] = stats.get("keeps_result_later_rewritten_by_the_library", 0) + 1


# ----------------------------------------------------------------------------------------------------------------------
# part LAY: data layout / type of the matrix and of the vectors
# ----------------------------------------------------------------------------------------------------------------------
def lay_key(c):
    import json
    return (c["mk"], json.dumps(c["dg"], sort_keys=True), json.dumps(c["rg"], sort_keys=True), c["fi"])


def check_lay_case(ctx, lay, lin_case):
    """One configuration of ModelGeom part C07 with the matrix / the vectors in another layout: the whole comparison of
    c07.check_linear (forward, adjoint on every basis vector, get_matrix, T) against the numbers of the `lin` case."""
    import scipy.sparse as sp
    import cuqi
    from cuqiverif.modelgeom_real import build_geometry, rmat, gkey, construct, ConstructionRefused, report_refusal
    from cuqiverif.props.c07 import check_linear, _lin_expectations
    from cuqiverif.lingauss_common import layout
    case = dict(lin_case, kind="lay", layM=lay["layM"], layX=lay["layX"])
    Gd, Gpd, Hr, Hpr = (rmat(case[k]) if len(case[k]) else None for k in ("Gd", "Gpd", "Hr", "Hpr"))
    dom = build_geometry(case["dg"], Gd, Gpd)
    rng = build_geometry(case["rg"], Hr, Hpr)
    key = "mk=%s.%s/dom=%s/rng=%s/x=%s" % (case["mk"], lay["layM"], gkey(dom.g), gkey(rng.g), lay["layX"])
    exp = _lin_expectations(case, dom, rng)
    exp["ckey"] = "/lay"
    exp["x"], exp["y"] = layout(exp["x"], lay["layX"]), layout(exp["y"], lay["layX"])
    F = exp["F"]

    def factory():
        if case["mk"] == "dense":
            M = layout(F.copy(), lay["layM"])
        else:
            M = sp.csc_matrix(F.astype(int) if lay["layM"] == "int" else F.astype(np.float32))
        return construct(key, lambda: cuqi.model.LinearModel(M, range_geometry=rng.obj, domain_geometry=dom.obj))

    x0, y0 = np.array(exp["x"], dtype=float), np.array(exp["y"], dtype=float)
    try:
        check_linear(ctx, case, key, factory, exp)
    except ConstructionRefused as r:
        report_refusal(ctx, case, "lay/construct", r)
        return
    if not (np.array_equal(np.asarray(exp["x"], dtype=float), x0) and np.array_equal(np.asarray(exp["y"], dtype=float), y0)):
        ctx.mismatch("input_modified/%s" % key, case, "forward / adjoint modified the vector handed in")


def run_lay(ctx, res, lin):
    from cuqiverif import tlc
    from cuqiverif.core import MachineryError
    ctx.model_must_hold(res, "ModelGeomFun.LAY")
    lays = [c for c in res.cases if c.get("kind") == "lay"]
    tlc.cleanup(res)
    table = {lay_key(c): c for c in lin}
    if not lays:
        raise MachineryError("no cases emitted by ModelGeomFun part LAY")
    lays.sort(key=lambda c: (lay_key(c), c["layM"], c["layX"]))
    for lay in lays:
        base = table.get(lay_key(lay))
        if base is None:
            raise MachineryError("part LAY: configuration %r is not among the `lin` cases of ModelGeom part C07" % (lay_key(lay),))
        check_lay_case(ctx, lay, base)
    ctx.observations["lay_part"] = {"configurations": len(lays), "matrix_layouts": sorted({c["mk"] + "." + c["layM"] for c in lays}),
                                    "vector_layouts": sorted({c["layX"] for c in lays})}
    return len(lays)


def run_fun(ctx, started=None, lin=None):
    from cuqiverif import tlc
    from cuqiverif.core import MachineryError
    ex, jobs, futs = started if started is not None else start_tlc(ctx)
    try:
        results = [f.result() for f in futs]
    finally:
        ex.shutdown(wait=True)
    cases, nlay = None, 0
    try:
        for (kind, name, inv, _), res in zip(jobs, results):
            if kind == "lay":
                if lin is not None:
                    nlay = run_lay(ctx, res, lin)
            elif kind == "dev":
                if res.ok or res.violated != inv:
                    raise MachineryError("deviation %s did not violate %s on ModelGeomFun (violated=%r)" % (name, inv, res.violated))
                ctx.observations.setdefault("deviation_counterexamples", {})["FUN/" + name] = inv
            else:
                ctx.model_must_hold(res, "ModelGeomFun")
                cases = [c for c in res.cases if c.get("kind") == "fun"]
    finally:
        for res in results:
            tlc.cleanup(res)
    if not cases:
        raise MachineryError("no cases emitted by ModelGeomFun")
    cases.sort(key=lambda c: _sig(c, ""))
    stats = {}
    for c in cases:
        check_case(ctx, c, stats)
    sh = stats.get("function_results_that_are_views_of_the_argument", {})
    ctx.observations["fun_part"] = dict(stats, configurations=len(cases))
    view_ops = {c["op"] for c in cases if c["fk"] == "view" and c["can_alias"]}
    missing = sorted(o for o in view_ops if not sh.get(o))
    if missing and not ctx.violations:
        raise MachineryError("vacuous: with view-returning functions and identity-like geometries no result of the user's functions shared memory with "
                             "its argument for the operators %r (the realisation of FunKind `view` has lost its meaning)" % (missing,))
    pick = [c for c in cases if c["op"] == "sub2" and c["fk"] == "view"][:1]
    for c in pick:
        ctx.sample({"case": {k: c[k] for k in ("kind", "op", "fk", "dg", "rg", "idx", "matrix", "xa", "fwd_a", "ya", "adj_a")}})
    ctx.assumptions += ["part FUN: the user's functions never modify their argument and never hand out one output buffer twice (both undefined); whether the library "
                        "later writes into an array a function was given or returned is observed only (`fun_part`); a complex-valued matrix is out of scope "
                        "(the library documents real arrays; for complex input 'transpose' vs 'conjugate transpose' is undefined)"]
    return len(cases) + nlay


def replay(ctx, case):
    if case.get("kind") == "lay":
        return check_lay_case(ctx, {"layM": case["layM"], "layX": case["layX"]}, case)
    return check_case(ctx, case, seqs=[case["seq"]] if "seq" in case else None)
