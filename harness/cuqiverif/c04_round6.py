"""C04, parts `Siblings`, `Buffers` (spec: specs/FamiliesSib.tla) and `Live` (spec: specs/DiffOpsLive.tla, behaviours LvWalk) -
helpers of props/c04.py.

The BEHAVIOURS come from TLC (FamiliesSib: heap model of objects derived from one another + public setters, SibOwnParameters,
deviation DevInPlaceSetter refuted; argument buffers edited in place between calls, BufContentAtCallTime, deviation
DevIdentityMemo refuted; DiffOpsLive!LvWalk: in-place edits of a parameter the object reads at evaluation time).  The exact
NUMBERS of every version vector are complete cases of the configuration lattice of Families.tla: start configuration and mixed
configurations of a Reassign group (`from`, `trail[n].expect` of all orders = every subset of assigned units), other evaluation
points of the same parameters from the main lattice.  Nothing here evaluates a density formula.
"""
import copy
import json
import math
import random

import numpy as np

MRF = ("GMRF", "LMRF", "CMRF")
MODS = []          # FamiliesSib is self-contained


def _c04():
    from cuqiverif.props import c04
    return c04


def _fc():
    from cuqiverif import families_common as fc
    return fc


def _obs(ctx, key, tag):
    d = ctx.observations.setdefault(key, {})
    d[tag] = d.get(tag, 0) + 1


# ======================================================================================================================
# TLC
# ======================================================================================================================
def _wd(label):
    import os
    from cuqiverif import tlc
    return os.path.join(tlc.WORK, "FamiliesSib-c04r6-%s-%d" % (label, os.getpid()))


_JOBS = (("sib", "FamiliesSib", "FamiliesSib.siblings.%s.cfg", False, []),
         ("buf", "FamiliesSib", "FamiliesSib.buffers.%s.cfg", False, []),
         ("sibdev", "FamiliesSib", "FamiliesSib.siblings_inplace.deviation.cfg", True, []),
         ("bufdev", "FamiliesSib", "FamiliesSib.buffers_identity.deviation.cfg", True, []),
         ("live", "DiffOpsLive", "DiffOpsLive.walks.%s.cfg", False, ["DiffOps.tla"]),
         ("livedev", "DiffOpsLive", "DiffOpsLive.dev_keeps_derived.cfg", True, ["DiffOps.tla"]))


def start_tlc(ctx):
    import concurrent.futures
    pool = concurrent.futures.ThreadPoolExecutor(max_workers=3)
    jobs = {}
    for label, spec, cfg, dev, mods in _JOBS:
        jobs[label] = pool.submit(ctx.tlc, spec, cfg=(cfg % ctx.tier if "%s" in cfg else cfg), workers=2, timeout=900,
                                  extra_modules=mods, expect_violation=dev, workdir=_wd(label))
    pool.shutdown(wait=False)
    return jobs


def discard_tlc(jobs):
    from cuqiverif import tlc
    for f in jobs.values():
        try:
            tlc.cleanup(f.result())
        except BaseException:      # noqa: BLE001
            pass
    for label, *_ in _JOBS:
        tlc.cleanup(_wd(label))


def collect_tlc(ctx, jobs):
    from cuqiverif import tlc
    from cuqiverif.core import MachineryError
    out, err = {}, None
    for k, f in jobs.items():
        try:
            out[k] = f.result()
        except BaseException as e:      # noqa: BLE001
            err = err or e
    if err is not None:
        discard_tlc(jobs)
        raise err
    for k, what in (("sib", "FamiliesSib.siblings"), ("buf", "FamiliesSib.buffers"), ("live", "DiffOpsLive.walks")):
        ctx.model_must_hold(out[k], what)
    sib = [c for c in out["sib"].cases if c.get("kind") == "sibwalk4"]
    buf = [c for c in out["buf"].cases if c.get("kind") == "bufwalk"]
    live = [c["ops"] for c in out["live"].cases if c.get("kind") == "livewalk"]
    ltags = [c["tags"] for c in out["live"].cases if c.get("kind") == "livetags"]
    devs = {k: out[k].violated for k in ("sibdev", "bufdev", "livedev")}
    for r in out.values():
        tlc.cleanup(r)
    for k, inv, name in (("sibdev", "SibOwnParameters", "DevInPlaceSetter"), ("bufdev", "BufContentAtCallTime", "DevIdentityMemo"),
                         ("livedev", "LvReportedIsUsed", "DevKeepsDerived")):
        if devs[k] != inv:
            raise MachineryError("deviation %s did not violate %s (got %r): vacuous invariant" % (name, inv, devs[k]))
        ctx.observations.setdefault("deviations_refuted_by_tlc", {})[name] = inv
    if not sib or not buf or not live or not ltags:
        raise MachineryError("FamiliesSib / DiffOpsLive emitted no behaviours (%d, %d, %d, %d)" % (len(sib), len(buf), len(live), len(ltags)))
    return sib, buf, live, ltags[0]


# ======================================================================================================================
# groups: one start configuration with all its mixed configurations
# ======================================================================================================================
def cfg_key(cfg, **over):
    k = dict(cfg)
    k.update(over)
    return json.dumps(k, sort_keys=True)


class Group:
    """All Reassign cases of ONE start configuration: table  {assigned units} -> complete expected case."""

    def __init__(self, rcs, idx, main, gsel=None):
        fc = _fc()
        self.rcs, self.idx, self.main, self.gsel = rcs, idx, main, gsel
        self.fam = rcs[0]["fam"]
        self.frm = rcs[0]["from"]
        self.d = self.frm["dim"]
        self.units, self.table = {}, {frozenset(): self.frm}
        for rc in rcs:
            S = frozenset()
            for t in rc["trail"]:
                self.units[t["unit"]] = list(t["assign"])
                S = S | {t["unit"]}
                self.table[S] = t["expect"]
        self.unit_ids = sorted(self.units)
        self.mrf = self.fam in MRF
        self.extra, self.tol = "", (1e-10, 1e-10)
        if self.mrf:
            m = self.frm["mrf"]
            self.extra = "/pd=%d/bc=%s/order=%d" % (m["pd"], m["bc"], m["order"])
            self.tol = (1e-10, 1e-10) if (m["bc"] == "zero" or self.fam != "GMRF") else (1e-8, 1e-8)
        self.gch = None
        if self.fam == "Gaussian":
            def keys(cs):
                return {(i["form"], i["shape"]) for i in cs["inputs"] if not (i["shape"] == "sparse" and cs["dim"] == 1)}
            common = None
            for cs in self.table.values():
                common = keys(cs) if common is None else common & keys(cs)
            common = sorted(common)
            self.gchoices = common
            if common:
                form, shape = common[(idx if gsel is None else gsel) % len(common)]
                self.gch = (form, shape, {"scalar": "scalar", "sparse": "csr"}.get(shape, "ndarray"))
        self.real = "ndarray" if self.gch is None else "%s:%s" % (self.gch[0], self.gch[1])

    def ok(self):
        fc = _fc()
        if self.fam == "Gaussian" and self.gch is None:
            return False
        if self.mrf and not fc.mrf_operator_matches(self.frm):
            return False                      # the other wrap-multiplicity variant is the operator of the code
        return True

    # -- names and values
    def attr(self, name):
        return self.gch[0] if (self.fam == "Gaussian" and name == "matrix") else name

    def attrs(self, unit):
        return [self.attr(n) for n in self.units[unit]]

    def all_attrs(self):
        out = []
        for u in self.unit_ids:
            for a in self.attrs(u):
                if a not in out:
                    out.append(a)
        return out

    def value(self, case, attr, as_buffer=False):
        fc = _fc()
        if self.fam == "Gaussian":
            if attr == "mean":
                return fc.vec(case["par"]["mean"])
            form, shape, how = self.gch
            data = [i for i in case["inputs"] if i["form"] == form and i["shape"] == shape][0]["data"]
            v = fc.gaussian_param(shape, data, how)
            return np.array([v]) if (as_buffer and shape == "scalar") else v
        if self.mrf:
            v = fc.vec(case["par"][attr])
            return float(v[0]) if attr in ("prec", "scale") else np.array(v)
        return fc.assign_value(case, attr)

    def array_valued(self, unit):
        """can the attributes of this unit be handed over as numpy arrays that keep their shape in every version?"""
        fc = _fc()
        for a in self.attrs(unit):
            if self.mrf and a in ("prec", "scale"):
                return False
            if (self.fam, a) in fc._SCALAR_ONLY:
                return False
            if self.fam == "Gaussian" and a != "mean" and self.gch[1] == "sparse":
                return False
        return True

    def case_of(self, versions):
        """versions: {unit: 1 | 2} (missing = 1)"""
        return self.table.get(frozenset(u for u, v in versions.items() if v == 2))

    def xvariant(self, case):
        """the same parameters at another evaluation point of the lattice (None when the lattice has none)"""
        cfg = case["cfg"]
        xs = self.main["xs"].get(cfg_key(cfg, x=0), [])
        alt = [x for x in xs if x != cfg["x"]]
        if not alt:
            return None
        return self.main["by"].get(cfg_key(cfg, x=alt[0]))

    # -- real objects
    def build_root(self, callable_units):
        """the root O: parameters of the callable units are callables of conditioning variables c_<attribute>, the others have
        the values of the start configuration"""
        import cuqi
        fc = _fc()
        cattrs = [a for u in callable_units for a in self.attrs(u)]
        kw = {a: (fc._mk_lambda("c_" + a) if a in cattrs else self.value(self.frm, a)) for a in self.all_attrs()}
        if self.fam == "Gaussian":
            O = cuqi.distribution.Gaussian(**kw, geometry=self.d)
        elif self.mrf:
            m = self.frm["mrf"]
            extra = {"bc_type": m["bc"]}
            if self.fam == "GMRF":
                extra["order"] = m["order"]
            geom = self.d if m["pd"] == 1 else (m["n"], m["n"])
            with fc.quiet():
                O = getattr(cuqi.distribution, self.fam)(**kw, geometry=geom, **extra)
        else:
            O = getattr(cuqi.distribution, fc._CLS[self.fam])(**kw, geometry=self.d)
        O.name = "z"
        return O, cattrs

    def cond_values(self, case, cattrs, as_buffer=False):
        return {"c_" + a: self.value(case, a, as_buffer) for a in cattrs}

    def refusal_ok(self):
        fc = _fc()
        if self.fam != "Gaussian" or self.gch[1] != "sparse":
            return False
        form, shape, _ = self.gch
        return any(not fc.is_diag([i for i in cs["inputs"] if i["form"] == form and i["shape"] == shape][0]["data"])
                   for cs in self.table.values())


def make_groups(re_cases, main_cases):
    fc = _fc()
    by, xs = {}, {}
    for cs in main_cases:
        if cs.get("kind") != "family" or "cfg" not in cs:
            continue
        by[cfg_key(cs["cfg"])] = cs
        xs.setdefault(cfg_key(cs["cfg"], x=0), []).append(cs["cfg"]["x"])
    for k in xs:
        xs[k] = sorted(set(xs[k]))
    main = {"by": by, "xs": xs}
    g = {}
    for rc in sorted(re_cases, key=fc.reassign_id):
        g.setdefault(fc.case_id(rc), []).append(rc)
    out = []
    for _, rcs in sorted(g.items()):
        first = Group(rcs, len(out), main, gsel=0)
        out.append(first)
        # Gaussian: every (input form, shape) all configurations of the group admit is a parameterisation of its own
        for j in range(1, len(getattr(first, "gchoices", []))):
            out.append(Group(rcs, len(out), main, gsel=j))
    return out


# ======================================================================================================================
# evaluation of one object against one case
# ======================================================================================================================
def evaluate(ctx, g, obj, case, way, carry):
    """logpdf / pdf / logd (and cdf where closed-form) of a real object against the complete case of ITS OWN version vector"""
    c04, fc = _c04(), _fc()
    x = fc.vec(case["x"])
    exp = dict(case, kind="r6", r6=carry)
    if c04._eval_density(ctx, c04._Unnorm(), exp, g.fam, way, g.d, obj, x, extra=g.extra, tol=g.tol, xforms=False,
                         accept_refusal=g.refusal_ok()):
        if g.fam != "Gaussian" or g.d == 1:
            c04._eval_cdf(ctx, exp, g.fam, way, g.d, obj, x, extra=g.extra)


# ======================================================================================================================
# Siblings
# ======================================================================================================================
def sib_tag(w):
    parts = ["c" + "".join(str(i + 1) for i in range(2) if w["callable"][i])]
    for o in w["ops"]:
        if o["op"] == "derive":
            parts.append("d%s:%s%s" % (o["who"], o["kind"], o["ver"] if o["kind"] == "cond" else ""))
        elif o["op"] == "assign":
            parts.append("a%s:%d" % (o["who"], o["unit"]))
        else:
            parts.append("e" + o["who"])
    return ".".join(parts)


SIB_CANON = ("c.dS1:copy.aS1:1.eS1.eO", "c.dS1:copy.aO:2.eO.eS1", "c.dS1:posterior.aO:1.eO.eS1", "c.dS1:call.aS1:2.eS1.eO",
             "c1.dS1:cond1.aS1:2.dS2:cond1.eS1.eS2", "c2.dS1:cond1.dS2:cond2.aS1:1.eS1.eS2", "c.dS1:copy.dS2:copy.aS1:1.aS2:2.eO")


def derive(ctx, g, O, kind, values):
    import cuqi
    if kind == "copy":
        return copy.copy(O)
    if kind == "call":
        return O()
    if kind == "cond":
        return O(**values)
    y = cuqi.distribution.Gaussian(mean=_fc()._mk_lambda("z"), cov=1.0, geometry=g.d, name="y")
    P = cuqi.distribution.JointDistribution(O, y)(y=np.zeros(g.d))
    return P.prior


def sib_walk(ctx, g, w, umap):
    """one behaviour of FamiliesSib!Siblings on real objects of group g; umap = the two units of the family that play the units
    1, 2 of the behaviour.  Returns True when the behaviour was driven to its end."""
    fc = _fc()
    tag = sib_tag(w)
    cunits = [umap[i] for i in range(2) if w["callable"][i]]
    carry = {"part": "siblings", "rcs": g.rcs, "idx": g.idx, "gsel": g.gsel, "walk": w, "umap": list(umap)}
    st, built, _ = fc.call(lambda: g.build_root(cunits))
    if st == "raise":
        _obs(ctx, "r6_siblings_root_refused", "%s/callable=%s" % (g.fam, "+".join(a for u in cunits for a in g.attrs(u)) or "none"))
        return False
    O, cattrs = built
    if g.fam == "Uniform" and cunits and any(o["op"] == "assign" and o["who"] == "O" for o in w["ops"]):
        return False                          # high = low + width: the value of a bound of a conditional box is not defined by one unit
    objs = {"O": O}
    val = {"O": {u: (0 if u in cunits else 1) for u in g.unit_ids}}
    way0 = "siblings:%s:%s:u=%s" % (g.real, tag, "+".join("+".join(g.units[u]) for u in umap))
    nev = 0
    for o in w["ops"]:
        who = o["who"]
        if o["op"] == "derive":
            nv = {u: (o["ver"] if u in cunits else val["O"][u]) for u in g.unit_ids}
            cs = g.case_of(nv)
            if cs is None:
                return False
            r = fc.call(lambda: derive(ctx, g, O, o["kind"], g.cond_values(cs, cattrs)))
            if r[0] == "raise" or r[1] is None:
                _obs(ctx, "r6_siblings_derivation_refused", "%s/%s" % (g.fam, o["kind"]))
                return False
            objs[who], val[who] = r[1], nv
            continue
        if o["op"] == "assign":
            u = umap[o["unit"] - 1]
            nv = dict(val[who])
            nv[u] = 3 - nv[u]
            cs = g.case_of({k: (v or 1) for k, v in nv.items()})
            if cs is None:
                return False
            steps = [(a, g.value(cs, a)) for a in g.attrs(u)]
            with fc.quiet():
                e = fc.apply_assignments(objs[who], steps)
            if e is not None:
                _obs(ctx, "r6_siblings_assignment_refused", "%s.%s" % (g.fam, "+".join(g.attrs(u))))
                return False
            val[who] = nv
            continue
        cs = g.case_of(val[who])
        if cs is None:
            return False
        nev += 1
        evaluate(ctx, g, objs[who], cs, "%s:at=%d%s" % (way0, nev, who), carry)
    return True


def run_siblings(ctx, groups, walks):
    from cuqiverif.core import MachineryError
    by = {sib_tag(w): w for w in walks}
    missing = [t for t in SIB_CANON if t not in by]
    if missing:
        raise MachineryError("FamiliesSib.Siblings did not emit the behaviours %r" % missing)
    tags = sorted(by)
    random.Random(ctx.seed).shuffle(tags)
    extra = 2 if ctx.tier == "quick" else 4
    k, done, used, fams = 0, 0, set(), {}
    for g in groups:
        if not g.ok():
            continue
        nu = len(g.unit_ids)
        pairs = [(g.unit_ids[i], g.unit_ids[(i + 1) % nu]) for i in range(nu)] if nu > 2 else [tuple(g.unit_ids)]
        umap = pairs[g.idx % len(pairs)]
        chosen = [SIB_CANON[(g.idx + j) % len(SIB_CANON)] for j in range(2)] + [tags[(k * extra + j) % len(tags)] for j in range(extra)]
        k += 1
        for t in dict.fromkeys(chosen):
            if sib_walk(ctx, g, by[t], umap):
                done += 1
                used.add(t)
                fams[g.fam] = fams.get(g.fam, 0) + 1
    ctx.traces += done
    ctx.observations["r6_siblings"] = {"behaviours_replayed": done, "behaviours_emitted": len(tags), "behaviours_used": len(used),
                                       "per_family": fams}
    need = [f for f in _c04().RE_FAMS if f != "Lognormal" and not fams.get(f)]
    if need:
        raise MachineryError("Siblings part vacuous: no behaviour driven for %r" % need)


# ======================================================================================================================
# Buffers
# ======================================================================================================================
def buf_tag(w):
    return w["entry"] + ":" + "".join("C" if o["op"] == "call" else ("w" + o["buf"][0]) for o in w["ops"])


BUF_CANON_OPS = ("CwcCwcC", "CwxCwxC", "CwcwxC")


def buf_walk(ctx, g, w, units):
    """one behaviour of FamiliesSib!Buffers: the SAME array objects are passed to every call, their content is replaced in place
    between the calls; the expected value of a call is the case of the content at call time"""
    c04, fc = _c04(), _fc()
    entry = w["entry"]
    tag = buf_tag(w)
    lik = entry.startswith("lik")
    cunits = [] if entry == "plain" else list(units)
    carry = {"part": "buffers", "rcs": g.rcs, "idx": g.idx, "gsel": g.gsel, "walk": w, "units": list(units)}
    if any(o["op"] == "write" and o["buf"] == "x" for o in w["ops"]):
        if any(g.xvariant(cs) is None for cs in g.table.values()):
            return False
    cs2 = g.case_of({u: 2 for u in cunits})
    if cs2 is None:
        return False
    if lik and not np.array_equal(fc.vec(cs2["x"]), fc.vec(g.frm["x"])):
        return False                          # the data of the likelihood stay where they are: units that move the lattice point are not used
    carry["xvar"] = [v for v in (g.xvariant(cs) for cs in g.table.values()) if v is not None] + list(g.table.values())
    st, built, _ = fc.call(lambda: g.build_root(cunits))
    if st == "raise":
        _obs(ctx, "r6_buffers_root_refused", "%s/%s" % (g.fam, entry))
        return False
    O, cattrs = built
    ver = {"cond": 1, "x": 1}

    def now():
        cs = g.case_of({u: ver["cond"] for u in cunits})
        return g.xvariant(cs) if ver["x"] == 2 else cs
    cs = now()
    bufs = {k: np.array(v, dtype=float) for k, v in g.cond_values(cs, cattrs, as_buffer=True).items()}
    xbuf = np.array(fc.vec(cs["x"]), dtype=float)
    L = None
    if lik:
        r = fc.call(lambda: O.to_likelihood(np.array(xbuf)))
        if r[0] == "raise":
            _obs(ctx, "r6_buffers_likelihood_refused", g.fam)
            return False
        L = r[1]
    order = None
    if entry in ("logd_pos", "lik_pos"):
        r = fc.call(lambda: list(O.get_conditioning_variables()))
        if r[0] == "raise" or sorted(r[1]) != sorted(bufs):
            _obs(ctx, "r6_buffers_conditioning_variables_differ", g.fam)
            return False
        order = r[1]
    way0 = "buffers:%s:%s:cond=%s" % (g.real, tag, "+".join(cattrs) or "none")
    delta, ncall = {}, 0
    for o in w["ops"]:
        if o["op"] == "write":
            ver[o["buf"]] = 3 - ver[o["buf"]]
            cs = now()
            for k, v in g.cond_values(cs, cattrs, as_buffer=True).items():
                bufs[k][...] = v                                  # in place: same objects, new content
            if not lik:
                xbuf[...] = fc.vec(cs["x"])
            continue
        ncall += 1
        cs = now()
        exp = fc.expected_logpdf(cs)
        way = "%s:at=%d" % (way0, ncall)
        expc = dict(cs, kind="r6", r6=carry)
        saved = {k: v.copy() for k, v in bufs.items()}
        xsaved = xbuf.copy()
        what, quantity = "logpdf", "logpdf"
        if entry == "plain":
            f = [lambda: O.logpdf(xbuf), lambda: O.logd(xbuf), lambda: O.pdf(xbuf), lambda: O.cdf(xbuf)][ncall % 4]
            quantity = ["logpdf", "logd", "pdf", "cdf"][ncall % 4]
        elif entry == "logd_kw":
            f, quantity = (lambda: O.logd(z=xbuf, **bufs)), "logd"
        elif entry == "logd_pos":
            f, quantity = (lambda: O.logd(*([bufs[k] for k in order] + [xbuf]))), "logd"
        elif entry == "lik_kw":
            f, quantity = (lambda: L.logd(**bufs)), "logd"
        elif entry == "lik_pos":
            f, quantity = (lambda: L.logd(*[bufs[k] for k in order])), "logd"
        else:
            quantity = entry[len("cond_"):]
            f = lambda: getattr(O(**bufs), quantity)(xbuf)
        if quantity == "cdf":
            cdf = cs.get("cdf", {"form": "none"})
            if cdf["form"] == "none" or (g.fam == "Gaussian" and g.d > 1) or not hasattr(O, "cdf"):
                quantity, f = "logpdf", ((lambda: O.logpdf(xbuf)) if entry == "plain" else (lambda: O(**bufs).logpdf(xbuf)))
        ctx.case(("buffers", fc.case_id(cs), way, quantity), facet="buffers/%s" % entry)
        st, v, _ = fc.call(f)
        sig = c04._sig(quantity, g.fam, way, g.d, cs, g.extra)
        if st == "raise":
            if g.refusal_ok():
                _obs(ctx, "r6_buffers_refused", g.fam)
                return False
            ctx.mismatch(sig + "/raises", expc, "%s with argument arrays raises: %r" % (entry, v), exp, repr(v))
            return False
        got = fc.scalar_of(v)
        if quantity == "cdf":
            e2 = fc.expected_cdf(cs["cdf"])
            ok = got is not None and fc.close(got, e2, 1e-9, 1e-12)
        elif quantity == "pdf":
            e2 = math.exp(exp) if exp > -math.inf else 0.0
            ok = got is not None and fc.close(got, e2, 1e-9, 1e-300)
        elif quantity == "logd" and math.isfinite(exp):
            # un-normalised: logd - logpdf is one constant per parameter version (first call of the version fixes it)
            e2 = exp
            ok = got is not None and math.isfinite(got)
            if ok:
                dk = (ver["cond"],)
                if dk in delta:
                    ok = abs((got - exp) - delta[dk]) <= 1e-9 * max(1.0, abs(exp))
                    e2 = exp + delta[dk]
                else:
                    delta[dk] = got - exp
                    # the constant itself: zero for every family of the unchanged tree (logd IS logpdf); judged like logpdf
                    ok = fc.close(got, exp, *g.tol)
        else:
            e2 = exp
            ok = got is not None and fc.close(got, exp, *g.tol)
        if g.fam == "ModifiedHalfNormal":
            ok = True
        if not ok:
            ctx.mismatch(sig, expc, "%s (%s) is not the documented value for the content the argument arrays have at the time of the "
                         "call (the same array objects were passed before with another content)" % (quantity, entry), e2, v)
        if any(not np.array_equal(bufs[k], saved[k]) for k in bufs) or not np.array_equal(xbuf, xsaved):
            ctx.mismatch(sig + "/argument_mutated", expc, "%s modified an array it was called with" % entry,
                         dict({k: v.tolist() for k, v in saved.items()}, x=xsaved.tolist()),
                         dict({k: v.tolist() for k, v in bufs.items()}, x=xbuf.tolist()))
    return True


def run_buffers(ctx, groups, walks):
    from cuqiverif.core import MachineryError
    by = {buf_tag(w): w for w in walks}
    entries = sorted({w["entry"] for w in walks})
    tags = sorted(by)
    random.Random(ctx.seed + 1).shuffle(tags)
    extra = 2 if ctx.tier == "quick" else 4
    k, done, used, fams, per_entry = 0, 0, set(), {}, {}
    for g in groups:
        if not g.ok():
            continue
        arr_units = [u for u in g.unit_ids if g.array_valued(u)]
        if not arr_units:
            continue
        units = [arr_units[g.idx % len(arr_units)]] if (g.idx // len(arr_units)) % 2 == 0 else arr_units[:2]
        e = entries[g.idx % len(entries)]
        canon = [t for t in ("%s:%s" % (e, BUF_CANON_OPS[g.idx % len(BUF_CANON_OPS)]), "%s:CwcCwcC" % e, "%s:CwxCwxC" % e) if t in by][:1]
        chosen = canon + [tags[(k * extra + j) % len(tags)] for j in range(extra)]
        if g.fam in ("Gaussian", "Lognormal", "GMRF"):
            # objects that factorise / wrap their parameters: every entry point through which conditioning values arrive
            chosen += ["%s:CwcCwcC" % e2 for e2 in ("logd_kw", "logd_pos", "lik_kw", "cond_logpdf") if e2 != e]
        k += 1
        for t in dict.fromkeys(chosen):
            if t in by and buf_walk(ctx, g, by[t], units):
                done += 1
                used.add(t)
                fams[g.fam] = fams.get(g.fam, 0) + 1
                per_entry[by[t]["entry"]] = per_entry.get(by[t]["entry"], 0) + 1
    ctx.traces += done
    ctx.observations["r6_buffers"] = {"behaviours_replayed": done, "behaviours_emitted": len(tags), "behaviours_used": len(used),
                                      "per_family": fams, "per_entry": per_entry}
    need = [f for f in ("Normal", "Gaussian", "Cauchy", "Gamma", "InverseGamma", "Beta", "Uniform", "GMRF", "LMRF", "CMRF") if not fams.get(f)]
    need += [e for e in entries if not per_entry.get(e)]
    if need:
        raise MachineryError("Buffers part vacuous: no behaviour driven for %r" % need)


# ======================================================================================================================
# Live (in-place edits of a parameter the object reads at evaluation time; behaviours of DiffOpsLive!LvWalk)
# ======================================================================================================================
def live_tag(ops):
    return ".".join(("E:" + o["obs"]) if o["op"] == "evaluate" else ("edit:" + o["how"]) if o["op"] == "edit" else ("set:" + o["what"])
                    for o in ops)


def _reported(obj, attr, versions):
    v = np.asarray(getattr(obj, attr), dtype=float).ravel()
    for k, arr in versions.items():
        full = np.asarray(arr, dtype=float).ravel()
        if v.size in (1, full.size) and np.array_equal(np.broadcast_to(v, full.shape) if v.size == 1 else v, full):
            return k
    return 0


def live_walk(ctx, g, ops, tags, lu, ou, stats):
    """one behaviour of DiffOpsLive!LvWalk on one real object of group g: lu = the unit whose (single, array-valued) attribute is
    tagged Live in the spec, ou = another unit (assigned through its setter)."""
    fc = _fc()
    attr = g.attrs(lu)[0]
    carry = {"part": "live", "rcs": g.rcs, "idx": g.idx, "gsel": g.gsel, "ops": ops, "lu": lu, "ou": ou}
    st, built, _ = fc.call(lambda: g.build_root([]))
    if st == "raise":
        return False
    obj = built[0]
    vers = {v: np.array(g.value(g.case_of({lu: v}), attr), dtype=float) for v in (1, 2)}
    if vers[1].shape != vers[2].shape or np.array_equal(vers[1], vers[2]):
        return False
    arg = vers[1].copy()
    e = fc.apply_assignments(obj, [(attr, arg)])          # the array the object was given is known to the caller from here on
    if e is not None:
        return False
    rep, oth = 1, 1
    way0 = "live:%s:%s:%s" % (g.real, attr, live_tag(ops))
    nev = 0
    for o in ops:
        if o["op"] == "edit":
            new, old = vers[3 - rep], vers[rep]
            how = o["how"]
            try:
                if how == "argbuf":
                    arg[...] = new
                else:
                    a = getattr(obj, attr)
                    if how == "slice":
                        a[:] = new
                    elif how == "items":
                        for i in range(len(a)):
                            a[i] = new[i]
                    else:
                        a += (new - old)
            except Exception as ex:      # noqa: BLE001
                stats["edit_refused:" + g.fam] = stats.get("edit_refused:" + g.fam, 0) + 1
                return False
            now = _reported(obj, attr, vers)
            if now == 0:
                ctx.mismatch("live_getter/%s/way=%s/dim=%d" % (g.fam, way0, g.d), dict(g.frm, kind="r6", r6=carry),
                             "after an in-place edit the public getter reports neither the old nor the new value", new, getattr(obj, attr))
                return False
            key = ("edit_reported:" if now != rep else "edit_not_reported:") + "%s.%s" % (g.fam, attr) + (":argbuf" if how == "argbuf" else "")
            stats[key] = stats.get(key, 0) + 1
            rep = now
            continue
        if o["op"] == "assign":
            if o["what"] == "live":
                arg = vers[3 - rep].copy()
                steps = [(attr, arg)]
                nrep, noth = 3 - rep, oth
            else:
                if ou is None:
                    return False
                nrep, noth = rep, 3 - oth
                cs = g.case_of({lu: rep, ou: noth})
                if cs is None:
                    return False
                steps = [(a, g.value(cs, a)) for a in g.attrs(ou) if a != attr]
            with fc.quiet():
                e = fc.apply_assignments(obj, steps)
            if e is not None:
                return False
            rep, oth = nrep, noth
            continue
        cs = g.case_of({lu: rep, **({ou: oth} if ou is not None else {})})
        if cs is None:
            return False
        nev += 1
        evaluate(ctx, g, obj, cs, "%s:at=%d" % (way0, nev), carry)
    return True


def run_live(ctx, groups, walks, tags):
    """tags: LvTags of DiffOpsLive.tla (family -> parameter -> Live | Snapshot | Scalar), emitted by the spec"""
    from cuqiverif.core import MachineryError
    by = {live_tag(w): w for w in walks if "argbuf-noalias" not in live_tag(w)}
    order = sorted(by)
    random.Random(ctx.seed + 2).shuffle(order)
    canon = [t for t in ("E:logpdf.edit:slice.E:logpdf", "E:gradient.edit:items.E:logpdf", "E:logpdf.edit:iadd.E:gradient",
                         "E:logpdf.edit:argbuf.E:logpdf") if t in by]
    extra = 1 if ctx.tier == "quick" else 3
    k, done, stats, fams = 0, 0, {}, {}
    for g in groups:
        if not g.ok() or g.fam in MRF:        # (the Markov random fields: property C20 replays this part on its own configurations)
            continue
        ft = tags.get(g.fam, {})
        live_units = [u for u in g.unit_ids if len(g.units[u]) == 1 and ft.get(g.attrs(u)[0]) == "Live" and g.array_valued(u)]
        if not live_units:
            continue
        lu = live_units[g.idx % len(live_units)]
        others = [u for u in g.unit_ids if u != lu and g.fam != "Uniform"]
        ou = others[g.idx % len(others)] if others else None
        chosen = [canon[g.idx % len(canon)]] + [order[(k * extra + j) % len(order)] for j in range(extra)]
        k += 1
        for t in dict.fromkeys(chosen):
            if live_walk(ctx, g, by[t], tags, lu, ou, stats):
                done += 1
                fams[g.fam] = fams.get(g.fam, 0) + 1
    ctx.traces += done
    ctx.observations["r6_live"] = {"behaviours_replayed": done, "per_family": fams, "edits": stats,
                                   "tags": {f: tags[f] for f in sorted(tags) if f not in MRF}}
    need = [f for f in ("Normal", "Cauchy", "Gamma", "InverseGamma", "Beta", "Gaussian") if not fams.get(f)
            or not any(k.startswith("edit_reported:%s." % f) for k in stats)]
    if need:
        raise MachineryError("Live part vacuous: no in-place edit reported by a getter for %r (%r)" % (need, stats))


# ======================================================================================================================
def run(ctx, jobs, re_cases, main_cases):
    sib, buf, live, live_tags = collect_tlc(ctx, jobs)
    groups = make_groups(re_cases, main_cases)
    import time
    t = time.time()
    run_siblings(ctx, groups, sib)
    t1 = time.time()
    run_buffers(ctx, groups, buf)
    t2 = time.time()
    run_live(ctx, groups, live, live_tags)
    ctx.observations["r6_wall_s"] = {"siblings": round(t1 - t, 1), "buffers": round(t2 - t1, 1), "live": round(time.time() - t2, 1)}


def replay(ctx, case):
    """case: an expected case with the field r6 = what was being driven"""
    r6 = case["r6"]
    by, xs = {}, {}
    for cs in r6.get("xvar", []):
        by[cfg_key(cs["cfg"])] = cs
        xs.setdefault(cfg_key(cs["cfg"], x=0), []).append(cs["cfg"]["x"])
    g = Group(r6["rcs"], r6["idx"], {"by": by, "xs": {k: sorted(set(v)) for k, v in xs.items()}}, gsel=r6.get("gsel"))
    if r6["part"] == "siblings":
        return sib_walk(ctx, g, r6["walk"], tuple(r6["umap"]))
    if r6["part"] == "live":
        return live_walk(ctx, g, r6["ops"], {}, r6["lu"], r6["ou"], {})
    return buf_walk(ctx, g, r6["walk"], r6["units"])
