"""Realisation of MHMagnitude.tla (C02, round 9): one transition x -> y of a Metropolis-type kernel whose log target ratio a,
log proposal ratio b and cached level are the EXACT quantities of the specification, with magnitudes up to ~1e300.

Values of the spec are pairs [h, n] = h * U + n with U = 2**997.  The realisation is exact in double precision:
  * target / likelihood: a two-point table  lp(x) = lev, lp(y) = lev + a  (any function is a legitimate target; elsewhere a
    smooth finite fallback), looked up by closeness to x / y (relative 1e-9);
  * Langevin proposal with scale eps = 1 and a drift TABLE g (the MALA identities hold for every drift):
      b = +m^2/2 : x = 0, g(x) = 0, noise z = m  -> y = m, forward misfit m;  g(y) = -2m -> reverse misfit 0
      b = -m^2/2 : x = 0, g(x) = 2, noise z = 0  -> y = 1, forward misfit 0;  g(y) = -2(m+1) -> reverse misfit m
      b = 0      : x = 0, g(x) = 0, noise z = 1  -> y = 1, g(y) = -4 -> reverse misfit 1 = forward misfit
    m is an integer (or 2**499): every product, square and sum involved is an exact double, so log q(x|y) - log q(y|x) is
    EXACTLY b whichever way the implementation groups the terms;
  * random walk: scale 1, noise 1 -> y = x + 1;  pCN: scale 1/2, prior N(0, 1), noise 2 -> y = 1;  component-wise: d = 2,
    sweep noise (1, 0): component 1 carries the decision of the specification, component 2 proposes no move.
The uniform of the decision: 0 | 1e-300 | exp(r)(1 -/+ 1e-6) | 1/2 | 1 - 1e-6 (classes of the specification).
"""
import math
import numpy as np

from .script_rng import scripted, ScriptError
from .tlc import MachineryError

U = 2.0 ** 997
EXP = {"RW": "MH", "CW": "CWMH", "PCN": "PCN", "MALA": "MALA"}
LEG = {"RW": "MH", "CW": "CWMH", "PCN": "pCN", "MALA": "MALA"}


def val(v):
    return float(v[0]) * U + float(v[1])


def name_of(v):
    """[h, n] -> short stable text for signatures"""
    if v[0]:
        return "%+dU" % v[0]
    return "%+d" % v[1] if v[1] else "0"


def uniform_of(case):
    u = case["u"]
    if u == "zero":
        return 0.0
    if u == "tiny":
        return 1e-300
    if u == "mid":
        return 0.5
    if u == "near1":
        return 1.0 - 1e-6
    if not case["rep"] or case["r"][0] != 0:
        raise MachineryError("uniform class %s emitted for a log-ratio whose exponential is not representable: %r" % (u, case["r"]))
    tau = math.exp(float(case["r"][1]))
    return tau * (1 - 1e-6) if u == "below" else tau * (1 + 1e-6)


def geometry(case):
    """-> x, y, noise vector, scale, g(x), g(y)  (drifts None for the kernels without one)"""
    k = case["cfg"]["k"]
    if k == "RW":
        return np.zeros(1), np.ones(1), np.ones(1), 1.0, None, None
    if k == "PCN":
        return np.zeros(1), np.ones(1), np.array([2.0]), 0.5, None, None
    if k == "CW":
        return np.zeros(2), np.array([1.0, 0.0]), np.array([1.0, 0.0]), 1.0, None, None
    b, m = case["b"], case["m"]
    mm = 2.0 ** 499 if b[0] else float(m)
    if b[0] and abs(b[0]) != 1:
        raise MachineryError("the binding realises the huge Hastings term U = (2^499)^2 / 2 only: %r" % (b,))
    sign = (b[0] > 0) - (b[0] < 0) if b[0] else (b[1] > 0) - (b[1] < 0)
    if not b[0] and 2 * abs(b[1]) != m * m:
        raise MachineryError("Hastings term %r is not half the square of the emitted root %r" % (b, m))
    if sign > 0:
        return np.zeros(1), np.array([mm]), np.array([mm]), 1.0, np.zeros(1), np.array([-2.0 * mm])
    if sign < 0:
        return np.zeros(1), np.ones(1), np.zeros(1), 1.0, np.array([2.0]), np.array([-2.0 * (mm + 1.0)])
    return np.zeros(1), np.ones(1), np.ones(1), 1.0, np.zeros(1), np.array([-4.0])


def _near(p, q):
    return p.shape == q.shape and bool(np.all(np.abs(p - q) <= 1e-9 * np.maximum(1.0, np.abs(q))))


class TwoPoint:
    """log-density / drift given at x and at y; smooth finite fallback elsewhere; evaluation points logged"""

    def __init__(self, x, y, lx, ly, gx, gy):
        self.x, self.y, self.lx, self.ly, self.gx, self.gy = x, y, lx, ly, gx, gy
        self.evals = []
        self.other = 0

    def logpdf(self, p):
        p = np.array(p, dtype=float).reshape(-1)
        self.evals.append(p.copy())
        if _near(p, self.y):
            return self.ly
        if _near(p, self.x):
            return self.lx
        self.other += 1
        return -0.5 * float(p @ p) - 1.0

    def gradient(self, p):
        p = np.array(p, dtype=float).reshape(-1)
        if self.gy is not None and _near(p, self.y):
            return self.gy.copy()
        if self.gx is not None and _near(p, self.x):
            return self.gx.copy()
        return -p


def build(case):
    import cuqi
    x, y, z, scale, gx, gy = geometry(case)
    lx = val(case["lev"])
    ly = lx + val(case["a"])
    T = TwoPoint(x, y, lx, ly, gx, gy)
    d = x.size
    if case["cfg"]["k"] == "PCN":
        lik = cuqi.likelihood.UserDefinedLikelihood(dim=d, logpdf_func=T.logpdf, gradient_func=T.gradient)
        target = cuqi.distribution.Posterior(lik, cuqi.distribution.Gaussian(np.zeros(d), 1.0))
    else:
        target = cuqi.distribution.UserDefinedDistribution(dim=d, logpdf_func=T.logpdf, gradient_func=T.gradient)
    return target, T, (x, y, z, scale, gx, gy, lx, ly)


def _cls(mod, name):
    c = getattr(mod, name, None)
    if c is None:
        raise MachineryError("sampler class %s.%s is missing" % (mod.__name__, name))
    return c


def _flag(acc, name):
    try:
        a = np.array(acc, dtype=float).reshape(-1)
    except (TypeError, ValueError):
        raise MachineryError("%s returned an acceptance flag that is not numeric: %r" % (name, acc))
    if a.size == 0 or np.any(np.isnan(a)):
        raise MachineryError("%s returned no acceptance flag (%r)" % (name, acc))
    return a


def transition(case):
    """run the one transition on the real sampler -> dict(acc, x, lp, grad, evaluated, left)"""
    import cuqi
    from .zoo import quiet
    cfg = case["cfg"]
    k, iface = cfg["k"], cfg["iface"]
    target, T, (x, y, z, scale, gx, gy, lx, ly) = build(case)
    u = uniform_of(case)
    us = [u] + ([0.5] if k == "CW" else [])
    sc = np.full(x.size, scale) if k == "CW" else scale
    out = {}
    if iface == "exp":
        cls = _cls(cuqi.experimental.mcmc, EXP[k])
        with quiet():
            s = cls(target, scale=sc, initial_point=x.copy())
            s.initialize()
        n0 = len(T.evals)
        with scripted({"normal": [z.copy()], "uniform": list(us)}) as st:
            acc = s.step()
        out["x"] = np.array(s.current_point, dtype=float).reshape(-1)
        name = "current_likelihood_logd" if k == "PCN" else "current_target_logd"
        if not hasattr(s, name):
            raise MachineryError("%s exposes no %s" % (cls.__name__, name))
        out["lp"] = float(np.asarray(getattr(s, name), dtype=float).reshape(-1)[0])
        if k == "MALA":
            out["grad"] = np.array(s.current_target_grad, dtype=float).reshape(-1)
    else:
        cls = _cls(cuqi.sampler, LEG[k])
        with quiet():
            s = cls(target, scale=sc, x0=x.copy())
        if not hasattr(s, "single_update"):
            raise MachineryError("legacy %s has no single_update" % cls.__name__)
        n0 = len(T.evals)
        with scripted({"normal": [z.copy()], "uniform": list(us)}) as st:
            if k == "MALA":
                xn, lpn, gn, acc = s.single_update(x.copy(), lx, gx.copy())
                out["grad"] = np.array(gn, dtype=float).reshape(-1)
            else:
                xn, lpn, acc = s.single_update(x.copy(), lx)
        out["x"] = np.array(xn, dtype=float).reshape(-1)
        out["lp"] = float(np.asarray(lpn, dtype=float).reshape(-1)[0])
    out["acc"] = _flag(acc, cls.__name__)
    out["evaluated"] = T.evals[n0:]
    out["left"] = st.remaining()
    out["geom"] = (x, y, gx, gy, lx, ly)
    out["u"] = u
    return out


def base_sig(case):
    c = case["cfg"]
    return "mag/%s/%s/lev=%s/a=%s/b=%s/u=%s" % (c["k"], c["iface"], "low" if c["lev"] else "0", name_of(case["a"]),
                                                 name_of(case["b"]), case["u"])


def run_case(ctx, case, stats=None):
    """one emitted case of MHMagnitude on the real sampler; mismatches mag/<K>/<iface>/lev=/a=/b=/u=/<clause>.
    -> True when the transition conformed (or was not asserted)"""
    base = base_sig(case)
    stats = stats if stats is not None else {}
    try:
        got = transition(case)
    except ScriptError as ex:
        raise MachineryError("the kernel %s/%s asked for random draws the binding does not script: %s" % (
            case["cfg"]["k"], case["cfg"]["iface"], ex))
    except MachineryError:
        raise
    except Exception as ex:
        ctx.mismatch(base + "/error", case, "the transition raised %s: %s" % (type(ex).__name__, str(ex)[:200]))
        return False
    x, y, gx, gy, lx, ly = got["geom"]
    if not any(_near(p, y) for p in got["evaluated"]):
        ctx.mismatch(base + "/proposal", case, "the point the kernel evaluated is not the proposal of the specification's noise",
                     expected=y, observed=[list(p) for p in got["evaluated"]])
        return False
    a0 = float(got["acc"][0])
    what = ("log target ratio %s, log proposal ratio %s, level %s: Metropolis-Hastings log-ratio r = %s, uniform %r (%s)" % (
        name_of(case["a"]), name_of(case["b"]), name_of(case["lev"]), name_of(case["r"]), got["u"], case["u"]))
    if case["acc"] < 0:
        stats["unasserted_zero_uniform_accepted" if a0 else "unasserted_zero_uniform_rejected"] = stats.get(
            "unasserted_zero_uniform_accepted" if a0 else "unasserted_zero_uniform_rejected", 0) + 1
        exp_acc = int(a0 != 0)
    else:
        exp_acc = case["acc"]
        if int(a0 != 0) != exp_acc:
            ctx.mismatch(base + "/decision", case, "%s must be %s" % (what, "accepted" if exp_acc else "rejected"),
                         expected=exp_acc, observed=got["acc"])
            return False
    ex_x, ex_lp, ex_g = (y, ly, gy) if exp_acc else (x, lx, gx)
    clause = "accept_state" if exp_acc else "reject_state"
    if not _near(got["x"], ex_x):
        ctx.mismatch("%s/%s/point" % (base, clause), case, "%s: next point" % what, expected=ex_x, observed=got["x"])
        return False
    if not (got["lp"] == ex_lp or abs(got["lp"] - ex_lp) <= 1e-9 * max(1.0, abs(ex_lp))):
        ctx.mismatch("%s/%s/cache_lp" % (base, clause), case, "%s: cached log-density" % what, expected=ex_lp, observed=got["lp"])
        return False
    if ex_g is not None and "grad" in got and not _near(got["grad"], ex_g):
        ctx.mismatch("%s/%s/cache_grad" % (base, clause), case, "%s: cached drift" % what, expected=ex_g, observed=got["grad"])
        return False
    if got["left"]:
        stats["scripted_draws_unused"] = stats.get("scripted_draws_unused", 0) + 1
    return True
