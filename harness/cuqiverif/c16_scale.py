"""C16, replay of specs/SolverScale.tla: the SCALE dimension (the same problem in other physical units: data of size 2^-40 .. 2^40)
for CGLS / PCGLS / FISTA / LM / the projections, and both sides of the public threshold cuqi.config.MAX_DIM_INV for PCGLS
(explicit inverse of the preconditioner below, solves with P and P^T above) with symmetric and non-symmetric preconditioners.

Expected values: the exact rational solution of the problem as given (TLC: CgSolution, KKT certificate, LmSolution, ProxImage)
times the power of two the spec's ScalingLaw / PostScalingLaw / BlockLaw state.  Powers of two keep every input exact in binary
floating point, so the comparison tolerances are those of the unscaled kinds (cg 1e-8, fista 10 abstol/(t mu), lm gradtol |g0| / lambda_min)
expressed in the units of the scaled problem.
"""
import contextlib
import warnings
from fractions import Fraction

import numpy as np

CG_TOL = 1e-10        # relative normal-residual tolerance handed to the solver (as kind cg of Solvers.tla)
CG_CMP = 1e-8         # comparison tolerance, relative to the size of the solution in the units of the problem


def _q(q):
    return float(Fraction(q[0], q[1]))


def _qv(v):
    return np.array([_q(x) for x in v], dtype=float)


def _qm(M):
    return np.array([[_q(x) for x in row] for row in M], dtype=float)


@contextlib.contextmanager
def max_dim_inv(value):
    """Temporarily set the public cuqi.config.MAX_DIM_INV (None = leave the default)."""
    import cuqi
    old = cuqi.config.MAX_DIM_INV
    try:
        if value is not None:
            cuqi.config.MAX_DIM_INV = value
        yield
    finally:
        cuqi.config.MAX_DIM_INV = old


def _budget(ctx, prefix, limit=25):
    return sum(1 for v in ctx.violations if v["signature"].startswith(prefix)) >= limit


def _group(cases):
    """{(solver, name, pre, thr, rep): (case, set of scale pairs)}: the checked pairs of the spec + the emitted (large) ones"""
    out = {}
    for c in cases:
        key = (c["solver"], c["name"], c["pre"], c["thr"], c["rep"])
        g = out.setdefault(key, [c, set()])
        g[1].add(tuple(c["sc"]))
        for p in c["scales"]:
            g[1].add(tuple(p))
    return out


def check_cgscale(ctx, S, cases):
    import cuqi
    import scipy.sparse as spa
    from cuqiverif.core import MachineryError
    groups = _group(cases)
    seen = {"above/sym": 0, "above/nonsym": 0, "below/sym": 0, "below/nonsym": 0, "tiny": 0, "k_differs_from_unscaled": 0, "returned": 0}
    default = cuqi.config.MAX_DIM_INV
    for key in sorted(groups):
        c, pairs = groups[key]
        solver, name, pre, thr, rep = key
        m, n = c["m"], c["n"]
        A0, b0, x00, sh0, P0 = _qm(c["A"]), _qv(c["b"]), _qv(c["x0"]), _q(c["shift"]), _qm(c["P"])
        xsol = _qv(c["xsol"])
        dim = rep * n
        if thr == "default" and default != 2000:
            raise MachineryError("cuqi.config.MAX_DIM_INV is %r, the spec assumes the documented default 2000" % (default,))
        thr_value = None if thr == "default" else (dim if thr == "n" else dim + 1)
        above = bool(c["above"])
        if above != (dim >= (default if thr_value is None else thr_value)):
            raise MachineryError("side of the threshold of %r is not the one the spec states" % (key,))
        pairs = sorted(pairs, key=lambda p: (abs(p[0]) + abs(p[1]), p))
        if rep > 1:                                   # 2000 unknowns: the unscaled problem and two scaled ones
            pairs = [p for p in pairs if p in (((0, -40),) if rep == 999 and ctx.tier != "thorough" else ((0, 0), (0, -40), (40, 20)))]
        side = "%s/%s" % ("above" if above else "below", "sym" if c["psym"] else "nonsym")
        kbase = {}
        for ea, eb in pairs:
            cx = 2.0 ** (eb - ea)
            A, b, x0, shift = A0 * 2.0 ** ea, b0 * 2.0 ** eb, x00 * cx, sh0 * 4.0 ** ea
            xexp = np.tile(xsol * cx, rep)
            if rep > 1:
                Abig = spa.kron(spa.identity(rep), spa.csr_matrix(A)).tocsr()
                bb, xx0 = np.tile(b, rep), np.tile(x0, rep)
                Pbig = spa.kron(spa.identity(rep), spa.csc_matrix(P0)).tocsc()
            else:
                Abig, bb, xx0, Pbig = A, b, x0, spa.csc_matrix(P0)
            got = {}
            for form in ("matrix", "function"):
                sig = "cgscale/%s/%s/pre=%s/thr=%s/rep=%d/ea=%d/eb=%d/shift=%g/form=%s" % (solver, name, pre, thr, rep, ea, eb, sh0, form)
                if _budget(ctx, "cgscale/%s" % solver):
                    return seen
                ctx.case(("cgscale", key, ea, eb, form), facet="cgscale/%s/%s" % (solver, side if solver == "pcgls" else "scale"))
                op = Abig if form == "matrix" else (lambda v, flag, M=Abig: M @ v if flag == 1 else M.T @ v)
                maxit = n + 6
                try:
                    with warnings.catch_warnings(), np.errstate(all="ignore"), max_dim_inv(thr_value):
                        warnings.simplefilter("ignore")
                        if solver == "cgls":
                            x, k = S.CGLS(op, bb.copy(), xx0.copy(), maxit, CG_TOL, shift).solve()
                        else:
                            x, k = S.PCGLS(op, bb.copy(), xx0.copy(), Pbig, maxit, CG_TOL, shift).solve()
                except Exception as e:
                    ctx.mismatch(sig + "/raises", dict(c, pair=[ea, eb]), "%s raised %r on a well-posed problem (float64 arrays, sparse preconditioner)" % (solver, e))
                    continue
                x = np.asarray(x, dtype=float).ravel()
                got[form] = x
                seen["returned"] += 1
                if solver == "pcgls":
                    seen[side] += 1
                if abs(eb) + abs(ea) >= 40:
                    seen["tiny"] += 1
                scale = cx * max(1.0, float(np.max(np.abs(xsol))))
                if x.shape != xexp.shape or not np.all(np.isfinite(x)) or float(np.max(np.abs(x - xexp))) > CG_CMP * scale:
                    ctx.mismatch(sig + "/solution", dict(c, pair=[ea, eb]),
                                 "%s does not return the solution of the (shifted) normal equations of the problem in units A x 2^%d, b x 2^%d "
                                 "(= 2^%d x the solution of the problem as given, spec: ScalingLaw / SolutionScales%s); %s" %
                                 (solver, ea, eb, eb - ea, " / BlockLaw" if rep > 1 else "",
                                  "preconditioner applied by %s" % ("solves with P and P^T (len(x0) >= MAX_DIM_INV)" if above else "its explicit inverse")
                                  if solver == "pcgls" else "no preconditioner"),
                                 expected=xexp[:2 * n], observed=x[:2 * n], detail={"iterations": int(k), "tol": CG_TOL, "maxit": maxit})
                elif int(k) < 1:
                    ctx.mismatch(sig + "/itercount", dict(c, pair=[ea, eb]), "the start does not solve the normal equations (spec: NonTrivial) but "
                                 "the solver reports %d iterations" % int(k), expected=">= 1", observed=int(k))
                if (ea, eb) == (0, 0):
                    kbase[form] = int(k)
                elif form in kbase and kbase[form] != int(k):
                    seen["k_differs_from_unscaled"] += 1          # observation: exact power-of-two covariance is not required of an implementation
            if len(got) == 2 and got["matrix"].shape == got["function"].shape:
                sc = cx * max(1.0, float(np.max(np.abs(xsol))))
                if float(np.max(np.abs(got["matrix"] - got["function"]))) > 1e-12 * sc * 10:
                    ctx.mismatch("cgscale/%s/%s/pre=%s/thr=%s/rep=%d/ea=%d/eb=%d/forms" % (solver, name, pre, thr, rep, ea, eb), dict(c, pair=[ea, eb]),
                                 "matrix form and function form of the same problem return different points", expected=got["matrix"][:4], observed=got["function"][:4])
    # OBSERVATION (not asserted; outside the instance, spec: GuardSilent): a well-conditioned problem whose solution has |x| >= 1 / tol.
    # CGLS / PCGLS carry a second, absolute stopping clause `normx*tol >= 1` (from the SOL Matlab code) and give up there.
    try:
        A, b = np.array([[1.0, 1.0], [0.0, 1.0]]), np.array([1.0, 2.0]) * 2.0 ** 40
        with warnings.catch_warnings(), np.errstate(all="ignore"):
            warnings.simplefilter("ignore")
            x, k = S.CGLS(A, b, np.zeros(2), 8, CG_TOL, 0).solve()
        xe = np.linalg.solve(A, b)
        ctx.observe("cgls_solution_larger_than_1_over_tol", {"returned_the_solution": bool(np.max(np.abs(np.asarray(x, dtype=float) - xe)) <= 1e-8 * np.max(np.abs(xe))),
                                                            "iterations": int(k), "tol": CG_TOL, "size_of_solution": float(np.max(np.abs(xe)))})
    except Exception as e:
        ctx.observe("cgls_solution_larger_than_1_over_tol", {"raised": repr(e)})
    return seen


def check_postscale(ctx, S, cases):
    import scipy.sparse as spa
    seen = {"fista": 0, "prox": 0, "lm": 0}
    groups = {}
    for c in cases:
        key = (c["solver"], c["h"], str(c["xs"]), str(c["g"]))
        g = groups.setdefault(key, [c, set()])
        g[1].add(c["e"])
        g[1].update(c["exps"])
    for key in sorted(groups):
        c, exps = groups[key]
        A = _qm(c["A"])
        for e in sorted(exps):
            cc = 2.0 ** e
            if c["solver"] == "prox":
                x, img = _qv(c["xs"]) * cc, _qv(c["image"]) * cc
                th, lo, up = _q(c["th"]) * cc, _q(c["lo"]) * cc, _q(c["up"]) * cc
                sig = "postscale/prox/%s/x=%s/e=%d" % (c["h"], ",".join("%g" % v for v in _qv(c["xs"])), e)
                ctx.case(("postscale", key, e), facet="postscale/prox")
                try:
                    if c["h"] == "l1":
                        got = S.ProximalL1(x.copy(), th)
                    elif c["h"] == "nonneg":
                        got = S.ProjectNonnegative(x.copy())
                    else:
                        got = S.ProjectBox(x.copy(), lo * np.ones(2), up * np.ones(2))
                except Exception as ex:
                    ctx.mismatch(sig + "/raises", dict(c, e=e), "projection / proximal map raised %r" % (ex,))
                    continue
                seen["prox"] += 1
                if not np.array_equal(np.asarray(got, dtype=float), img):
                    ctx.mismatch(sig, dict(c, e=e), "projection / soft thresholding of the point in units 2^%d is not 2^%d x the image of the point "
                                 "as given (spec: PostScalingLaw)" % (e, e), expected=img, observed=got)
            elif c["solver"] == "fista":
                b, xs, x0 = _qv(c["b"]) * cc, _qv(c["xs"]) * cc, _qv(c["x0"]) * cc
                th, lo, up = _q(c["th"]) * cc, _q(c["lo"]) * cc, _q(c["up"]) * cc
                if c["h"] == "l1":
                    prox = lambda z, g, th=th: S.ProximalL1(z, g * th)
                elif c["h"] == "nonneg":
                    prox = lambda z, g: S.ProjectNonnegative(z)
                else:
                    prox = lambda z, g, lo=lo, up=up: S.ProjectBox(z, lo * np.ones(2), up * np.ones(2))
                t = 0.25
                mu = float(np.linalg.eigvalsh(A.T @ A)[0])
                for adaptive, form in ((False, "matrix"), (False, "function"), (True, "matrix")):
                    if _budget(ctx, "postscale/fista"):
                        break
                    # the stopping rule |x_new - x_old| <= abstol is stated by the user in the units of x
                    abstol = (1e-8 if adaptive else 1e-10) * cc
                    sig = "postscale/fista/%s/xs=%s/e=%d/adaptive=%d/form=%s" % (c["h"], ",".join("%g" % v for v in _qv(c["xs"])), e, adaptive, form)
                    ctx.case(("postscale", key, e, adaptive, form), facet="postscale/fista")
                    op = A if form == "matrix" else (lambda v, flag: A @ v if flag == 1 else A.T @ v)
                    try:
                        with warnings.catch_warnings(), np.errstate(all="ignore"):
                            warnings.simplefilter("ignore")
                            x, k = S.FISTA(op, b.copy(), x0.copy(), prox, maxit=60000 if adaptive else 20000, stepsize=t, abstol=abstol,
                                           adaptive=adaptive).solve()
                    except Exception as ex:
                        ctx.mismatch(sig + "/raises", dict(c, e=e), "FISTA raised %r" % (ex,))
                        continue
                    seen["fista"] += 1
                    tol = 10 * abstol / (t * mu) + 1e-12 * cc          # as kind kkt, in the units of x
                    err = float(np.linalg.norm(np.asarray(x, dtype=float) - xs))
                    if not np.isfinite(err) or err > tol:
                        ctx.mismatch(sig, dict(c, e=e), "FISTA / ISTA on the problem in units 2^%d (b, x0, bounds / strength, abstol x 2^%d) does not "
                                     "return 2^%d x the minimiser of the problem as given (spec: PostScalingLaw)" % (e, e, e), expected=xs, observed=x,
                                     detail={"iterations": int(k), "tol": tol, "abstol": abstol})
            else:   # lm: residual c (B x - d): the stationary point does not move
                B, d, x0, xlm = A, _qv(c["xs"]), _qv(c["x0"]), _qv(c["xlm"])
                gradtol = 1e-8
                g0 = float(np.linalg.norm(B.T @ (B @ x0 - d)))
                lam = float(np.linalg.eigvalsh(B.T @ B)[0])
                for sparse in (False, True):
                    sig = "postscale/lm/e=%d/sparse=%d" % (e, sparse)
                    ctx.case(("postscale", key, e, sparse), facet="postscale/lm")
                    res = lambda x: cc * (B @ x - d)
                    jac = (lambda x: spa.csr_matrix(cc * B)) if sparse else (lambda x: cc * B)
                    try:
                        with warnings.catch_warnings(), np.errstate(all="ignore"):
                            warnings.simplefilter("ignore")
                            x, info = S.LM(res, x0.copy(), jac, maxit=2000, tol=1e-6, gradtol=gradtol, sparse=sparse).solve()
                    except Exception as ex:
                        ctx.mismatch(sig + "/raises", dict(c, e=e), "LM raised %r" % (ex,))
                        continue
                    seen["lm"] += 1
                    x = np.asarray(x, dtype=float)
                    # loop ends when |g| <= gradtol |g0| (relative); g = c^2 B^T(Bx - d), so |x - x*| <= gradtol |g0| / lambda_min(B^T B) in every unit
                    tol = 1e-9 + 10 * gradtol * g0 / lam
                    if not np.all(np.isfinite(x)) or float(np.linalg.norm(x - xlm)) > tol:
                        ctx.mismatch(sig, dict(c, e=e), "LM on the residual in units 2^%d does not return the stationary point of the sum of squares "
                                     "(it does not depend on the units of the residual; spec: PostScalingLaw)" % e, expected=xlm, observed=x,
                                     detail={"tol": tol, "nfev": info.get("nfev") if isinstance(info, dict) else None})
    return seen


def run_scale(ctx, S, res_cases):
    """Replay of every case of SolverScale.tla; returns the counters (vacuity guards are applied by the caller)."""
    cg = [c for c in res_cases if c["kind"] == "cgscale"]
    post = [c for c in res_cases if c["kind"] == "postscale"]
    seen = check_cgscale(ctx, S, cg)
    seen2 = check_postscale(ctx, S, post)
    ctx.observe("scale_facet", {"cg": seen, "post": seen2, "cg_cases": len(cg), "post_cases": len(post)})
    return seen, seen2
