"""C07, part `SEQE`: the user edits the matrix of a matrix-backed LinearModel IN PLACE (specs/ModelGeomEdit.tla, EXTENDS ModelGeom).

The specification is a state machine over one model object (E1) / a model and an object derived from it (E2: model(distribution),
copy.copy, copy.deepcopy) with the SEQ actions of ModelGeom (get_matrix, T = the transposed model the user now holds, assignment
of a geometry) and the action EditMatrixInPlace through the user's own reference (route U) or through what get_matrix() returned
(route G).  It makes no assumption whether a model aliases or copies the user's array; its invariants say that the FOUR READ-OUTS
of every object - forward (columns), adjoint (rows), get_matrix(), the transposed model built now - reflect the same content of
the matrix at the same time.  This module replays every emitted behaviour into real objects:

* the matrix is a dense C / F ordered ndarray, a scipy CSR / CSC / COO matrix (format of the start configuration),
* after the construction and after EVERY action, for every live object (model, derived object, held transposed models):
  which content the object reflects is READ OFF its forward map (one of the sub-sequences of the edits made so far - a model
  may follow an edit or not; observation only), then adjoint, the transposed model built now (forward, adjoint, get_matrix,
  its matrix against its own forward) and - at get_matrix steps and at the end of the behaviour - get_matrix() must be the
  specification's exact values (table `etab` of TLC) FOR THAT SAME content and the object's current geometries.
"""
import itertools
import warnings
import zlib

import numpy as np

SPEC = "ModelGeomEdit"
EXTRA = ("ModelGeom.tla",)
DEVIATIONS = [("AdjointKeepsTransposedCopy", "EAdjointFollows"), ("AssembledMatrixOutlivesEdit", "EMatrixFollows"),
              ("DeepCopyKeepsCallablesOfOriginal", "ETransposeFollows")]
WHO = {1: "orig", 2: "copy"}
FMTS = ("denseC", "denseF", "csr", "csc", "coo")


def beh_key(b):
    def one(st):
        if st["a"] == "C":
            return "C" + b["ck"]
        return "%s%s%s" % (st["a"], st["o"] if st["o"] else "", st["g"] if st["g"] else "")
    return "%s/%s/f%d/%d.%d/" % (b["ep"], b["fmt"], b["fi"], b["d0"], b["r0"]) + ".".join(one(st) for st in b["steps"])


def _h(key, salt):
    return zlib.crc32(("%s#%s" % (key, salt)).encode())


# ----------------------------------------------------------------------------------------------------------------------
# the user's side: building the array, editing it in place
# ----------------------------------------------------------------------------------------------------------------------
def make_matrix(fmt, F):
    import scipy.sparse as sp
    F = np.array(F, dtype=float)
    if fmt == "denseC":
        return np.ascontiguousarray(F)
    if fmt == "denseF":
        return np.asfortranarray(F)
    if fmt == "csr":
        return sp.csr_matrix(F)
    if fmt == "csc":
        return sp.csc_matrix(F)
    if fmt == "coo":
        return sp.coo_matrix(F)
    from cuqiverif.tlc import MachineryError
    raise MachineryError("unknown storage format %r" % fmt)


def _stored_index(buf, i, j):
    """index into buf.data of the stored entry (i, j) of a scipy sparse matrix (CSR / CSC / COO), or None."""
    f = getattr(buf, "format", None)
    if f == "csr":
        for k in range(buf.indptr[i], buf.indptr[i + 1]):
            if buf.indices[k] == j:
                return k
    elif f == "csc":
        for k in range(buf.indptr[j], buf.indptr[j + 1]):
            if buf.indices[k] == i:
                return k
    elif f == "coo":
        hit = np.nonzero((buf.row == i) & (buf.col == j))[0]
        if len(hit) == 1:
            return int(hit[0])
    return None


def edit_in_place(buf, kind, pos, variant):
    """Apply the VALUE edit `kind` of the specification to the array object `buf` in place; returns a description of the
    statement used, or None if this object cannot be edited that way (observation: the edit is not made)."""
    import scipy.sparse as sp
    i, j = pos[0] - 1, pos[1] - 1
    if isinstance(buf, np.ndarray) and buf.ndim == 2:
        if not buf.flags.writeable:
            return None
        if kind == "scale":
            v = variant % 3
            if v == 0:
                buf *= 2
                return "M *= 2"
            if v == 1:
                np.multiply(buf, 2, out=buf)
                return "np.multiply(M, 2, out=M)"
            buf[...] = 2 * buf
            return "M[...] = 2 * M"
        if kind == "entry":
            v = variant % 3
            if v == 0:
                buf[i, j] = buf[i, j] + 5
                return "M[i, j] = v"
            if v == 1:
                buf[i, j] += 5
                return "M[i, j] += 5"
            buf.T[j, i] += 5
            return "M.T[j, i] += 5"
        if kind == "col":
            if variant % 2:
                buf[:, 0] += 1
                return "M[:, 0] += 1"
            buf[:, 0] = buf[:, 0] + 1
            return "M[:, 0] = M[:, 0] + 1"
        return None
    if sp.issparse(buf) and getattr(buf, "format", None) in ("csr", "csc", "coo") and isinstance(getattr(buf, "data", None), np.ndarray):
        if kind == "scale":
            if variant % 2:
                buf *= 2            # scipy: in place for scalars (data *= 2)
                return "M *= 2"
            buf.data *= 2
            return "M.data *= 2"
        if kind == "entry":
            k = _stored_index(buf, i, j)
            if k is None:
                return None         # the entry is not stored here: editing it would change the sparsity pattern
            if variant % 2 and buf.format in ("csr", "csc"):
                buf[i, j] = buf[i, j] + 5
                return "M[i, j] = v (stored entry)"
            buf.data[k] = buf.data[k] + 5
            return "M.data[k] = v"
        return None
    return None


# ----------------------------------------------------------------------------------------------------------------------
# the specification's numbers
# ----------------------------------------------------------------------------------------------------------------------
class Table:
    """etab / egeo cases of TLC: exact values per (core operator, content, pair of geometries)."""

    def __init__(self, init, geos, tabs):
        self.pool = {"D": init["D"], "R": init["R"]}
        self.pos = tuple(init["pos"])
        self.geos = {(g["side"], g["i"]): g for g in geos}
        self.tabs = {(t["fi"], tuple(t["ks"]), t["d"], t["r"]): t for t in tabs}
        self._exp = {}
        self.seen = set()           # prefixes of behaviours whose comparisons have been made in this run

    def exp(self, fi, ks, d, r):
        from cuqiverif.modelgeom_real import rvec, rmat, ivec, imat
        from cuqiverif.tlc import MachineryError
        k = (fi, tuple(ks), d, r)
        if k not in self._exp:
            t = self.tabs.get(k)
            if t is None:
                raise MachineryError("ModelGeomEdit emitted no table entry for %r" % (k,))
            M = rmat(t["matrix"])
            self._exp[k] = {"x": ivec(t["x"]), "y": ivec(t["y"]), "fwd_x": rvec(t["fwd_x"]), "adj_y": rvec(t["adj_y"]),
                            "adj_y_coded": rvec(t["adj_y_coded"]), "matrix": M, "F": imat(t["F"]),
                            "coded_adj_matrix": rmat(t["coded"]), "t_fwd_coded": None, "t_adj_coded": None,
                            "matrix_backed": True, "ks": tuple(ks)}
        return self._exp[k]

    def subset(self, beh):
        """the entries the replay of one behaviour may look at (stored with the case for --replay)"""
        pairs = {(beh["d0"], beh["r0"])}
        for st in beh["steps"]:
            for p in st["pairs"]:
                pairs.add(tuple(p))
        kinds = [st["a"][2:] for st in beh["steps"] if st["a"][0] == "E"]
        cont = {tuple(kinds[i] for i in idx) for n in range(len(kinds) + 1) for idx in itertools.combinations(range(len(kinds)), n)}
        tabs = [self.tabs[(beh["fi"], ks, d, r)] for ks in sorted(cont) for (d, r) in sorted(pairs)]
        geos = [g for g in self.geos.values()]
        return {"init": {"D": self.pool["D"], "R": self.pool["R"], "pos": list(self.pos)}, "geos": geos, "tabs": tabs}


def _world_class():
    from cuqiverif.props.c07 import _SeqWorld

    class EditWorld(_SeqWorld):
        """Real geometry objects of one behaviour + the expectations for (content, pair)."""

        def __init__(self, table, fmt, fi):
            super().__init__(table.pool, {}, fmt, fi, None)
            self.table = table
            self.ks = ()            # content of the object the comparisons look at (set by the replay)

        def geom(self, side, i):
            if (side, i) not in self.geoms:
                from cuqiverif.modelgeom_real import build_geometry, rmat
                from cuqiverif.tlc import MachineryError
                g = self.pool[side][i - 1]
                c = self.table.geos.get((side, i))
                if c is None:
                    raise MachineryError("ModelGeomEdit emitted no geometry matrices for %s%d" % (side, i))
                rg = build_geometry(g, rmat(c["G"]), rmat(c["Gp"]))
                if isinstance(rg.obj, int):
                    import cuqi
                    rg.obj = (cuqi.model.Model(lambda x: x, rg.obj, rg.obj)).domain_geometry
                self.geoms[(side, i)] = rg
            return self.geoms[(side, i)]

        def exp(self, d, r, ks=None):
            return self.table.exp(self.fi, self.ks if ks is None else ks, d, r)

    return EditWorld


def _checks_class():
    from cuqiverif.props.c07 import _SeqChecks
    from cuqiverif.modelgeom_real import close

    class EditChecks(_SeqChecks):
        """The comparisons of part SEQ / SEQ2, with the attribution of a wrong value to ANOTHER content of the matrix."""

        cands = ()          # the contents an object may legitimately reflect now (sub-sequences of the edits made so far)
        asbuilt = None      # what the deviations describing the tree as built predict for the object looked at: {f, a, g, t}
        deep = False        # the object looked at is (or was built from) a deep copy

        def fwd_adj(self, obj, name, e, d, r, transposed=False, Fw=None):
            """as _SeqChecks.fwd_adj; Fw: the columns of the map that must be H+ F G, when they have been computed already
            (they decided WHICH content `e` belongs to, so they are that matrix).  Returns the columns of the other map."""
            if Fw is None:
                return super().fwd_adj(obj, name, e, d, r, transposed=transposed)
            from cuqiverif.props.c07 import _try, _columns
            M = e["matrix"]
            f_name, a_name = ("adjoint", "forward") if transposed else ("forward", "adjoint")
            fx, err = _try(lambda: getattr(obj, f_name)(e["x"]))
            if err is not None or not close(fx, e["fwd_x"]):
                self.bad(name + f_name, d, r, "raised" if err is not None else "other",
                         "%s%s(x) is not H+ F G x although %s(e_i) are its columns" % (name, f_name, f_name), e["fwd_x"],
                         repr(err) if err is not None else fx)
            ay, err = _try(lambda: getattr(obj, a_name)(e["y"]))
            Ad = _columns(getattr(obj, a_name), M.shape[0]) if err is None else err
            if err is not None or isinstance(Ad, Exception):
                self.bad(name + a_name, d, r, "raised", "%s%s raised" % (name, a_name), None, repr(err if err is not None else Ad))
                return None
            if not (close(ay, e["adj_y"]) and close(Ad, M.T)):
                coded = close(ay, e["adj_y_coded"]) and close(Ad, e["coded_adj_matrix"])
                self.bad(name + a_name, d, r, "via_fun2par" if coded else "other",
                         "%s%s is not the transpose of H+ F G for the current geometries" % (name, a_name)
                         + (" (it is the composition fun2par . F* . par2fun)" if coded else ""), M.T, Ad)
            return Ad

        def bad(self, obs, d, r, cls, what, expected, observed):
            if "tab" not in self.case:          # the stored case is self-contained (--replay): the table entries it needs
                self.case["tab"] = self.W.table.subset(self.case["beh"])
            if cls == "other" and isinstance(observed, np.ndarray):
                W = self.W
                for ks in self.cands:
                    if ks == W.ks:
                        continue
                    e = W.exp(d, r, ks)
                    if any(close(observed, v) for v in (e["matrix"], e["matrix"].T, e["coded_adj_matrix"], e["coded_adj_matrix"].T)):
                        cls = "other_version"
                        what += (" - it is the value for the matrix after the in-place edits %r while forward shows the matrix after %r"
                                 % (list(ks), list(W.ks)))
                        ab = self.asbuilt
                        if ab is not None and tuple(ab["f"]) == W.ks:
                            if self.deep and ks in (tuple(ab["g"]), tuple(ab["t"])):
                                cls = "deepcopy_storage_of_its_own"
                                what += " (deep copy: forward / adjoint still read the ORIGINAL's matrix, get_matrix / T its own copy)"
                            elif obs == "get_matrix" and not self.deep and ks == tuple(ab["g"]):
                                cls = "assembled_before_edit"
                                what += " (the matrix assembled by an earlier get_matrix() for non-identity geometries is kept)"
                        break
            super().bad(obs, d, r, cls, what, expected, observed)

    return EditChecks


# ----------------------------------------------------------------------------------------------------------------------
# replay of one behaviour
# ----------------------------------------------------------------------------------------------------------------------
def check_behaviour(ctx, case, table=None):
    """case: kind=seqe, beh (ep, fmt, fi, d0, r0, ck, steps, rd = as-built prediction of the read-outs per step and object),
    tab (init / geos / tabs: the table entries the behaviour needs; used when `table` is not given: --replay)"""
    import copy as _copy
    import cuqi
    from cuqiverif.modelgeom_real import close
    from cuqiverif.tlc import MachineryError
    from cuqiverif.props.c07 import _try, _columns
    beh = case["beh"]
    if table is None:
        table = Table(case["tab"]["init"], case["tab"]["geos"], case["tab"]["tabs"])
    fmt, fi, key = beh["fmt"], beh["fi"], beh_key(beh)
    W = _world_class()(table, fmt, fi)
    K = _checks_class()(ctx, case, W, fmt, prefix="seqe")
    ctx.case("seqe/" + key, facet="seqe")
    obs = ctx.observations.setdefault("seqe_edits_followed_by_the_model", {})

    with warnings.catch_warnings():
        warnings.simplefilter("ignore")
        M0 = make_matrix(fmt, W.exp(beh["d0"], beh["r0"], ())["F"])
        try:
            objs = {1: cuqi.model.LinearModel(M0, range_geometry=W.geom("R", beh["r0"]).obj, domain_geometry=W.geom("D", beh["d0"]).obj)}
        except Exception as ex:  # noqa: BLE001
            K.who = "orig"
            K.bad("construct", beh["d0"], beh["r0"], "raised", "LinearModel(<%s matrix>) raised" % fmt, None, repr(ex))
            return
    held = {}                                    # transposed models the user holds, per object
    pairs = {1: (beh["d0"], beh["r0"])}
    applied = []                                 # kinds of the edits made so far, in order
    deep = set()                                 # objects that are deep copies

    def cands():
        return sorted({tuple(applied[i] for i in idx) for n in range(len(applied) + 1)
                       for idx in itertools.combinations(range(len(applied)), n)}, key=lambda t: (len(t), t))

    def content_of(apply, d, r):
        """which content of the matrix the map x -> H+ F G x of an object shows (read off its columns), or None"""
        pd = W.exp(d, r, ())["matrix"].shape[1]
        Fw = _columns(apply, pd)
        if isinstance(Fw, Exception):
            return None, Fw
        hits = [ks for ks in cands() if close(Fw, W.exp(d, r, ks)["matrix"])]
        if len(hits) > 1:
            raise MachineryError("the contents %r of the matrix are not told apart by the forward map for the pair (%d, %d)" % (hits, d, r))
        return (hits[0] if hits else None), Fw

    def read_outs(o, with_matrix, ab, last=False):
        """all comparisons on object o (and on the transposed model the user holds of it; ITS get_matrix() is asked for at the
        end of the behaviour only - the specification has no such action in between)"""
        d, r = pairs[o]
        K.others = ()
        K.cands = cands()
        K.deep = o in deep
        for who, obj, transposed, pre in ((WHO[o], objs[o], False, ab and ab["m"]), (WHO[o] + ".held_T", held.get(o), True, ab and ab["t"])):
            if obj is None:
                continue
            K.who, K.asbuilt = who, pre
            f_name, a_name = ("adjoint", "forward") if transposed else ("forward", "adjoint")
            own, built = ("T_", "TT_") if transposed else ("", "T_")
            # which content of the matrix the object shows: read off the map that must be H+ F G
            ks, Fw = content_of(getattr(obj, f_name), d, r)
            if ks is None:
                W.ks = ()
                K.bad(own + f_name, d, r, "raised" if isinstance(Fw, Exception) else "other",
                      "%s%s is not H+ F G for the matrix as given nor after any of the in-place edits %r"
                      % ("held T." if transposed else "", f_name, applied), W.exp(d, r, ())["matrix"], repr(Fw) if isinstance(Fw, Exception) else Fw)
                continue
            W.ks = ks
            if applied and not transposed:
                k2 = "%s/%s" % (fmt, "followed" if ks == tuple(applied) else "not_followed(shows %s)" % ",".join(ks))
                obs[k2] = obs.get(k2, 0) + 1
            e = W.exp(d, r)
            # ... then everything else must be the specification's value FOR THAT content
            Ad = K.fwd_adj(obj, own, e, d, r, transposed=transposed, Fw=Fw)
            try:
                T = obj.T                        # the transposed model built NOW
            except Exception as ex:  # noqa: BLE001
                K.bad(built[:-1], d, r, "raised", "%s.T raised" % ("held T" if transposed else ""), None, repr(ex))
                T = None
            if T is not None:
                Tf = K.fwd_adj(T, built, e, d, r, transposed=not transposed)
                K.matrix_of(T, built, e, d, r, None, transposed=not transposed, Tf=None if transposed else Tf)
            if (last if transposed else with_matrix):
                K.matrix_of(obj, "T_" if transposed else "get_", e, d, r, None, transposed=transposed, Tf=Ad if transposed else None)

    def touch(o):
        """first-use effects only (an implementation may keep things at the first call): one call of each, nothing compared"""
        d, r = pairs[o]
        e = W.exp(d, r, ())
        for obj, xin, yin in ((objs[o], e["x"], e["y"]), (held.get(o), e["y"], e["x"])):
            if obj is not None:
                _try(lambda: obj.forward(xin))
                _try(lambda: obj.adjoint(yin))
                _try(lambda: obj.T.forward(yin))

    seen = table.seen

    def after(prefix, qs, last, asked, ab):
        """after EVERY action: the read-outs of EVERY object (get_matrix() where the action asked for it, and at the end).  The
        behaviours are the paths of a tree: the comparisons after a prefix are made by the first behaviour that has it."""
        if last or prefix not in seen:
            seen.add(prefix)
            for q in qs:
                read_outs(q, last or q in asked, ab[q - 1] if ab else None, last)
        else:
            for q in qs:
                touch(q)
                if q in asked:
                    _try(lambda: objs[q].get_matrix())

    with warnings.catch_warnings():
        warnings.simplefilter("ignore")
        prefix = key.rsplit("/", 1)[0] + "/"
        after(prefix, [1], False, (), None)      # as constructed (also fills whatever the implementation keeps at first use)
        steps = beh["steps"]
        names = key.rsplit("/", 1)[1].split(".")
        for i, st in enumerate(steps):
            a, o = st["a"], st["o"]
            last = i == len(steps) - 1
            ab = beh["rd"][i] if beh.get("rd") else None
            label = ("copy=" + beh["ck"]) if a == "C" else "%s(%s)%s" % (a, WHO.get(o, "user"), st["g"] if st["g"] else "")
            K.done = (K.done + " . " if i else "") + label
            K.who = WHO.get(o, "orig")
            asked = set()                        # objects whose get_matrix() this action calls
            if a == "C":
                d, r = pairs[1]
                try:
                    if beh["ck"] == "call":
                        x = cuqi.distribution.Gaussian(np.zeros(W.exp(d, r, ())["matrix"].shape[1]), 1.0, name="z")
                        objs[2] = objs[1](x)
                    elif beh["ck"] == "copy":
                        objs[2] = _copy.copy(objs[1])
                    elif beh["ck"] == "deepcopy":
                        objs[2] = _copy.deepcopy(objs[1])
                        deep.add(2)
                    else:
                        raise MachineryError("unknown realisation %r of the action Copy" % beh["ck"])
                except MachineryError:
                    raise
                except Exception as ex:  # noqa: BLE001
                    K.who = "copy"
                    K.bad("copy_" + beh["ck"], d, r, "raised", "deriving a second object from the model raised", None, repr(ex))
                    return
                if objs[2] is objs[1]:
                    raise MachineryError("the action Copy did not produce a second object")
            elif a in ("SD", "SR"):
                side = a[1]
                new = W.geom(side, st["g"])
                try:
                    if side == "D":
                        objs[o].domain_geometry = new.obj
                    else:
                        objs[o].range_geometry = new.obj
                except Exception as ex:  # noqa: BLE001 - a refused assignment is acceptable: the behaviour ends here
                    ctx.observations.setdefault("seq_assignment_refused", {})[K.gk(*pairs[o])] = repr(ex)[:120]
                    return
                held.pop(o, None)
            elif a == "G":
                asked.add(o)
            elif a == "T":
                d, r = pairs[o]
                try:
                    held[o] = objs[o].T
                except Exception as ex:  # noqa: BLE001
                    K.bad("T", d, r, "raised", ".T raised", None, repr(ex))
                    return
            elif a[0] == "E":
                route, kind = a[1], a[2:]
                variant = _h(prefix, names[i])
                if route == "U":
                    buf = M0
                else:
                    d, r = pairs[o]
                    try:
                        buf = objs[o].get_matrix()
                    except Exception as ex:  # noqa: BLE001
                        K.bad("get_matrix", d, r, "raised", "get_matrix() raised", None, repr(ex))
                        return
                    asked.add(o)
                how = edit_in_place(buf, kind, table.pos, variant)
                if how is None:
                    # not an array this replay knows how to edit without touching its structure: the edit is not made
                    ctx.observations.setdefault("seqe_edit_not_made", {})["%s/%s/%s" % (fmt, a, type(buf).__name__)] = True
                    return
                applied.append(kind)
                ctx.facets["seqe_edit/%s/%s/%s" % (fmt, "E" + route, how)] = ctx.facets.get("seqe_edit/%s/%s/%s" % (fmt, "E" + route, how), 0) + 1
            else:
                raise MachineryError("unknown action %r in a SEQE behaviour" % a)
            pairs = {q + 1: tuple(p) for q, p in enumerate(st["pairs"])}
            if set(pairs) != set(objs):
                raise MachineryError("SEQE step %r: the logged pairs do not fit the objects of the replay" % (st,))
            prefix += names[i] + "."
            after(prefix, sorted(objs), last, asked, ab)
            ctx.facets["seqe_action_" + (a if a[0] != "E" else a[:2])] = ctx.facets.get("seqe_action_" + (a if a[0] != "E" else a[:2]), 0) + 1
    if beh["ep"] == "E2":
        ctx.facets["seqe_copy_" + beh["ck"]] = ctx.facets.get("seqe_copy_" + beh["ck"], 0) + 1


# ----------------------------------------------------------------------------------------------------------------------
def start_tlc(ctx):
    """Start the five TLC runs of the part (deciding configuration, as-built prediction, three deviations) concurrently, in the
    background: the caller goes on replaying other parts and hands the handle to run_edit."""
    import os
    from concurrent.futures import ThreadPoolExecutor
    from cuqiverif import tlc
    tier = ctx.tier
    tag = "%d-%d" % (os.getpid(), id(ctx) % 100000)

    def wd(name):
        return os.path.join(tlc.WORK, "%s-%s-%s" % (SPEC, tag, name))

    jobs = [("dev", dev, inv, dict(cfg="ModelGeomEdit.%s.deviation.cfg" % dev, workers=1, expect_violation=True, timeout=600,
                                   extra_modules=EXTRA, workdir=wd(dev), heap="1g")) for dev, inv in DEVIATIONS]
    jobs += [("main", "decide", None, dict(cfg="ModelGeomEdit.%s.cfg" % tier, workers=4, timeout=1500, extra_modules=EXTRA, workdir=wd("decide"))),
             ("main", "asbuilt", None, dict(cfg="ModelGeomEdit.asbuilt.%s.cfg" % tier, workers=2, timeout=1500, extra_modules=EXTRA,
                                            workdir=wd("asbuilt")))]
    ex = ThreadPoolExecutor(max_workers=len(jobs))
    futs = [ex.submit(lambda kw=kw: ctx.tlc(SPEC, **kw)) for _, _, _, kw in jobs]
    return ex, jobs, futs


def wait_tlc(started):
    """the TLC runs have ended (whatever their outcome): nothing is left running in the background"""
    started[0].shutdown(wait=True)


def run_edit(ctx, lin, started=None):
    """TLC on ModelGeomEdit (see start_tlc), then the replay of every behaviour (thorough tier: a seeded sample).
    `lin`: the LinEval configurations of part C07 (cross-check of the table).  Returns the number of behaviours replayed."""
    import random
    from cuqiverif import tlc
    from cuqiverif.core import MachineryError
    from cuqiverif.modelgeom_real import rmat, close
    from cuqiverif.props.c07 import _gid
    ex, jobs, futs = started if started is not None else start_tlc(ctx)
    try:
        results = [f.result() for f in futs]
    finally:
        ex.shutdown(wait=True)
    try:
        out = {}
        for (kind, name, inv, _), res in zip(jobs, results):
            if kind == "dev":
                if res.violated != inv:
                    raise MachineryError("deviation %s did not violate %s on ModelGeomEdit (violated=%r)" % (name, inv, res.violated))
                ctx.observations.setdefault("deviation_counterexamples", {})["SEQE/" + name] = inv
                continue
            ctx.model_must_hold(res, "ModelGeomEdit/" + name)
            out[name] = res.cases
    finally:
        for res in results:
            tlc.cleanup(res)
    dec = out.get("decide") or []
    inits = [c for c in dec if c.get("kind") == "seqeinit"]
    behs = [c for c in dec if c.get("kind") == "seqe"]
    geos = [c for c in dec if c.get("kind") == "egeo"]
    tabs = [c for c in dec if c.get("kind") == "etab"]
    pred = {beh_key(c): c["rd"] for c in (out.get("asbuilt") or []) if c.get("kind") == "seqe"}
    if not inits or not behs or not geos or not tabs:
        raise MachineryError("ModelGeomEdit emitted init=%d behaviours=%d geometries=%d table=%d" % (len(inits), len(behs), len(geos), len(tabs)))
    table = Table(inits[0], geos, tabs)
    # the table for the matrix as given IS the LinEval configuration of part C07 (same operator, same pair)
    checked = 0
    for c in lin:
        if c["mk"] != "dense":
            continue
        for d, dg in enumerate(table.pool["D"], 1):
            for r, rg in enumerate(table.pool["R"], 1):
                if _gid(c["dg"]) == _gid(dg) and _gid(c["rg"]) == _gid(rg) and (c["fi"], (), d, r) in table.tabs:
                    if not close(rmat(c["matrix"]), table.exp(c["fi"], (), d, r)["matrix"]):
                        raise MachineryError("ModelGeomEdit table disagrees with LinEval of ModelGeom for the unedited matrix, pair (%d, %d)" % (d, r))
                    checked += 1
    if not checked:
        raise MachineryError("no LinEval configuration to cross-check the table of ModelGeomEdit against")
    behs.sort(key=beh_key)
    total = len(behs)
    cap = 8000
    if total > cap:       # thorough tier: a seeded sample
        rnd = random.Random(ctx.seed + 2)
        behs = sorted(rnd.sample(behs, cap), key=beh_key)
    for b in behs:
        k = beh_key(b)
        if k not in pred:
            raise MachineryError("behaviour %s missing from the as-built run of ModelGeomEdit" % k)
        b["rd"] = pred[k]
        check_behaviour(ctx, {"kind": "seqe", "beh": b}, table)
    # vacuity guards
    if not ctx.violations:
        for a in sorted({"C" if st["a"] == "C" else st["a"][:2] for b in behs for st in b["steps"]} | {"G", "T", "SD", "EU", "EG", "C"}):
            if not ctx.facets.get("seqe_action_" + a) and not ctx.observations.get("seq_assignment_refused"):
                raise MachineryError("SEQE replay never executed action %s" % a)
        for ck in ("call", "copy", "deepcopy"):
            if not ctx.facets.get("seqe_copy_" + ck):
                raise MachineryError("SEQE replay never completed a behaviour with the realisation %r of Copy" % ck)
        for fmt in FMTS:
            for route in ("EU", "EG"):
                if not any(k.startswith("seqe_edit/%s/%s/" % (fmt, route)) for k in ctx.facets):
                    raise MachineryError("SEQE replay never edited a %s matrix through route %s" % (fmt, route))
    ctx.observe("seqe_behaviours", {"emitted": total, "replayed": len(behs), "depth": inits[0]["depth"], "post": inits[0]["post"],
                                    "table_entries": len(tabs), "table_cross_checked_against_LinEval": checked})
    mid = behs[len(behs) // 2]
    ctx.sample({"case": {"kind": "seqe", "key": beh_key(mid), "steps": [st["a"] for st in mid["steps"]]}})
    ctx.assumptions += ["in-place edits: value edits of stored entries only (M *= 2, one stored off-diagonal entry += 5, first column += 1 "
                        "for dense arrays); the sparsity pattern never changes; at most 2 edits per behaviour; whether a model follows "
                        "an edit is NOT asserted (observation seqe_edits_followed_by_the_model) - only that forward, adjoint, get_matrix() and T "
                        "show the same matrix at the same time; route G only where get_matrix() returns the matrix itself "
                        "(identity-like geometries), not an assembled one"]
    return len(behs)
