"""Realisation of MHTypes.tla (C02, round 11): one transition x -> y of a Metropolis-type kernel in dimension 2 whose step size is
handed over as a python float / python int / numpy int64 / numpy int32 / integer array (values 2, 3, 4; pCN: 3/5, 4/5, integer 1)
and - pCN - whose prior is a `Gaussian` or a `Normal` with the mean m handed over as a float array / python float / python int /
numpy float64 / integer array / list (scalars are broadcast by the distribution: `geometry=2`).

Everything expected comes from the case emitted by TLC (exact rationals): the noise that carries x to y under the documented
proposal map, the table values at x and y, the drift table, the Metropolis-Hastings log-ratio r, the decision of the class
(uniform exp(r)(1 -/+ 1e-6)) and the next state.  The target is a two-point table (lp(x), lp(y), g(x), g(y) of the spec; smooth
finite fallback elsewhere), so a proposal made with another mean / another scale is evaluated at a point that is not y.

Noise scripted into numpy's global stream (standard-normal values z):
  RW / CW   z = xi                      (y = x + s .* xi)
  PCN       z = xi - m                  (Gaussian: mean + sqrtcov z; Normal: loc + scale z; xi ~ N(m, I))
  MALA/ULA  z = w / sqrt(eps)           (the spec emits the rational increment w ~ N(0, eps I))
"""
import math
from fractions import Fraction
import numpy as np

from .script_rng import scripted, ScriptError
from .tlc import MachineryError
from .mhmag_real import TwoPoint, _near, _cls, _flag, EXP, LEG

D = 2
INT_TYPES = ("pyint", "npint64", "npint32", "intarr")
SCALAR_MEANS = ("pyfloat", "pyint", "npfloat64")


def fr(v):
    return float(Fraction(int(v[0]), int(v[1])))


def vec(vs):
    return np.array([fr(v) for v in vs], dtype=float)


def scale_object(case):
    """the step size in the type the configuration names"""
    c = case["cfg"]
    st, s = c["st"], Fraction(int(c["sc"][0]), int(c["sc"][1]))
    if st == "pyfloat":
        return float(s)
    if s.denominator != 1:
        raise MachineryError("integer-typed scale with the non-integer value %s" % s)
    if st == "pyint":
        return int(s)
    if st == "npint64":
        return np.int64(int(s))
    if st == "npint32":
        return np.int32(int(s))
    if st == "intarr":
        sv = [Fraction(int(v[0]), int(v[1])) for v in case["sv"]]
        if any(q.denominator != 1 for q in sv):
            raise MachineryError("integer array scale with non-integer entries %r" % (sv,))
        return np.array([int(q) for q in sv])
    raise MachineryError("unknown scale type %r" % st)


def mean_object(c):
    mt, m = c["mt"], int(c["m"])
    if mt == "arr":
        return np.full(D, float(m))
    if mt == "pyfloat":
        return float(m)
    if mt == "pyint":
        return int(m)
    if mt == "npfloat64":
        return np.float64(m)
    if mt == "intarr":
        return np.full(D, m, dtype=int)
    if mt == "list":
        return [float(m)] * D
    raise MachineryError("unknown mean type %r" % mt)


def prior_object(c):
    import cuqi
    cls = getattr(cuqi.distribution, c["pc"], None)
    if cls is None:
        raise MachineryError("cuqi.distribution.%s is missing" % c["pc"])
    return cls(mean_object(c), 1.0, geometry=D)


def uniform_of(case):
    tau = min(1.0, math.exp(fr(case["r"])))
    return tau * (1 - 1e-6) if case["cls"] == "Below" else tau * (1 + 1e-6)


def base_sig(case, real=None):
    c = case["cfg"]
    sc = "%d" % c["sc"][0] if c["sc"][1] == 1 else "%d_%d" % tuple(c["sc"])
    s = "types/%s/%s/sc=%s/st=%s" % (c["k"], c["iface"], sc, c["st"])
    if c["k"] == "PCN":
        s += "/pc=%s/mt=%s/m=%d" % (c["pc"], c["mt"], c["m"])
    if real:
        s += "/real=" + real
    return s + "/x0=%d,%d/y=%d,%d/%s" % (c["x0"][0], c["x0"][1], c["y"][0], c["y"][1], case["cls"])


def transition(case, real=None):
    import cuqi
    from .zoo import quiet
    c = case["cfg"]
    k, iface = c["k"], c["iface"]
    x, y = np.array(c["x0"], dtype=float), np.array(c["y"], dtype=float)
    lx, ly = fr(case["lx"]), fr(case["ly"])
    grad = k == "MALA"
    gx, gy = (vec(case["gx"]), vec(case["gy"])) if grad else (None, None)
    T = TwoPoint(x, y, lx, ly, gx, gy)
    noise = vec(case["noise"])
    sc = scale_object(case)
    if k == "PCN":
        z = noise - float(c["m"])
        lik = cuqi.likelihood.UserDefinedLikelihood(dim=D, logpdf_func=T.logpdf, gradient_func=T.gradient)
        with quiet():
            prior = prior_object(c)
        target = (lik, prior) if real == "tuple" else cuqi.distribution.Posterior(lik, prior)
    else:
        z = noise / math.sqrt(fr(c["sc"])) if grad else noise
        target = cuqi.distribution.UserDefinedDistribution(dim=D, logpdf_func=T.logpdf, gradient_func=T.gradient)
    u = uniform_of(case)
    us = [u, 0.5] if k == "CW" else [u]
    name = "ULA" if real == "ula" else (EXP if iface == "exp" else LEG)[k]
    out = {}
    if iface == "exp":
        cls = _cls(cuqi.experimental.mcmc, name)
        with quiet():
            s = cls(target, scale=sc, initial_point=x.copy())
            s.initialize()
        n0 = len(T.evals)
        with scripted({"normal": [z.copy()], "uniform": list(us)}) as st:
            acc = s.step()
        out["x"] = np.array(s.current_point, dtype=float).reshape(-1)
        attr = "current_likelihood_logd" if k == "PCN" else "current_target_logd"
        if not hasattr(s, attr):
            raise MachineryError("%s exposes no %s" % (cls.__name__, attr))
        out["lp"] = float(np.asarray(getattr(s, attr), dtype=float).reshape(-1)[0])
        if grad:
            out["grad"] = np.array(s.current_target_grad, dtype=float).reshape(-1)
    else:
        cls = _cls(cuqi.sampler, name)
        with quiet():
            s = cls(target, scale=sc, x0=x.copy())
        if not hasattr(s, "single_update"):
            raise MachineryError("legacy %s has no single_update" % cls.__name__)
        n0 = len(T.evals)
        with scripted({"normal": [z.copy()], "uniform": list(us)}) as st:
            if grad:
                xn, lpn, gn, acc = s.single_update(x.copy(), lx, gx.copy())
                out["grad"] = np.array(gn, dtype=float).reshape(-1)
            else:
                xn, lpn, acc = s.single_update(x.copy(), lx)
        out["x"] = np.array(xn, dtype=float).reshape(-1)
        out["lp"] = float(np.asarray(lpn, dtype=float).reshape(-1)[0])
    out["acc"] = _flag(acc, cls.__name__)
    out["evaluated"] = T.evals[n0:]
    out["left"] = st.remaining()
    out["geom"] = (x, y, gx, gy, lx, ly)
    out["u"] = u
    return out


def run_case(ctx, case, stats=None, real=None):
    """one emitted case of MHTypes on the real sampler -> True when the transition conformed.
    real: None (the kernel of the case) | "tuple" (legacy pCN given (likelihood, prior)) | "ula" (unadjusted Langevin kernel on
    a MALA case: proposal and returned evaluations only, every proposal is taken)"""
    base = base_sig(case, real)
    stats = stats if stats is not None else {}
    try:
        got = transition(case, real)
    except ScriptError as ex:
        raise MachineryError("the kernel %s/%s asked for random draws the binding does not script: %s" % (
            case["cfg"]["k"], case["cfg"]["iface"], ex))
    except MachineryError:
        raise
    except Exception as ex:
        ctx.mismatch(base + "/error", case, "the transition raised %s: %s" % (type(ex).__name__, str(ex)[:200]))
        return False
    x, y, gx, gy, lx, ly = got["geom"]
    c = case["cfg"]
    what = "scale %r, %s: log-ratio r = %s, uniform %r (%s)" % (
        scale_object(case), ("prior %s(mean=%r)" % (c["pc"], mean_object(c))) if c["k"] == "PCN" else "x -> y", Fraction(*case["r"]),
        got["u"], case["cls"])
    if not any(_near(p, y) for p in got["evaluated"]):
        ctx.mismatch(base + "/proposal", case, "%s: the point the kernel evaluated is not the documented proposal for the noise of "
                     "the specification" % what, expected=y, observed=[list(p) for p in got["evaluated"]])
        return False
    if real == "ula":
        exp_acc = 1
    else:
        exp_acc = int(case["acc"])
        a0 = float(got["acc"][0])
        if int(a0 != 0) != exp_acc:
            ctx.mismatch(base + "/decision", case, "%s must be %s" % (what, "accepted" if exp_acc else "rejected"),
                         expected=exp_acc, observed=got["acc"])
            return False
    ex_x, ex_lp, ex_g = (y, ly, gy) if exp_acc else (x, lx, gx)
    clause = "accept_state" if exp_acc else "reject_state"
    if not _near(got["x"], ex_x):
        ctx.mismatch("%s/%s/point" % (base, clause), case, "%s: next point" % what, expected=ex_x, observed=got["x"])
        return False
    if abs(got["lp"] - ex_lp) > 1e-9 * max(1.0, abs(ex_lp)):
        ctx.mismatch("%s/%s/cache_lp" % (base, clause), case, "%s: cached log-density" % what, expected=ex_lp, observed=got["lp"])
        return False
    if ex_g is not None and "grad" in got and not _near(got["grad"], ex_g):
        ctx.mismatch("%s/%s/cache_grad" % (base, clause), case, "%s: cached drift" % what, expected=ex_g, observed=got["grad"])
        return False
    if got["left"]:
        stats["scripted_draws_unused"] = stats.get("scripted_draws_unused", 0) + 1
    return True
