"""C13, strengthening V (round 10): MappedGeometry whose map CHANGES THE SHAPE of the function values.

Spec: specs/GeometryShapeMap.tla (cfg GeometryShapeMap.{quick,thorough}.cfg, deviation dev_innershape -> ShapesInv).
Every emitted configuration (inner geometry x stack of shape-changing maps) is built as nested real MappedGeometry objects
with numpy callables and compared with the specification's exact values:
  reported fun_shape / fun_dim / par_shape / par_dim, funvec_shape / funvec_dim where the vector form is defined (a 1-D result over
  an inner geometry with 1-D functions: "1-D array function values are their own vector representation"), par2fun of all basis vectors
  and of three ramps (shape AND entries), fun2par(par2fun(p)) = p where every map has an inverse, Samples.funvals for 1, 2, 3 samples
  (array shape fun_shape + (Ns,), Ns, flags, every sample = par2fun of that sample, source untouched), .funvals.parameters where
  defined, CUQIarray.funvals / .funvals.parameters.
Not asserted (observations): the vector form when the map produces a 2-D function or the inner geometry has its own fun2vec
(Image2D ravels whatever it is given; vec2fun reshapes to the INNER shape) - nothing documents what it should be.
"""
import contextlib
import io
import warnings
from fractions import Fraction

import numpy as np

TOL = 1e-12


def skey(c):
    if c["inner"] in ("Continuous1D", "Discrete"):
        inner = "%s/n=%d" % (c["inner"], c["n"])
    elif c["inner"] == "StepExpansion":
        inner = "StepExpansion/n=%d/s=%d" % (c["n"], c["s"])
    else:
        inner = "%s/r=%d/c=%d" % (c["inner"], c["r"], c["cc"])
    return "shapemap/inner=%s/map=%s" % (inner, "+".join(c["maps"]))


def _fl(v):
    return np.array([float(Fraction(a[0], a[1])) for a in v])


def _resh(f):
    if f.ndim == 1:
        return f.reshape(-1, 2) if f.size % 2 == 0 else f.reshape(-1, 1)
    return f.ravel()


FWD = {"affine": lambda f: 2 * f + 1, "sub2": lambda f: f[::2], "cat": lambda f: np.concatenate([f, 2 * f + 1]),
       "resh": _resh, "T": lambda f: f.T, "sum": lambda f: np.array([f.sum()])}


def _imap(m, shin):
    shin = tuple(shin)
    return {"affine": lambda f: (f - 1) / 2, "cat": lambda f: f[:shin[0]], "resh": lambda f: f.reshape(shin),
            "T": lambda f: f.T}.get(m)


def make(c, case):
    import cuqi
    G = cuqi.geometry
    with warnings.catch_warnings(), contextlib.redirect_stdout(io.StringIO()):
        warnings.simplefilter("ignore")
        k = c["inner"]
        if k == "Continuous1D":
            g = G.Continuous1D(c["n"])
        elif k == "Discrete":
            g = G.Discrete(c["n"])
        elif k == "StepExpansion":
            g = G.StepExpansion(np.linspace(0, 1, c["n"]), n_steps=c["s"])
        elif k == "Continuous2D":
            g = G.Continuous2D((c["r"], c["cc"]))
        elif k == "Image2D_C":
            g = G.Image2D((c["r"], c["cc"]), order="C")
        elif k == "Image2D_F":
            g = G.Image2D((c["r"], c["cc"]), order="F")
        elif k == "Visual_F":
            g = G.Image2D((c["r"], c["cc"]), order="F", visual_only=True)
        else:
            raise KeyError(k)
        for m, shin in zip(c["maps"], case["shapes_in"]):
            im = _imap(m, shin) if case["has_inv"] else None
            g = G.MappedGeometry(g, map=FWD[m], imap=im) if im is not None else G.MappedGeometry(g, map=FWD[m])
    return g


def _tup(x):
    try:
        return tuple(int(v) for v in x)
    except Exception:       # noqa: BLE001
        return x


def check(ctx, case):
    from cuqi.samples import Samples
    from cuqi.array import CUQIarray
    from cuqiverif.core import MachineryError
    c = case["c"]
    key = skey(c)
    rc = {"kind": "shapemap", "c": c}
    fsh = tuple(case["fun_shape"])
    d = case["par_dim"]
    inner1d = len(case["inner_shape"]) == 1 and c["inner"] != "Visual_F"       # base-class vector form of the inner geometry
    G = make(c, case)
    # harness-side maps against the specification's values (machinery)
    cols = [_fl(v).reshape(fsh) for v in case["cols"]]
    units = [_fl(v).reshape(fsh) for v in case["units"]]
    if int(np.prod(fsh)) != case["fun_dim"]:
        raise MachineryError("GeometryShapeMap: fun_dim of %s" % key)

    def quiet(fn):
        with warnings.catch_warnings(), contextlib.redirect_stdout(io.StringIO()):
            warnings.simplefilter("ignore")
            return fn()

    def attempt(sig, what, fn):
        try:
            return True, quiet(fn)
        except Exception as ex:     # noqa: BLE001
            ctx.mismatch("raises/%s/%s" % (key, sig), rc, "%s raises on a mapped geometry whose map changes the shape" % what,
                         expected="a value", observed=repr(ex)[:300])
            return False, None

    # ---- reported shapes
    ctx.case(("shapemap", key, "shapes"), facet="shapemap_shapes")
    for name, exp in (("par_shape", (d,)), ("par_dim", d), ("fun_shape", fsh), ("fun_dim", case["fun_dim"])):
        ok, got = attempt(name, name, lambda: getattr(G, name))
        if ok and (_tup(got) if isinstance(exp, tuple) else got) != exp:
            ctx.mismatch("reported_shape/%s/%s" % (key, name), rc,
                         "%s reported by the mapped geometry is not that of what its par2fun produces" % name, expected=exp, observed=got)
    if inner1d and len(fsh) == 1:
        for name, exp in (("funvec_shape", fsh), ("funvec_dim", case["fun_dim"])):
            ok, got = attempt(name, name, lambda: getattr(G, name))
            if ok and (_tup(got) if isinstance(exp, tuple) else got) != exp:
                ctx.mismatch("reported_shape/%s/%s" % (key, name), rc, "%s of a 1-D function is its own shape" % name, expected=exp, observed=got)
    else:
        try:
            v = quiet(lambda: G.funvec_shape)
        except Exception as ex:     # noqa: BLE001
            v = type(ex).__name__
        ctx.observations.setdefault("shapemap_funvec_shape_undocumented", {})[key] = repr(v)

    # ---- par2fun on single vectors
    inputs = [("e%d" % q, np.eye(d)[:, q], units[q]) for q in range(d)] + \
             [("ramp%d" % w, np.arange(1., d + 1) + 10 * w, cols[w]) for w in range(3)]
    for name, p, exp in inputs:
        ctx.case(("shapemap", key, "par2fun", name), facet="shapemap_par2fun")
        ok, f = attempt("par2fun/in=%s" % name, "par2fun", lambda: G.par2fun(p.copy()))
        if not ok:
            continue
        f = np.asarray(f)
        if f.shape != fsh:
            ctx.mismatch("shape/%s/par2fun/in=%s" % (key, name), rc, "shape of par2fun(p)", expected=fsh, observed=f.shape)
        elif not np.allclose(f, exp, rtol=TOL, atol=TOL):
            ctx.mismatch("value/%s/par2fun/in=%s" % (key, name), rc, "par2fun = maps(inner par2fun)", expected=exp, observed=f)
        if case["has_inv"]:
            ctx.case(("shapemap", key, "roundtrip", name), facet="shapemap_roundtrip")
            ok, q = attempt("fun2par_par2fun/in=%s" % name, "fun2par", lambda: G.fun2par(exp.copy()))
            if ok:
                q = np.asarray(q)
                if q.shape != (d,):
                    ctx.mismatch("shape/%s/fun2par_par2fun/in=%s" % (key, name), rc, "shape of fun2par(par2fun(p))", expected=(d,), observed=q.shape)
                elif not np.allclose(q, p, rtol=1e-11, atol=1e-11):
                    ctx.mismatch("value/%s/fun2par_par2fun/in=%s" % (key, name), rc, "fun2par(par2fun(p)) = p", expected=p, observed=q)

    # ---- sample sets of 1, 2, 3 samples
    P = np.stack([np.arange(1., d + 1) + 10 * w for w in range(3)], axis=1)
    for W in (1, 2, 3):
        sig = "samples/Ns=%d" % W
        ctx.case(("shapemap", key, sig), facet="shapemap_samples")
        src = P[:, :W].copy()
        ok, S = attempt(sig + "/funvals", "Samples.funvals", lambda: Samples(src, geometry=G).funvals)
        if not ok:
            continue
        A = np.asarray(S.samples)
        esh = tuple(case["sshape"][W - 1])
        if A.shape != esh or S.Ns != W:
            ctx.mismatch("samples_shape/%s/%s/funvals" % (key, sig), rc, "array of the function-value samples: fun_shape + (Ns,)",
                         expected={"shape": esh, "Ns": W}, observed={"shape": A.shape, "Ns": S.Ns})
            continue
        if bool(S.is_par) or bool(S.is_vec) != case["svec"][W - 1]:
            ctx.mismatch("samples_flags/%s/%s/funvals" % (key, sig), rc, "flags of the function-value samples",
                         expected={"is_par": False, "is_vec": case["svec"][W - 1]}, observed={"is_par": S.is_par, "is_vec": S.is_vec})
        for w in range(W):
            if not np.allclose(A[..., w], cols[w], rtol=TOL, atol=TOL):
                ctx.mismatch("value/%s/%s/funvals" % (key, sig), rc, "sample %d of funvals = par2fun of sample %d" % (w, w),
                             expected=cols[w], observed=A[..., w])
                break
        if not np.array_equal(src, P[:, :W]):
            ctx.mismatch("value/%s/%s/source_changed" % (key, sig), rc, "the parameter samples were modified", expected=P[:, :W], observed=src)
        # back to parameters: defined when every map has an inverse and the stored function values are not re-read through the
        # INNER geometry's vector form (2-D results are converted sample by sample with fun2par; 1-D results pass vec2fun of the
        # inner geometry, which is the identity for the base-class vector form)
        if case["has_inv"] and (len(fsh) > 1 or inner1d):
            ok, Q = attempt(sig + "/funvals-parameters", "Samples.funvals.parameters", lambda: S.parameters)
            if ok:
                B = np.asarray(Q.samples)
                if B.shape != (d, W) or not bool(Q.is_par):
                    ctx.mismatch("samples_shape/%s/%s/funvals-parameters" % (key, sig), rc, "parameter samples (par_dim, Ns)",
                                 expected={"shape": (d, W), "is_par": True}, observed={"shape": B.shape, "is_par": Q.is_par})
                elif not np.allclose(B, P[:, :W], rtol=1e-11, atol=1e-11):
                    ctx.mismatch("value/%s/%s/funvals-parameters" % (key, sig), rc, "funvals.parameters returns the parameters",
                                 expected=P[:, :W], observed=B)

    # ---- CUQIarray
    ctx.case(("shapemap", key, "array"), facet="shapemap_array")
    p = P[:, 1].copy()
    ok, a = attempt("array/funvals", "CUQIarray.funvals", lambda: CUQIarray(p, geometry=G).funvals)
    if ok:
        a_ = np.asarray(a)
        if a_.shape != fsh:
            ctx.mismatch("shape/%s/array/funvals" % key, rc, "shape of CUQIarray.funvals", expected=fsh, observed=a_.shape)
        elif not np.allclose(a_, cols[1], rtol=TOL, atol=TOL) or bool(a.is_par):
            ctx.mismatch("value/%s/array/funvals" % key, rc, "CUQIarray.funvals = par2fun(parameters), is_par False",
                         expected=cols[1], observed={"value": a_, "is_par": a.is_par})
        elif case["has_inv"]:
            ok, b = attempt("array/funvals-parameters", "CUQIarray.funvals.parameters", lambda: a.parameters)
            if ok and (np.asarray(b).shape != (d,) or not np.allclose(np.asarray(b), p, rtol=1e-11, atol=1e-11)):
                ctx.mismatch("value/%s/array/funvals-parameters" % key, rc, "CUQIarray.funvals.parameters returns the parameters",
                             expected=p, observed=np.asarray(b))


def run_part(ctx, only=None):
    """TLC on GeometryShapeMap (+ the deviation that must be refuted), then every emitted configuration on the real classes."""
    from cuqiverif.core import MachineryError
    from cuqiverif import tlc as _t
    import os, time
    tier = ctx.tier if only is None else "thorough"
    res = ctx.tlc("GeometryShapeMap", cfg="GeometryShapeMap.%s.cfg" % tier, workers=4, timeout=900)
    ctx.model_must_hold(res, "GeometryShapeMap")
    cases = {skey(k["c"]): k for k in res.cases if k["kind"] == "shapemap"}
    _t.cleanup(res)
    if not cases:
        raise MachineryError("GeometryShapeMap emitted no cases")
    if only is None:
        wd = os.path.join(_t.WORK, "GeometryShapeMap-dev-%d-%d" % (os.getpid(), int(time.time() * 1000) % 10**7))
        r2 = _t.run_tlc("GeometryShapeMap", cfg="GeometryShapeMap.dev_innershape.cfg", workdir=wd, workers=2, timeout=600, expect_violation=True)
        ctx.states += r2.distinct
        ctx.transitions += r2.generated
        if r2.ok or r2.violated != "ShapesInv":
            raise MachineryError("deviation innershape must violate ShapesInv on GeometryShapeMap, got %r" % r2.violated)
        ctx.observations.setdefault("deviations_violating", {})["shapemap_innershape"] = "ShapesInv"
        _t.cleanup(r2)
        # vacuity: maps that shrink, grow, raise and lower the rank, over 1-D and 2-D inner geometries, with and without inverse
        need = {"fewer entries": lambda k: k["fun_dim"] < int(np.prod(k["inner_shape"])),
                "more entries": lambda k: k["fun_dim"] > int(np.prod(k["inner_shape"])),
                "1-D -> 2-D": lambda k: len(k["fun_shape"]) > len(k["inner_shape"]),
                "2-D -> 1-D": lambda k: len(k["fun_shape"]) < len(k["inner_shape"]),
                "2-D other shape": lambda k: len(k["fun_shape"]) == 2 and len(k["inner_shape"]) == 2 and k["fun_shape"] != k["inner_shape"],
                "nested": lambda k: len(k["c"]["maps"]) == 2,
                "with inverse, shape changed": lambda k: k["has_inv"] and k["fun_shape"] != k["inner_shape"]}
        for name, pred in need.items():
            for inner in ("Continuous1D", "Image2D_F", "StepExpansion"):
                if name in ("2-D -> 1-D", "2-D other shape") and inner != "Image2D_F":
                    continue
                if name == "1-D -> 2-D" and inner == "Image2D_F":
                    continue
                if not any(pred(k) for k in cases.values() if k["c"]["inner"] == inner):
                    raise MachineryError("vacuous GeometryShapeMap: no configuration '%s' over %s" % (name, inner))
    n = 0
    for key in sorted(cases):
        if only is not None and key != only:
            continue
        check(ctx, cases[key])
        n += 1
    if only is None:
        ctx.observe("shapemap_configurations", n)
        pick = [k for k in sorted(cases) if k.startswith("shapemap/inner=Image2D_F/r=2/c=3/map=sub2+cat")][:1]
        for k in pick:
            ctx.sample({"shapemap": {f: cases[k][f] for f in ("c", "inner_shape", "fun_shape", "fun_dim", "shapes_in", "has_inv", "sshape")}})
    return n
