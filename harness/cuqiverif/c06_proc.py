"""C06, PROCESS HISTORY: several linear-Gaussian posteriors of different configuration built, prepared and sampled in ONE
python process, in every order / interleaving (helpers of props/c06.py; spec: specs/LinGaussProc.tla, EXTENDS LinGauss).

TLC enumerates, for every list of items (GMRF on a 1-D grid with k*k nodes and on a k x k grid of every order, Gaussian priors
in several input forms, the same matrix under another keyword, other sizes, bystanders with periodic / neumann boundary, LMRF,
CMRF), every behaviour  Build(i) / Prep(i) / Draw(i)  (mode free: all interleavings; mode seq: item after item), checks
ItemsIndependent (the Gaussian a Draw draws from is the posterior of the item's OWN configuration), refutes the named deviations
StructureSharedByDimBcOrder / FactorSharedByFamilyAndSize (a table keyed by a projection of the configuration that outlives
the objects) and emits every complete behaviour with the exact posterior of its items.

Replay: every behaviour runs in a FRESH process: one pristine interpreter (the "zygote": `python -m cuqiverif.c06_proc`, which
has imported cuqi and the helper modules and created NO object) forks one child per behaviour; a child starts from the state a
new interpreter has right after `import cuqi` and executes the events of its behaviour on real objects:
   Build  prior (GMRF / Gaussian, 2-D: geometry Image2D), LinearModel (matrix / function pair), data distribution, posterior
   Prep   cuqi.experimental.mcmc.LinearRTO(post).initialize()  and  cuqi.sampler.LinearRTO(post)   (both precompute here)
   Draw   affine read-off of one transition of each with scripted normals 0, e_i
   (bystanders: construct / logd at a point / logd at another point - nothing asserted, they are history)
The parent compares offset = mu_post and T T^T = Lambda^-1 with the spec's exact rationals of the item's own configuration
(rtol 1e-8).  Signature: proc/<interface>/<what>/item=<name>/after=<events of OTHER items before this item's draw>.
"""
import numpy as np

NPROC = 8


def _c06():
    from cuqiverif.props import c06
    return c06


def _L():
    from cuqiverif import lingauss_common as L
    return L


def _wd(label):
    import os
    from cuqiverif import tlc
    return os.path.join(tlc.WORK, "LinGaussProc-c06-%s-%d" % (label, os.getpid()))


LABELS = ("main", "dev1", "dev2", "run")
DEVS = (("dev1", "StructureSharedByDimBcOrder"), ("dev2", "FactorSharedByFamilyAndSize"))


def _sorted_cases(res):
    cases = [c for c in res.cases if c.get("kind") == "proc"]
    return sorted(cases, key=lambda c: (len(c["items"]), sorted(c["items"]), [(e["item"], e["ev"]) for e in c["events"]]))


def _tlc_then_spawn(ctx, kw):
    """TLC on the list catalogue, then (the model holds) every emitted behaviour in its own fresh process - all of it in a
    background thread: the fresh processes do not depend on anything the checking process does meanwhile"""
    res = ctx.tlc("LinGaussProc", cfg="LinGaussProc.%s.cfg" % ctx.tier, workers=4, workdir=_wd("main"), **kw)
    cases = _sorted_cases(res) if res.ok else []
    results = spawn(_wd("run"), cases) if cases else []
    return res, cases, results


def start_tlc(ctx):
    import concurrent.futures
    pool = concurrent.futures.ThreadPoolExecutor(max_workers=3)
    kw = dict(timeout=1500, extra_modules=["LinGauss.tla"])
    jobs = {"main": pool.submit(_tlc_then_spawn, ctx, kw)}
    for label, name in DEVS:
        jobs[label] = pool.submit(ctx.tlc, "LinGaussProc", cfg="LinGaussProc.dev_%s.cfg" % name, workers=1, expect_violation=True,
                                  workdir=_wd(label), **kw)
    pool.shutdown(wait=False)
    return jobs


def discard_tlc(jobs):
    from cuqiverif import tlc
    for f in jobs.values():
        try:
            r = f.result()
            tlc.cleanup(r[0] if isinstance(r, tuple) else r)
        except BaseException:      # noqa: BLE001
            pass
    for label in LABELS:
        tlc.cleanup(_wd(label))


def collect_tlc(ctx, jobs):
    from cuqiverif import tlc
    from cuqiverif.core import MachineryError
    out, err = {}, None
    for k, f in jobs.items():
        try:
            out[k] = f.result()
        except BaseException as e:      # noqa: BLE001
            err = err or e
    if err is not None:
        for r in out.values():
            tlc.cleanup(r[0] if isinstance(r, tuple) else r)
        for label in LABELS:
            tlc.cleanup(_wd(label))
        raise err
    res, cases, results = out.pop("main")
    ctx.model_must_hold(res, "LinGaussProc")
    devs = {name: out[label] for label, name in DEVS}
    tlc.cleanup(res)
    for r in out.values():
        tlc.cleanup(r)
    for name, dev in devs.items():
        if dev.ok or dev.violated != "ItemsIndependent":
            raise MachineryError("deviation %s: expected TLC to violate ItemsIndependent, got %r (vacuous invariant?)" % (name, dev.violated))
        ctx.observations.setdefault("deviations_refuted_by_tlc", {})[name] = "ItemsIndependent"
    if res.ok and (not cases or not any(len(c["items"]) > 1 for c in cases)):
        raise MachineryError("LinGaussProc emitted no behaviour with several items")
    return cases, results


# ======================================================================================================================
# inside the fresh process
# ======================================================================================================================
def build_item(it):
    """Build event: the real objects of one item (asserted items: the posterior; bystanders: the distribution)."""
    import cuqi
    L = _L()
    n = it["n"]
    if it["fam"] == "by":
        kk = int(round(np.sqrt(n)))
        geom = cuqi.geometry.Image2D((kk, kk)) if it["pd"] == 2 else cuqi.geometry.Continuous1D(n)
        with L.quiet():
            if it["what"] == "gmrf":
                return cuqi.distribution.GMRF(np.zeros(n), float(it["delta"]), bc_type=it["bc"], order=it["order"], geometry=geom)
            if it["what"] == "lmrf":
                return cuqi.distribution.LMRF(0.0, 1.0 / float(it["delta"]), bc_type=it["bc"], geometry=geom)
            return cuqi.distribution.CMRF(0.0, 1.0 / float(it["delta"]), bc_type=it["bc"], geometry=geom)
    A = np.array(it["A"][0], dtype=float)
    m = A.shape[0]
    if it["pd"] == 2:
        kk = int(round(np.sqrt(n)))
        geom = cuqi.geometry.Image2D((kk, kk))
        x = L.build_prior(it, n, geometry=geom)
        model = cuqi.model.LinearModel(lambda X: A @ np.asarray(X).ravel(), lambda v: (A.T @ np.asarray(v)).reshape(kk, kk),
                                       range_geometry=m, domain_geometry=geom)
    else:
        x = L.build_prior(it, n)
        model = L.linear_model(A, it["mdl"])
    y = cuqi.distribution.Gaussian(model(x), name="y1", **L.gauss_kwargs(it["noise"][0]))
    return cuqi.distribution.JointDistribution(x, y)(y1=np.array(it["y"][0], dtype=float))


def run_behaviour(case):
    """Execute the events of one behaviour IN THIS PROCESS.  Returns {item: {"build": err|None, "prep": {...}, "draw": {iface: record}}}."""
    import cuqi
    c06, L = _c06(), _L()
    items = case["items"]
    objs, out = {}, {nm: {"build": None, "prep": {}, "draw": {}} for nm in items}
    for ev in case["events"]:
        nm, ph = ev["item"], ev["ev"]
        it = items[nm]
        rec = out[nm]
        if ph == "build":
            try:
                objs[nm] = {"post": build_item(it)}
            except Exception as e:      # noqa: BLE001
                rec["build"] = repr(e)
            continue
        if rec["build"] is not None:
            continue
        o = objs[nm]
        n = it["n"]
        if it["fam"] == "by":
            try:
                with L.quiet():
                    o["post"].logd(np.arange(1.0, n + 1.0) if ph == "prep" else np.ones(n))
            except Exception as e:      # noqa: BLE001
                rec["prep" if ph == "prep" else "draw"]["by"] = repr(e)
            continue
        x0 = np.zeros(n)
        if ph == "prep":
            for iface in ("experimental", "legacy"):
                try:
                    if iface == "experimental":
                        s = cuqi.experimental.mcmc.LinearRTO(o["post"], initial_point=x0.copy(), maxit=c06.MAXIT, tol=c06.TOL)
                        s.initialize()
                    else:
                        s = cuqi.sampler.LinearRTO(o["post"], x0=x0.copy(), maxit=c06.MAXIT, tol=c06.TOL)
                    o[iface] = s
                except Exception as e:      # noqa: BLE001
                    rec["prep"][iface] = repr(e)
            continue
        for iface, mk in (("experimental", c06._exp_draw), ("legacy", c06._legacy_draw)):
            if iface in rec["prep"]:
                continue
            try:
                off, T, N = L.affine_readoff(mk(o[iface], x0))
                rec["draw"][iface] = {"off": np.array(off), "T": np.array(T), "N": int(N)}
            except L.ScriptError as e:
                rec["draw"][iface] = {"script": str(e)}
            except Exception as e:      # noqa: BLE001
                rec["draw"][iface] = {"error": repr(e)}
    return out


def _zygote(path_in, outdir, nproc):
    """The pristine interpreter: imports only, then one forked child per behaviour (at most nproc at a time)."""
    import json, os, pickle, sys, traceback
    import cuqi                                         # noqa: F401
    import cuqi.experimental.mcmc, cuqi.sampler        # noqa: F401,E401
    from cuqiverif import lingauss_common, script_rng   # noqa: F401
    from cuqiverif.props import c06                     # noqa: F401
    repo = os.environ.get("CUQIVERIF_REPO", "/repo")
    assert os.path.realpath(cuqi.__file__).startswith(os.path.realpath(repo) + "/"), cuqi.__file__
    jobs = json.load(open(path_in))
    running = set()

    def reap():
        pid, status = os.wait()
        running.discard(pid)

    for idx, job in enumerate(jobs):
        while len(running) >= nproc:
            reap()
        sys.stdout.flush()
        pid = os.fork()
        if pid == 0:
            code = 0
            try:
                res = run_behaviour(job)
                tmp = os.path.join(outdir, "%d.tmp" % idx)
                with open(tmp, "wb") as f:
                    pickle.dump(res, f)
                os.replace(tmp, os.path.join(outdir, "%d.pkl" % idx))
            except BaseException:      # noqa: BLE001
                code = 3
                try:
                    open(os.path.join(outdir, "%d.err" % idx), "w").write(traceback.format_exc())
                except BaseException:      # noqa: BLE001
                    pass
            finally:
                os._exit(code)
        running.add(pid)
    while running:
        reap()


def spawn(workdir, cases, nproc=NPROC, timeout=1800):
    """run every behaviour in its own fresh process; returns the list of result dicts (same order)"""
    import json, os, pickle, subprocess, sys
    from cuqiverif.core import MachineryError
    os.makedirs(workdir, exist_ok=True)
    repo = os.environ.get("CUQIVERIF_REPO", "/repo")
    here = os.path.dirname(os.path.dirname(os.path.abspath(__file__)))      # .../harness
    pin = os.path.join(workdir, "behaviours.json")
    json.dump(cases, open(pin, "w"))
    env = dict(os.environ, PYTHONPATH=here + os.pathsep + repo, OMP_NUM_THREADS="1", OPENBLAS_NUM_THREADS="1", MKL_NUM_THREADS="1", TQDM_DISABLE="1")
    p = subprocess.run([sys.executable, "-W", "ignore", "-m", "cuqiverif.c06_proc", pin, workdir, str(nproc)], env=env, stdout=subprocess.PIPE,
                       stderr=subprocess.STDOUT, text=True, timeout=timeout)
    if p.returncode != 0:
        raise MachineryError("the zygote of the process-history replay ended with code %s:\n%s" % (p.returncode, "\n".join(p.stdout.splitlines()[-15:])))
    out = []
    for i in range(len(cases)):
        f = os.path.join(workdir, "%d.pkl" % i)
        if not os.path.exists(f):
            e = os.path.join(workdir, "%d.err" % i)
            raise MachineryError("the process of behaviour %d produced no result: %s" % (i, open(e).read()[-1500:] if os.path.exists(e) else "no error file"))
        out.append(pickle.load(open(f, "rb")))
    return out


# ======================================================================================================================
# parent: judge
# ======================================================================================================================
def _hist_tag(case, nm):
    """events of OTHER items before the draw of item nm"""
    tag = []
    for ev in case["events"]:
        if ev["item"] == nm:
            if ev["ev"] == "draw":
                break
            continue
        tag.append("%s:%s" % (ev["ev"][0].upper(), ev["item"]))
    return ",".join(tag) or "nothing"


def judge(ctx, case, res):
    c06, L = _c06(), _L()
    names = sorted(case["items"])
    alone = len(names) == 1
    for nm in names:
        it = case["items"][nm]
        rec = res[nm]
        if it["fam"] == "by":
            if rec["build"] or rec["prep"] or rec["draw"]:
                d = ctx.observations.setdefault("proc_bystander_errors", {})
                d[nm] = d.get(nm, 0) + 1
            continue
        after = _hist_tag(case, nm)
        later = "" if alone or after != "nothing" else "(others follow)"
        sig = lambda iface, what: "proc/%s/%s/item=%s/after=%s" % (iface, what, nm, after)       # noqa: E731
        carry = dict(case)
        if rec["build"] is not None:
            ctx.case(("proc", "build", nm, after), facet="proc/build")
            ctx.mismatch(sig("build", "error"), carry, "posterior of a documented linear-Gaussian configuration cannot be built "
                         "(after %s in the same process%s): %s" % (after, later, rec["build"]))
            continue
        mu, cov = L.qnp(it["mu_q"]), L.qnp(it["LamInv_q"])
        for iface in ("experimental", "legacy"):
            ctx.case(("proc", iface, nm, tuple((e["item"], e["ev"]) for e in case["events"])), nontrivial=not alone,
                     facet="proc/%s/%s" % ("alone" if alone else ("first" if after == "nothing" else "later"), iface))
            if iface in rec["prep"]:
                ctx.mismatch(sig(iface, "error"), carry, "sampler refuses / crashes on a documented linear-Gaussian configuration "
                             "(after %s in the same process%s): %s" % (after, later, rec["prep"][iface]))
                continue
            r = rec["draw"].get(iface)
            if r is None:
                from cuqiverif.core import MachineryError
                raise MachineryError("process-history replay: no draw record for %s / %s" % (nm, iface))
            if "script" in r:
                ctx.mismatch(sig(iface, "draws"), carry, "transition does not consume exactly one standard-normal vector: %s" % r["script"])
                continue
            if "error" in r:
                ctx.mismatch(sig(iface, "error"), carry, "sampler refuses / crashes on a documented linear-Gaussian configuration "
                             "(after %s in the same process%s): %s" % (after, later, r["error"]))
                continue
            off, T = r["off"], r["T"]
            where = "alone in a fresh process" if alone else "after %s in the same process%s" % (after, later)
            if L.rel_err(off, mu) > c06.RTOL:
                ctx.mismatch(sig(iface, "offset"), carry, "%s: next state for perturbation 0 is not the posterior mean of the item's own configuration" % where,
                             expected=mu, observed=off)
            if L.rel_err(T @ T.T, cov, scale=1e-3) > c06.RTOL:
                ctx.mismatch(sig(iface, "cov"), carry, "%s: linear part T of the step does not reproduce the posterior covariance of the item's own "
                             "configuration (T T^T != Lambda^-1)" % where, expected=cov, observed=T @ T.T)


def check(ctx, cases, results):
    from cuqiverif.core import MachineryError
    for c, r in zip(cases, results):
        judge(ctx, c, r)
    ctx.traces += len(cases)
    multi = [c for c in cases if len(c["items"]) > 1]
    if not multi:
        return
    ctx.observations["proc_behaviours"] = {"total": len(cases), "several_items": len(multi), "free_interleavings": sum(1 for c in multi if c["mode"] == "free")}
    # vacuity: a 1-D grid with k*k nodes and a k x k grid of the same order were drawn from in one process, in both orders
    ok = set()
    for c in multi:
        g = [it for it in c["items"].values() if it["fam"] == "gmrf"]
        if len({(it["pd"]) for it in g}) == 2 and len({(it["n"], it["prior"]["order"]) for it in g}) == 1:
            ok.add(next(e["item"] for e in c["events"] if e["ev"] == "build"))
    if len(ok) < 2 and not ctx.violations:
        raise MachineryError("process-history replay: no behaviour with a 1-D and a 2-D GMRF of the same size and order built in both orders (vacuous)")
    c = next((c for c in multi if c["mode"] == "free"), multi[0])
    ctx.sample({"kind": "proc", "behaviour": " . ".join("%s(%s)" % (e["ev"].capitalize(), e["item"]) for e in c["events"]),
                "items": {nm: ({k: it[k] for k in ("fam", "pd", "n", "prior", "mu_q", "LamInv_q")} if it["fam"] != "by" else it)
                          for nm, it in c["items"].items()}})


def run(ctx, jobs):
    from cuqiverif import tlc
    try:
        cases, results = collect_tlc(ctx, jobs)
        check(ctx, cases, results)
    finally:
        tlc.cleanup(_wd("run"))


def replay(ctx, case):
    """the stored behaviour, and every asserted item of it alone (build . prep . draw) - each in its own fresh process"""
    from cuqiverif import tlc
    lists = [case]
    if len(case["items"]) > 1:
        for nm, it in sorted(case["items"].items()):
            if it["fam"] != "by":
                lists.append({"kind": "proc", "mode": "seq", "items": {nm: it}, "events": [{"item": nm, "ev": e} for e in ("build", "prep", "draw")]})
    wdir = _wd("run")
    try:
        results = spawn(wdir, lists)
        for c, r in zip(lists, results):
            judge(ctx, c, r)
    finally:
        tlc.cleanup(wdir)


if __name__ == "__main__":
    import sys
    _zygote(sys.argv[1], sys.argv[2], int(sys.argv[3]))
