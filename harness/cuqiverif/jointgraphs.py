"""Realisations of abstract model graphs (JointCond.tla / ObjHistory.tla) as real CUQIpy densities, together with a
closed-form numpy oracle for the log-density of every factor (independent of cuqi).

A graph is par: list (index v-1) of sorted parent lists over variables 1..N.  Variable v is called "v<v>".
Realisation r selects the families:
  r = 0  all Gaussian: mean = sum of fixed matrices applied to the mean-parents, isotropic cov = c + |q|^2 of the scale-parent
         (for even v with >= 2 parents the scale-parent is a mean-parent as well: one variable in two callables;
          for even v with one parent: mean = cuqi LinearModel applied to the parent, the linear-Gaussian likelihood)
  r = 1  mixed: Gamma / GMRF roots, Laplace, LMRF, GMRF, Gamma children, Gaussian around a non-linear cuqi Model
  r = 2  all Gaussian, every parent through ONE mean callable of len(parents) arguments (staged partial conditioning)
"""
import math
import numpy as np

DIMS = {1: 2, 2: 1, 3: 3, 4: 2}


def name(v):
    return "v%d" % v


def _mat(v, p, dv, dp):
    rs = np.random.RandomState(100 * v + p)
    return rs.randint(-2, 3, size=(dv, dp)).astype(float)


def _named_lambda(argnames, f):
    """a python function whose parameter NAMES are argnames (CUQIpy matches conditioning variables by name)"""
    args = ", ".join(argnames)
    return eval("lambda %s: _f(%s)" % (args, args), {"_f": f})


def _tridiag(n):
    P = 2 * np.eye(n) - np.eye(n, k=1) - np.eye(n, k=-1)
    return P


def _D_zero(n):
    D = np.zeros((n + 1, n))
    for r in range(n + 1):
        if r < n:
            D[r, r] = 1
        if r - 1 >= 0:
            D[r, r - 1] = -1
    return D


class Factor:
    """recipe of one factor: family, how parents enter, numpy oracle"""

    def __init__(self, v, parents, r):
        self.v, self.parents, self.r = v, list(parents), r
        self.d = DIMS[v]
        P = self.parents
        self.family = "Gaussian"
        self.mean_par, self.scale_par = P, None
        if r == 2:
            pass          # all parents enter through ONE callable (the mean) with len(P) arguments; constant covariance
        elif r == 0:
            if len(P) >= 2 or (len(P) == 1 and v % 2 == 1):
                self.mean_par, self.scale_par = P[:-1], P[-1]
            if len(P) >= 2 and v % 2 == 0:
                # the last parent enters through BOTH callables (mean and covariance): one conditioning value has to reach
                # every parameter that depends on it
                self.mean_par = P
            if len(P) == 1 and v % 2 == 0:
                # the textbook linear-Gaussian likelihood: mean = LinearModel(A) applied to the parent (the only family here
                # whose posterior has a gradient, so that gradient-based samplers can be run on a conditioned copy)
                self.family = "GaussianLinModel"
        else:
            if not P:
                self.family = "Gamma" if self.d == 1 else ("GMRF" if v % 2 == 1 else "Gaussian")
            elif self.d == 1:
                self.family, self.mean_par, self.scale_par = "Gamma", [], P[0]      # rate depends on the first parent
                self.extra_mean = P[1:]                                              # shape offset depends on the others
            elif len(P) == 1:
                fam = ["GaussianModel", "LMRF", "Laplace", "GMRFprec"][(v + P[0]) % 4]
                self.family = fam
                if fam in ("LMRF", "GMRFprec"):
                    self.mean_par, self.scale_par = [], P[0]
            else:
                self.family = "Laplace" if v % 2 == 0 else "Gaussian"
                self.mean_par, self.scale_par = P[:-1], P[-1]
        self.m0 = np.arange(1, self.d + 1, dtype=float) * 0.5 - 0.25 * v

    # ---- numpy oracle -----------------------------------------------------------------------------------
    def _mean(self, vals):
        m = self.m0.copy()
        for p in self.mean_par:
            m = m + _mat(self.v, p, self.d, DIMS[p]) @ vals[p]
        return m

    def _scale(self, vals):
        c = 0.5 + 0.25 * self.v
        if self.scale_par is not None:
            q = vals[self.scale_par]
            c = c + float(q @ q)
        return c

    def oracle(self, vals):
        """log-density of this factor at the complete assignment vals: {v: ndarray}"""
        x = np.asarray(vals[self.v], dtype=float)
        d = self.d
        f = self.family
        if f == "Gaussian":
            m, c = self._mean(vals), self._scale(vals)
            return -0.5 * d * math.log(2 * math.pi * c) - float((x - m) @ (x - m)) / (2 * c)
        if f == "GaussianLinModel":
            m = _mat(self.v, self.parents[0], d, DIMS[self.parents[0]]) @ vals[self.parents[0]]
            c = 0.5 + 0.25 * self.v
            return -0.5 * d * math.log(2 * math.pi * c) - float((x - m) @ (x - m)) / (2 * c)
        if f == "GaussianModel":
            z = _mat(self.v, self.parents[0], d, DIMS[self.parents[0]]) @ vals[self.parents[0]]
            m = z + 0.1 * z ** 2
            c = 0.5 + 0.25 * self.v
            return -0.5 * d * math.log(2 * math.pi * c) - float((x - m) @ (x - m)) / (2 * c)
        if f == "Laplace":
            m, b = self._mean(vals), self._scale(vals)
            return float(np.sum(-math.log(2 * b) - np.abs(x - m) / b))
        if f == "Gamma":
            a = 2.0 + self.v
            for p in getattr(self, "extra_mean", []):
                a = a + float(vals[p] @ vals[p])
            b = self._scale(vals)
            xx = float(x.reshape(-1)[0])
            return a * math.log(b) - math.lgamma(a) + (a - 1) * math.log(xx) - b * xx
        if f in ("GMRF", "GMRFprec"):
            prec = 2.0 if f == "GMRF" else self._scale(vals)
            P = _tridiag(d)
            m = self.m0
            sign, logdet = np.linalg.slogdet(P)
            return 0.5 * (d * (math.log(prec) - math.log(2 * math.pi)) + logdet) - 0.5 * prec * float((x - m) @ P @ (x - m))
        if f == "LMRF":
            b = self._scale(vals)
            Dx = _D_zero(d) @ x
            return len(Dx) * (-math.log(2 * b)) - float(np.abs(Dx).sum()) / b
        raise ValueError(f)

    # ---- real CUQIpy factor ---------------------------------------------------------------------------------
    def build(self):
        import cuqi
        v, d, f = self.v, self.d, self.family
        nm = name(v)
        mats = {p: _mat(v, p, d, DIMS[p]) for p in self.parents}
        m0 = self.m0.copy()
        c0 = 0.5 + 0.25 * v

        def mean_fun(*ps):
            m = m0.copy()
            for p, val in zip(self.mean_par, ps):
                m = m + mats[p] @ np.asarray(val, dtype=float)
            return m

        def scale_fun(q):
            q = np.asarray(q, dtype=float).reshape(-1)
            return c0 + float(q @ q)
        mean = _named_lambda([name(p) for p in self.mean_par], mean_fun) if self.mean_par else m0
        scale = _named_lambda([name(self.scale_par)], scale_fun) if self.scale_par is not None else c0
        if f == "Gaussian":
            return cuqi.distribution.Gaussian(mean=mean, cov=scale, geometry=d, name=nm)
        if f == "GaussianLinModel":
            p = self.parents[0]
            A = mats[p]
            model = cuqi.model.LinearModel(forward=_named_lambda([name(p)], lambda z: A @ np.asarray(z, dtype=float)),
                                           adjoint=lambda y: A.T @ np.asarray(y, dtype=float),
                                           range_geometry=d, domain_geometry=DIMS[p])
            return cuqi.distribution.Gaussian(mean=model, cov=c0, geometry=d, name=nm)
        if f == "GaussianModel":
            p = self.parents[0]
            A = mats[p]

            def fwd(z):
                z = A @ np.asarray(z, dtype=float)
                return z + 0.1 * z ** 2
            model = cuqi.model.Model(forward=_named_lambda([name(p)], fwd), range_geometry=d, domain_geometry=DIMS[p])
            return cuqi.distribution.Gaussian(mean=model, cov=c0, geometry=d, name=nm)
        if f == "Laplace":
            return cuqi.distribution.Laplace(location=mean, scale=scale, geometry=d, name=nm)
        if f == "Gamma":
            extra = getattr(self, "extra_mean", [])
            if extra:
                def shape_fun(*ps):
                    return 2.0 + v + sum(float(np.asarray(q, dtype=float).reshape(-1) @ np.asarray(q, dtype=float).reshape(-1)) for q in ps)
                shape = _named_lambda([name(p) for p in extra], shape_fun)
            else:
                shape = 2.0 + v
            return cuqi.distribution.Gamma(shape=shape, rate=scale, geometry=1, name=nm)
        if f == "GMRF":
            return cuqi.distribution.GMRF(mean=m0, prec=2.0, bc_type="zero", order=1, geometry=d, name=nm)
        if f == "GMRFprec":
            return cuqi.distribution.GMRF(mean=m0, prec=scale, bc_type="zero", order=1, geometry=d, name=nm)
        if f == "LMRF":
            return cuqi.distribution.LMRF(location=0, scale=scale, bc_type="zero", geometry=d, name=nm)
        raise ValueError(f)


class Realisation:
    def __init__(self, par, r):
        self.par = [list(p) for p in par]
        self.N = len(par)
        self.r = r
        self.factors = {v: Factor(v, self.par[v - 1], r) for v in range(1, self.N + 1)}

    def build_factors(self):
        return [self.factors[v].build() for v in range(1, self.N + 1)]

    def joint(self):
        import cuqi
        return cuqi.distribution.JointDistribution(*self.build_factors())

    def completion(self, k):
        """k-th admissible complete assignment {v: ndarray}; Gamma-distributed variables positive"""
        rs = np.random.RandomState(31 * k + 7)
        vals = {}
        for v in range(1, self.N + 1):
            x = rs.randint(-3, 4, size=DIMS[v]).astype(float) / 2 + 0.25 * k
            if self.factors[v].family == "Gamma":
                x = np.abs(x) + 0.5
            vals[v] = x
        return vals

    def total(self, vals):
        return sum(self.factors[v].oracle(vals) for v in self.factors)
