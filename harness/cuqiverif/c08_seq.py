"""C08, ONE NUTS sampler object making several transitions with its public attributes reassigned in between.

Spec: specs/NutsSeq.tla (EXTENDS Nuts).
 * part B (BInit / BNext): the behaviours of Nuts on the lattice of this module (all phases of four momentum words, a
   flat and two non-flat log-density tables incl. NaN / divergent entries, step sizes 1 and 1/2, max_depth 0, 1) - one
   exact expectation per (orbit, max_depth, draws);
 * ShiftLemma: on a flat table the orbit seen from leaf c is the orbit ShiftId(id, c) of the instance, so a SECOND
   transition of the same object on the same target, started where the first ended, is the behaviour of that orbit
   translated by c (table `shift` emitted by part O);
 * part O: the object machine (attributes max_depth / step_size / target, step size in use, owner of the caches,
   reinitialised flag) with invariants TransSpecified, CacheCarried, DepthFollowsAttribute, StepAtInit and the named
   deviations DevReinitKeepsCache, DevDepthFrozenAtInit refuted by TLC.

Replay: seeded walks of the object machine on ONE real object per walk.
 experimental (stateful): transition (sample(1)) - `max_depth = d` - transition from where the first ended - ... -
   target switched as HybridGibbs does for a NUTS block (`target = other table; step_size = ..; initial_point =
   current_point; reinitialize()`) - transition - ...; after EVERY transition leaves, sub-trees, selected point, cached
   log-density and gradient (they must belong to the current point under the CURRENT target), acceptance flag, statistic
   are compared with the behaviour of the configuration the machine is in; after every reinitialisation the caches must be
   the new target's values at the current point and max_depth must be the attribute.
 legacy (stateless: every sample() call starts from x0): sample(..) - `max_depth`, `adapt_step_size`, `x0`, `target`
   assigned - sample(..) again on the same object.
Different targets carry different additive constants in their log-density tables (the sampler's decisions are invariant
under such a constant, a stale cached log-density is not).
`step_size` assigned WITHOUT reinitialising is documented as "initial step size": which step size the next transition uses
is recorded as an observation only.
"""
import json
import math
import random
from fractions import Fraction as Fr

import numpy as np

AMAX = 4            # a chain on one table ends when the current point is more than AMAX leaves from the table's centre


def _NR():
    from cuqiverif import nuts_real as NR
    return NR


def _okey(orb):
    return json.dumps(orb)


def _obs(ctx, key, tag):
    d = ctx.observations.setdefault(key, {})
    d[tag] = d.get(tag, 0) + 1


# ======================================================================================================================
def start_tlc(ctx):
    import concurrent.futures, os
    from cuqiverif import tlc as _tlc
    pool = concurrent.futures.ThreadPoolExecutor(max_workers=4)
    wd = lambda label: os.path.join(_tlc.WORK, "NutsSeq-c08-%s-%d" % (label, os.getpid()))      # noqa: E731
    kw = dict(timeout=1500, extra_modules=["Nuts.tla"])
    jobs = {"beh": pool.submit(ctx.tlc, "NutsSeq", cfg="NutsSeq.beh.%s.cfg" % ctx.tier, workers=4, workdir=wd("beh"), **kw),
            "obj": pool.submit(ctx.tlc, "NutsSeq", cfg="NutsSeq.obj.%s.cfg" % ctx.tier, workers=4, workdir=wd("obj"), **kw)}
    for name in ("DevReinitKeepsCache", "DevDepthFrozenAtInit"):
        jobs["dev_" + name] = pool.submit(ctx.tlc, "NutsSeq", cfg="NutsSeq.%s.deviation.cfg" % name, workers=1, expect_violation=True,
                                          workdir=wd(name), **kw)
    pool.shutdown(wait=False)
    return jobs


def collect_tlc(ctx, jobs):
    from cuqiverif import tlc
    from cuqiverif.core import MachineryError
    out, err = {}, None
    for k, f in jobs.items():
        try:
            out[k] = f.result()
        except BaseException as e:      # noqa: BLE001
            err = err or e
    if err is not None:
        for r in out.values():
            tlc.cleanup(r)
        raise err
    ctx.model_must_hold(out["beh"], "NutsSeq/behaviours")
    ctx.model_must_hold(out["obj"], "NutsSeq/object")
    cases = list(out["beh"].cases)
    shifts = [c for c in out["obj"].cases if c.get("kind") == "shift"]
    want = {"dev_DevReinitKeepsCache": "CacheCarried", "dev_DevDepthFrozenAtInit": "DepthFollowsAttribute"}
    bad = [(k, out[k].violated) for k, inv in want.items() if out[k].ok or out[k].violated != inv]
    for r in out.values():
        tlc.cleanup(r)
    if bad:
        raise MachineryError("NutsSeq deviations did not violate their invariant: %r (vacuous invariant)" % (bad,))
    for k, inv in want.items():
        ctx.observations.setdefault("deviations_refuted_by_tlc", {})[k[4:]] = inv
    orbits = {_okey(c["orb"]): c for c in cases if c["kind"] == "orbit"}
    beh = {}
    for c in cases:
        if c["kind"] == "nuts":
            beh.setdefault((_okey(c["orb"]), c["md"]), []).append(c)
    shift = {_okey(s["orb"]): {e["c"]: (e["orb"], e["usable"]) for e in s["to"]} for s in shifts}
    if not orbits or not beh or not shift:
        raise MachineryError("NutsSeq emitted nothing (orbits %d, behaviours %d, shift rows %d)" % (len(orbits), len(beh), len(shift)))
    for k in beh:
        beh[k].sort(key=lambda c: json.dumps([c["ed"], c["draws"]], sort_keys=True))
    return orbits, beh, shift


# ======================================================================================================================
class View:
    """An orbit table as the target sees it: positions translated by x_off, finite log-densities shifted by lp_off."""

    def __init__(self, orbit, x_off=0.0, lp_off=0.0):
        NR = _NR()
        base = NR.TableTarget(orbit)
        self.T, self.eps = base.T, base.eps
        ts = list(range(-base.T, base.T + 1))
        self.x = {t: base.x[t] + x_off for t in ts}
        self.r, self.g = dict(base.r), dict(base.g)
        sh = lambda v: v + lp_off if math.isfinite(v) else v        # noqa: E731
        self.lp = {t: sh(base.lp[t]) for t in ts}
        self.H = {t: sh(base.H[t]) for t in ts}
        self.Hkind = dict(base.Hkind)
        self.pos = {self.x[t]: t for t in ts}
        if len(self.pos) != len(ts):
            from cuqiverif.core import MachineryError
            raise MachineryError("translated orbit positions are not pairwise distinct")
        self.off, self.watch = [], False

    def t_of(self, point):
        return self.pos.get(float(np.asarray(point, dtype=float).reshape(-1)[0]))

    def _logpdf(self, xx):
        t = self.t_of(xx)
        if t is None:
            if self.watch:
                self.off.append(float(np.asarray(xx, dtype=float).reshape(-1)[0]))
            return -np.inf
        return self.lp[t]

    def _grad(self, xx):
        t = self.t_of(xx)
        return np.array([self.g[t] if t is not None else 0.0])

    def distribution(self):
        import cuqi
        return cuqi.distribution.UserDefinedDistribution(dim=1, logpdf_func=self._logpdf, gradient_func=self._grad)

    def agrees_with(self, other, c):
        """ShiftLemma on the floats: this view at t = the other table at t + c (where both are defined)"""
        for t in self.x:
            if (t + c) in other.x:
                a = (self.x[t], self.g[t], self.r[t], self.lp[t])
                b = (other.x[t + c], other.g[t + c], other.r[t + c], other.lp[t + c])
                if any(not (p == q or (p != p and q != q)) for p, q in zip(a, b)):
                    return False
        return True


def _script(case, dirmap):
    NR = _NR()
    return NR.build_script(case, dirmap)


def _final_checks(out, case, view, S_point, S_logd, S_grad):
    NR = _NR()
    pt, lp, gr = NR._f(S_point), NR._f(S_logd), NR._f(S_grad)
    tsel = view.t_of(pt)
    if not math.isfinite(lp) or (tsel is not None and not math.isfinite(view.lp[tsel])):
        return out.fail("nonfinite", "a point with non-finite log-density was selected",
                        {"point": view.x[case["cur"]], "logd": view.lp[case["cur"]]}, {"point": pt, "logd": lp})
    if pt != view.x[case["cur"]]:
        return out.fail("point", "current_point is not the candidate the scripted decisions select", view.x[case["cur"]], pt)
    if lp != view.lp[case["clp"]]:
        return out.fail("cache_logd", "cached log-density does not belong to the current point under the current target", view.lp[case["clp"]], lp)
    if gr != view.g[case["cg"]]:
        return out.fail("cache_grad", "cached gradient does not belong to the current point under the current target", view.g[case["cg"]], gr)
    return out


def exp_transition(S, case, view, real, dirmap):
    """ONE more transition of the existing experimental sampler S (target = table `real`), expected = behaviour `case`
    expressed in the frame `view`."""
    NR = _NR()
    from cuqiverif.core import MachineryError
    out = NR.Outcome()
    script = _script(case, dirmap)
    default = {"normal": lambda sh: np.full(sh, view.r[0]), "exponential": lambda sh: 1.0, "uniform": lambda sh: 1e-9}
    cls = NR.nuts_classes()["experimental"]
    accs = []
    with NR.Tap(cls) as tap:
        orig = cls.__dict__["step"]

        def step(s):
            a = orig(s)
            accs.append(a)
            return a
        cls.step = step
        try:
            with NR.scripted(script, default=default):
                real.off, real.watch = [], True
                S.sample(1)
        except NR.ScriptError as ex:
            raise MachineryError("experimental NUTS asked for random draws the binding does not script: %s" % str(ex)[:200])
        except MachineryError:
            raise
        except Exception as ex:      # noqa: BLE001
            return out.fail("error", "step raised %s: %s" % (type(ex).__name__, str(ex)[:160]))
        finally:
            real.watch = False
            cls.step = orig
        view.off = list(real.off)
        bt, lf = list(tap.bt), list(tap.lf)
        NR.compare_tree(out, case, view, bt, lf, tap.orig_leapfrog, S)
    if out.mismatch:
        return out
    _final_checks(out, case, view, S.current_point, S.current_target_logd, S.current_target_grad)
    if out.mismatch:
        return out
    if len(accs) != 1 or int(accs[0]) != case["acc"]:
        return out.fail("acc", "acceptance flag returned by step()", case["acc"], accs)
    if int(S.num_tree_node_list[-1]) != case["ntree"]:
        return out.fail("ntree", "number of tree nodes reported", case["ntree"], S.num_tree_node_list[-1])
    ea, ga = NR.expected_alpha(case), float(S._current_alpha_ratio)
    if not (abs(ga - ea) <= 1e-12 * max(1.0, abs(ea))):
        return out.fail(NR.alpha_clause(case, view), "reported acceptance statistic is not the mean Metropolis probability over the "
                        "leaves of the last doubling", ea, ga)
    used = sorted({abs(b["eps"]) for b in bt})
    if used != [view.eps]:
        return out.fail("step_size", "step size used by the transition", [view.eps], used)
    return out


def legacy_call(S, case, view, real, dirmap):
    """one sample(3) call of the existing legacy sampler S: transition 1 = behaviour `case`, transition 2 = probe"""
    NR = _NR()
    from cuqiverif.core import MachineryError
    out = NR.Outcome()
    script = _script(case, dirmap)
    marks = {}
    default = {"normal": lambda sh: np.full(sh, 0.5), "exponential": lambda sh: 1.0, "uniform": lambda sh: 0.75}
    first = {"normal": lambda sh: np.full(sh, view.r[0]), "exponential": lambda sh: 1.0, "uniform": lambda sh: 1e-9}
    cls = NR.nuts_classes()["legacy"]
    with NR.Tap(cls) as tap:
        st = NR.Stream(script, dict(first))

        def cb(sample, k):
            if k == 1:
                marks.update(nbt=len(tap.bt), nlf=len(tap.lf), off=list(real.off))
                real.watch = False
                st.q = {}
                st.default = default
        S.callback = cb
        try:
            with NR.scripted(stream=st):
                real.off, real.watch = [], True
                res = S.sample(3)
        except MachineryError:
            raise
        except Exception as ex:      # noqa: BLE001
            return out.fail("error", "sample raised %s: %s" % (type(ex).__name__, str(ex)[:160])), None
        finally:
            real.watch = False
        if "nbt" not in marks:
            raise MachineryError("legacy NUTS did not invoke the callback after the first transition")
        view.off = marks["off"]
        bt, lf = tap.bt[:marks["nbt"]], tap.lf[:marks["nlf"]]
        probe_bt = tap.bt[marks["nbt"]:]
        NR.compare_tree(out, case, view, bt, lf, tap.orig_leapfrog, S)
    if out.mismatch:
        return out, None
    smp = np.asarray(res.samples, dtype=float)
    pt = float(smp[0, 1])
    ll = getattr(res, "loglike_eval", None)
    ptop = [b for b in probe_bt if b["top"]]
    if not ptop:
        raise MachineryError("probe transition of the legacy sampler made no top-level _BuildTree call")
    p0 = ptop[0]
    used_lp = p0["Ham"] + 0.5 * NR._f(p0["r"]) ** 2
    _final_checks(out, case, view, pt, float(ll[1]) if ll is not None else used_lp, p0["g"])
    if out.mismatch:
        return out, pt
    if NR._f(p0["x"]) != view.x[case["cur"]]:
        return out.fail("point", "the next transition does not start from the selected point", view.x[case["cur"]], NR._f(p0["x"])), pt
    if not abs(used_lp - view.lp[case["clp"]]) <= 1e-12 * max(1.0, abs(used_lp)):
        return out.fail("cache_logd", "log-density used by the next transition does not belong to the current point", view.lp[case["clp"]], used_lp), pt
    used = sorted({abs(b["eps"]) for b in bt})
    if used != [view.eps]:
        return out.fail("step_size", "step size used by the transition", [view.eps], used), pt
    return out, pt


# ======================================================================================================================
class Lattice:
    def __init__(self, orbits, beh, shift, rng):
        self.orbits, self.beh, self.shift, self.rng = orbits, beh, shift, rng
        self.flat = sorted(k for k, o in orbits.items() if o["orb"][2] == [0] and k in shift)
        self.all = sorted(orbits)

    def pick_behaviour(self, key, md, want_move):
        lst = self.beh.get((key, md)) or []
        if not lst:
            return None
        if want_move:
            mv = [c for c in lst if c["cur"] != 0 and abs(c["cur"]) <= 3]
            if mv:
                return self.rng.choice(mv)
        return self.rng.choice(lst)

    def other_target(self, key, flat=None):
        cand = [k for k in (self.flat if flat else self.all) if k != key and ((k, 0) in self.beh or (k, 1) in self.beh)]
        return self.rng.choice(cand)


def _sig(impl, clause, op, md, eps):
    return "seq/%s/%s/after=%s/md=%d/eps=%s" % (impl, clause, op, md, eps)


def walk_experimental(ctx, L, dirmap, wi, n_ops):
    """one seeded walk of the object machine on ONE cuqi.experimental.mcmc.NUTS object"""
    import cuqi
    from cuqiverif import zoo
    rng = L.rng
    key = rng.choice(L.flat)
    md = rng.choice([0, 1])
    x_off, lp_off, a = float(rng.choice([0.0, 2.5, -1.25])), 0.0, 0
    base = View(L.orbits[key], x_off, lp_off)
    base_key = key
    real = base
    with zoo.quiet():
        S = cuqi.experimental.mcmc.NUTS(real.distribution(), step_size=real.eps, max_depth=md, initial_point=np.array([real.x[0]]))
    history = ["new(%s,md=%d)" % (L.orbits[key]["orb"][:2], md)]
    carry = {"kind": "nutsseq", "impl": "experimental", "walk": wi, "seed": ctx.seed, "history": history}
    last_op = "construct"
    ntrans = 0
    for step in range(n_ops):
        op = rng.choice(["trans", "trans", "trans", "set_md", "switch"]) if step else "trans"
        if op == "set_md":
            md = 1 - md
            S.max_depth = md
            history.append("max_depth=%d" % md)
            last_op = "set_max_depth"
            continue
        if op == "switch" or abs(a) > AMAX or key is None:
            nk = L.other_target(base_key, flat=rng.random() < 0.5)
            cur_pt = float(np.asarray(S.current_point, dtype=float).reshape(-1)[0])
            lp_off = lp_off + 0.75
            real = View(L.orbits[nk], cur_pt - 0.0, lp_off)          # orbit centred at the current point (x_0 = 0 in every orbit)
            key = base_key = nk
            base, a = real, 0
            if rng.random() < 0.5:
                md = 1 - md
                S.max_depth = md
            with zoo.quiet():
                S.target = real.distribution()
                S.step_size = real.eps
                S.initial_point = S.current_point
                S.reinitialize()
            history.append("switch(%s,eps=%s,md=%d)" % (L.orbits[nk]["orb"][:4], real.eps, md))
            last_op = "switch_target"
            ctx.case(("seq", "experimental", "reinit", wi, step), facet="seq/experimental/reinit")
            sg = _sig("experimental", "%s", last_op, md, real.eps)
            got = (float(np.asarray(S.current_point).reshape(-1)[0]), float(np.asarray(S.current_target_logd).reshape(-1)[0]),
                   float(np.asarray(S.current_target_grad).reshape(-1)[0]), S.max_depth)
            want = (cur_pt, real.lp[0], real.g[0], md)
            for nm, g, w in zip(("point", "cache_logd", "cache_grad", "max_depth"), got, want):
                if g != w:
                    ctx.mismatch(sg % ("reinit_" + nm), dict(carry, history=list(history)), "after target assignment and reinitialize() "
                                 "%s is not that of the current point under the new target / the attribute" % nm, w, g)
                    return ntrans
            continue
        # one transition of the configuration the machine is in
        case = L.pick_behaviour(key, md, want_move=rng.random() < 0.8)
        if case is None:
            key = None
            continue
        view = View(L.orbits[key], real.x[a] if a in real.x else 0.0, lp_off)
        if key != base_key and not view.agrees_with(base, a):
            from cuqiverif.core import MachineryError
            raise MachineryError("ShiftLemma does not hold on the floats for %s shifted by %d" % (base_key, a))
        ctx.case(("seq", "experimental", wi, step, key, md, tuple((d["k"], d["cls"]) for d in case["draws"])), facet="seq/experimental/trans")
        out = exp_transition(S, case, view, real, dirmap)
        history.append("trans(md=%d,cur=%d)" % (md, case["cur"]))
        if out.mismatch:
            mm = out.mismatch
            ctx.mismatch(_sig("experimental", mm[0], last_op, md, real.eps), dict(carry, history=list(history), behaviour=case, orbit=L.orbits[key]),
                         "transition %d of ONE sampler object (after %s): %s" % (ntrans + 1, last_op, mm[1]), mm[2], mm[3])
            return ntrans
        ntrans += 1
        last_op = "transition"
        c = case["cur"]
        if c != 0:
            nxt = L.shift.get(key, {}).get(c)
            a += c
            if nxt is None or not nxt[1] or _okey(nxt[0]) not in L.orbits:
                key = None                       # the continuation is not an orbit of the instance: switch the target next
            else:
                key = _okey(nxt[0])
    return ntrans


def walk_legacy(ctx, L, dirmap, wi, n_calls):
    """sample() calls on ONE cuqi.sampler.NUTS object with max_depth / adapt_step_size / x0 / target reassigned in between"""
    import cuqi
    from cuqiverif import zoo
    rng = L.rng
    key = rng.choice(L.flat)
    md = rng.choice([0, 1])
    lp_off = 0.0
    real = View(L.orbits[key], 0.0, lp_off)
    with zoo.quiet():
        S = cuqi.sampler.NUTS(real.distribution(), x0=np.array([real.x[0]]), max_depth=md, adapt_step_size=real.eps)
    history = ["new(%s,md=%d)" % (L.orbits[key]["orb"][:2], md)]
    carry = {"kind": "nutsseq", "impl": "legacy", "walk": wi, "seed": ctx.seed}
    last_op = "construct"
    base, base_key, a = real, key, 0
    n = 0
    for call in range(n_calls):
        if call:
            op = rng.choice(["set_md", "x0", "switch"])
            if op == "set_md":
                md = 1 - md
                S.max_depth = md
                last_op = "set_max_depth"
            if op == "switch" or key is None or abs(a) > AMAX:
                nk = L.other_target(base_key, flat=rng.random() < 0.5)
                lp_off += 0.75
                x0 = float(rng.choice([0.0, 1.5]))
                real = View(L.orbits[nk], x0, lp_off)
                key = base_key = nk
                base, a = real, 0
                with zoo.quiet():
                    S.target = real.distribution()
                    S.adapt_step_size = real.eps
                    S.x0 = np.array([real.x[0]])
                last_op = "switch_target"
            elif op == "x0":
                last_op = "x0_moved"
            history.append(last_op)
        case = L.pick_behaviour(key, md, want_move=True)
        if case is None:
            key = None
            continue
        view = View(L.orbits[key], real.x[a] if a in real.x else 0.0, lp_off)
        if key != base_key and not view.agrees_with(base, a):
            from cuqiverif.core import MachineryError
            raise MachineryError("ShiftLemma does not hold on the floats for %s shifted by %d" % (base_key, a))
        S.x0 = np.array([view.x[0]])                 # the chain continues where the previous call's first transition ended
        ctx.case(("seq", "legacy", wi, call, key, md, tuple((d["k"], d["cls"]) for d in case["draws"])), facet="seq/legacy/call")
        with zoo.quiet():
            out, pt = legacy_call(S, case, view, real, dirmap)
        history.append("sample(md=%d,cur=%d)" % (md, case["cur"]))
        if out.mismatch:
            mm = out.mismatch
            ctx.mismatch(_sig("legacy", mm[0], last_op, md, real.eps), dict(carry, history=list(history), behaviour=case, orbit=L.orbits[key]),
                         "sample() call %d on ONE sampler object (after %s): %s" % (call + 1, last_op, mm[1]), mm[2], mm[3])
            return n
        n += 1
        c = case["cur"]
        if c != 0:
            nxt = L.shift.get(key, {}).get(c)
            a += c
            key = _okey(nxt[0]) if (nxt is not None and nxt[1] and _okey(nxt[0]) in L.orbits) else None
    return n


def observe_step_size_without_reinit(ctx, L, dirmap):
    """`step_size` assigned on an initialised sampler WITHOUT reinitialising: documented as 'initial step size' - observation"""
    import cuqi
    from cuqiverif import zoo
    NR = _NR()
    key = L.flat[0]
    real = View(L.orbits[key])
    other = 0.5 if real.eps == 1.0 else 1.0
    try:
        with zoo.quiet():
            S = cuqi.experimental.mcmc.NUTS(real.distribution(), step_size=real.eps, max_depth=0, initial_point=np.array([real.x[0]]))
            S.sample(1)
            S.step_size = other
            cls = NR.nuts_classes()["experimental"]
            with NR.Tap(cls) as tap:
                S.sample(1)
                used = sorted({abs(b["eps"]) for b in tap.bt})
        ctx.observe("seq_step_size_assigned_without_reinitialize", {"assigned": other, "used_by_next_transition": used})
    except Exception as e:      # noqa: BLE001
        ctx.observe("seq_step_size_assigned_without_reinitialize", {"assigned": other, "raises": repr(e)[:120]})


def run(ctx, jobs, dirmap, guard):
    """guard: context manager factory (CPU-time watchdog of props/c08.py)"""
    from cuqiverif.core import MachineryError
    orbits, beh, shift = collect_tlc(ctx, jobs)
    n_walks, n_ops = (24, 7) if ctx.tier == "quick" else (150, 10)
    tot = {"experimental": 0, "legacy": 0}
    rs = np.random.get_state()
    try:
        for wi in range(n_walks):
            for impl, fn, k in (("experimental", walk_experimental, n_ops), ("legacy", walk_legacy, max(3, n_ops // 2))):
                L = Lattice(orbits, beh, shift, random.Random(1000003 * ctx.seed + 7919 * wi + (0 if impl == "experimental" else 1)))
                try:
                    with guard(120):
                        tot[impl] += fn(ctx, L, dirmap[impl], wi, k)
                    ctx.traces += 1
                except MachineryError:
                    raise
                except BaseException as ex:      # noqa: BLE001
                    if type(ex).__name__ == "_Hang":
                        ctx.mismatch("seq/%s/hang" % impl, {"kind": "nutsseq", "impl": impl, "walk": wi, "seed": ctx.seed},
                                     "a walk on one sampler object did not terminate within 120 s of CPU time")
                    else:
                        raise
        L = Lattice(orbits, beh, shift, random.Random(ctx.seed))
        observe_step_size_without_reinit(ctx, L, dirmap)
    finally:
        np.random.set_state(rs)
    ctx.observe("seq_walks", {"walks_per_interface": n_walks, "transitions": tot, "behaviours_available": sum(len(v) for v in beh.values()),
                              "orbits": len(orbits)})
    if (tot["experimental"] < n_walks or tot["legacy"] < n_walks) and not ctx.violations:
        raise MachineryError("sequence walks made too few transitions (%r): facet vacuous" % (tot,))
    return orbits, beh, shift


def replay(ctx, case, dirmap, guard):
    """re-run the walk of the stored case (same seed, same walk index) on freshly emitted behaviours"""
    from cuqiverif import tlc
    jobs = start_tlc(ctx)
    orbits, beh, shift = collect_tlc(ctx, jobs)
    impl = case["impl"]
    seed, wi = case.get("seed", ctx.seed), case["walk"]
    n_ops = 7 if ctx.tier == "quick" else 10
    L = Lattice(orbits, beh, shift, random.Random(1000003 * seed + 7919 * wi + (0 if impl == "experimental" else 1)))
    fn, k = (walk_experimental, n_ops) if impl == "experimental" else (walk_legacy, max(3, n_ops // 2))
    with guard(120):
        fn(ctx, L, dirmap[impl], wi, k)
