"""Thin driver around TLC: run a spec + cfg, parse statistics, coverage, emitted cases."""
import json, os, re, shutil, subprocess, time, glob

ROOT = os.path.dirname(os.path.dirname(os.path.dirname(os.path.abspath(__file__))))
SPECS = os.path.join(ROOT, "specs")
WORK = os.path.join(ROOT, ".work")
JAR = "/opt/veriftools/tla/tla2tools.jar:/opt/veriftools/tla/CommunityModules-deps.jar"

CASE_RE = re.compile(r'@@CASE (.*?) @@END', re.S)


class MachineryError(Exception):
    """TLC crashed / output unparsable / vacuous coverage: exit code 2, never a VIOLATION."""


class TLCResult:
    def __init__(self):
        self.ok = False              # no invariant / property violation, finished
        self.violated = None         # name of violated invariant/property (if any)
        self.generated = 0
        self.distinct = 0
        self.depth = 0
        self.cases = []              # parsed JSON cases emitted with @@CASE ... @@END
        self.coverage = {}           # action name -> (distinct, total) when -coverage
        self.stdout = ""
        self.wall_s = 0.0
        self.cmd = ""
        self.postcondition_failed = False
        self.errors = []


def _prepare(workdir, modules):
    os.makedirs(workdir, exist_ok=True)
    # copy library + requested spec modules into the work dir (TLC resolves EXTENDS in cwd)
    for f in glob.glob(os.path.join(SPECS, "lib", "*.tla")):
        shutil.copy(f, workdir)
    for m in modules:
        shutil.copy(os.path.join(SPECS, m), workdir)


def run_tlc(spec, cfg=None, cfg_text=None, workdir=None, workers=16, mode="check", simulate=None, depth=None,
            seed=None, coverage=False, env=None, timeout=1200, extra_modules=(), deque=False, heap="4g",
            expect_violation=False, dfid=None):
    """Run TLC on specs/<spec>.tla with cfg specs/cfg/<cfg> (or literal cfg_text).

    mode: 'check' (BFS) or 'simulate' (needs simulate='num=..' string).
    Returns TLCResult.  Raises MachineryError on crash/timeout/parse errors.
    """
    name = os.path.splitext(os.path.basename(spec))[0]
    workdir = workdir or os.path.join(WORK, "%s-%d-%d" % (name, os.getpid(), int(time.time() * 1000) % 10**7))
    mods = [spec if spec.endswith(".tla") else spec + ".tla"] + list(extra_modules)
    _prepare(workdir, mods)
    cfgpath = os.path.join(workdir, name + ".run.cfg")
    if cfg_text is None:
        cfg_text = open(os.path.join(SPECS, "cfg", cfg)).read()
    open(cfgpath, "w").write(cfg_text)
    # TLC unpacks its standard modules into java.io.tmpdir (/tmp/tlc-*) and leaves them behind when it is killed:
    # keep them inside the work directory, which is removed with it
    jtmp = os.path.join(workdir, "jtmp")
    os.makedirs(jtmp, exist_ok=True)
    jopts = ["-XX:+UseParallelGC", "-Xmx" + heap, "-Djava.io.tmpdir=" + jtmp]
    if deque:
        jopts.append("-Dtlc2.tool.queue.IStateQueue=StateDeque")
    cmd = ["java"] + jopts + ["-cp", JAR, "tlc2.TLC", "-workers", str(workers), "-metadir",
                              os.path.join(workdir, "states"), "-noGenerateSpecTE", "-config", cfgpath]
    if coverage:
        cmd += ["-coverage", "1"]
    if mode == "simulate":
        cmd += ["-simulate", simulate or "num=1000"]
        if depth:
            cmd += ["-depth", str(depth)]
    if dfid:
        cmd += ["-dfid", str(dfid)]
    if seed is not None:
        cmd += ["-seed", str(seed)]
    cmd += [name + ".tla"]
    e = dict(os.environ)
    e.pop("JAVA_TOOL_OPTIONS", None)
    if env:
        e.update({k: str(v) for k, v in env.items()})
    res = TLCResult()
    res.cmd = " ".join(cmd)
    t0 = time.time()
    for attempt in range(3):
        try:
            p = subprocess.run(cmd, cwd=workdir, env=e, stdout=subprocess.PIPE, stderr=subprocess.STDOUT,
                               timeout=timeout, text=True)
        except subprocess.TimeoutExpired:
            # subprocess.run has killed the JVM; `workdir` contains our own pid, so this can only hit our own stragglers
            subprocess.run(["pkill", "-f", workdir], check=False)
            if not os.environ.get("VERIF_KEEP_WORK"):
                cleanup(workdir)
            raise MachineryError("TLC timeout after %ss: %s" % (timeout, res.cmd))
        # killed from outside (another process cleaning up "all TLC" with pkill): run again
        if p.returncode in (143, 137, 130, -15, -9) and "Finished in" not in p.stdout:
            shutil.rmtree(os.path.join(workdir, "states"), ignore_errors=True)
            time.sleep(1 + attempt)
            continue
        break
    else:
        tail = "\n".join(p.stdout.splitlines()[-10:])
        if not os.environ.get("VERIF_KEEP_WORK"):
            cleanup(workdir)
        raise MachineryError("TLC was killed from outside three times (rc=%s): %s\n%s" % (p.returncode, res.cmd, tail))
    res.wall_s = time.time() - t0
    out = p.stdout
    res.stdout = out
    res.workdir = workdir
    # --- parse ---
    for m in CASE_RE.finditer(out):
        txt = m.group(1).strip()
        # PrintT of a string prints it quoted with escapes: "...\"..." ; strip quotes if present
        try:
            res.cases.append(json.loads(txt))
        except Exception:
            try:
                res.cases.append(json.loads(json.loads('"' + txt + '"')))
            except Exception as ex:
                raise MachineryError("cannot parse emitted case: %r (%s)" % (txt[:200], ex))
    ms = re.findall(r'(\d+) states generated, (\d+) distinct states found', out)
    if ms:
        res.generated, res.distinct = int(ms[-1][0]), int(ms[-1][1])      # the last line is the final count
    elif mode == "simulate":
        # simulation mode reports "The number of states generated: N" (no fingerprint set, hence no distinct count);
        # every generated state is a state of some behaviour that was checked against the invariants
        m = re.findall(r'The number of states generated: (\d+)', out)
        if m:
            res.generated = res.distinct = int(m[-1])
        mt = re.findall(r'Generated (\d+) traces?', out) or re.findall(r'(\d+) traces? generated', out)
        res.sim_traces = int(mt[-1]) if mt else None
    m = re.search(r'depth of the complete state graph search is (\d+)', out)
    if m:
        res.depth = int(m.group(1))
    if coverage:
        # lines like: <Action line 12, col 1 to line 14, col 30 of module X>: 12:345
        # a disjunct of Next that is not an operator application is reported under the name of the enclosing definition
        # with its own location appended: "<Next line 112, ... of module M (113 12 113 111)>: 8:62"  ->  key "Next@113"
        for cm in re.finditer(r'<(\w+) line \d+, col \d+ to line \d+, col \d+ of module (\w+)(?: \((\d+) \d+ \d+ \d+\))?>: (\d+):(\d+)', out):
            key = cm.group(1) if cm.group(3) is None else "%s@%s" % (cm.group(1), cm.group(3))
            d, t = int(cm.group(4)), int(cm.group(5))
            od, ot = res.coverage.get(key, (0, 0))
            res.coverage[key] = (max(od, d), max(ot, t))
    viol = re.search(r'Error: Invariant (\S+) is violated', out) or \
        re.search(r'Error: Action property (\S+) is violated', out) or \
        re.search(r'Error: Temporal property (\S+) was violated', out) or \
        re.search(r'Error: Temporal properties were violated', out)
    if viol:
        res.violated = viol.group(1) if viol.groups() else "temporal"
    if re.search(r'Error: Deadlock reached', out):
        res.violated = "Deadlock"
    if "is violated by the initial state" in out:
        m2 = re.search(r'Invariant (\S+) is violated by the initial state', out)
        res.violated = m2.group(1) if m2 else "initial"
    if re.search(r'postcondition.*(violated|false)', out, re.I) or "Error: The postcondition" in out:
        res.postcondition_failed = True
    finished = ("Model checking completed" in out) or ("Finished in" in out)
    hard_errors = [l for l in out.splitlines() if l.startswith("Error:") or "Exception" in l and "java." in l]
    res.errors = hard_errors
    if res.violated or res.postcondition_failed:
        res.ok = False
        return res
    if p.returncode != 0 or not finished or hard_errors:
        tail = "\n".join(out.splitlines()[-40:])
        if not os.environ.get("VERIF_KEEP_WORK"):
            cleanup(workdir)
        raise MachineryError("TLC failed (rc=%s): %s\n%s" % (p.returncode, res.cmd, tail))
    res.ok = True
    return res


def cleanup(res_or_dir):
    d = res_or_dir if isinstance(res_or_dir, str) else getattr(res_or_dir, "workdir", None)
    if d and os.path.isdir(d) and os.path.abspath(d).startswith(os.path.abspath(WORK)):
        shutil.rmtree(d, ignore_errors=True)
