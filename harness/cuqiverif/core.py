"""Run context shared by all property checks: mismatch collection, known findings, evidence, replay files."""
import fnmatch, hashlib, json, os, sys, time, traceback

from . import tlc as _tlc
from .tlc import MachineryError

ROOT = _tlc.ROOT
EVID = os.path.join(ROOT, "evidence")
REPLAYS = os.path.join(ROOT, "replays")
FINDINGS = os.path.join(ROOT, "known_findings.json")


def _jsonable(x):
    import numpy as np
    if isinstance(x, dict):
        return {str(k): _jsonable(v) for k, v in x.items()}
    if isinstance(x, (list, tuple)):
        return [_jsonable(v) for v in x]
    if isinstance(x, np.ndarray):
        return _jsonable(x.tolist())
    if isinstance(x, (np.integer,)):
        return int(x)
    if isinstance(x, (np.floating,)):
        return float(x)
    if isinstance(x, (np.bool_,)):
        return bool(x)
    if isinstance(x, complex):
        return [x.real, x.imag]
    if isinstance(x, float) and (x != x or x in (float("inf"), float("-inf"))):
        return repr(x)
    if isinstance(x, (str, int, float, bool)) or x is None:
        return x
    return repr(x)


def load_findings():
    out = []
    if os.path.exists(FINDINGS):
        out += json.load(open(FINDINGS)).get("findings", [])
    # development drop-ins (merged into known_findings.json at integration time)
    import glob
    for f in sorted(glob.glob(os.path.join(ROOT, "known_findings.d", "*.json"))):
        out += json.load(open(f)).get("findings", [])
    return out


class Run:
    """One execution of one property's check."""

    def __init__(self, pid, tier, seed, replay=None):
        self.pid, self.tier, self.seed = pid, tier, seed
        self.t0 = time.time()
        self.states = 0
        self.transitions = 0
        self.tlc_runs = []            # dicts: spec, cfg, distinct, generated, depth, wall_s, coverage
        self.evaluations = 0          # cases replayed into / compared with the implementation
        self.case_keys = set()        # distinct non-trivial case keys
        self.traces = 0               # behaviours replayed + recorded traces accepted
        self.samples = []
        self.violations = []          # unlisted mismatches
        self.known_hits = {}          # finding id -> count
        self.observations = {}
        self.assumptions = []
        self.trusted_base = ["TLC 1.8.0 (tla2tools.jar)", "CPython /venv + numpy/scipy", "harness/cuqiverif"]
        self.rule = ""
        self.exhaustive = False
        self.findings = [f for f in load_findings() if f.get("property") == pid and f.get("status", "open") == "open"]
        self.replay_mode = replay is not None
        self.facets = {}              # facet -> count of cases

    # ----- TLC -------------------------------------------------------------
    def tlc(self, spec, cfg=None, **kw):
        """Run TLC; account its states/transitions; an unexpected violation of the *model* is a machinery
        failure for conformance purposes but is reported as a VIOLATION of the property on the model."""
        need_cov = kw.pop("require_actions", None)
        if need_cov:
            kw["coverage"] = True
        res = _tlc.run_tlc(spec, cfg=cfg, **kw)
        self.states += res.distinct
        self.transitions += res.generated
        self.tlc_runs.append({"spec": spec, "cfg": cfg or "<inline>", "distinct": res.distinct,
                              "generated": res.generated, "depth": res.depth, "wall_s": round(res.wall_s, 2),
                              "cases": len(res.cases), "violated": res.violated,
                              "coverage": {k: list(v) for k, v in res.coverage.items()} if res.coverage else None})
        if need_cov and res.ok:
            for a in need_cov:
                if res.coverage.get(a, (0, 0))[1] == 0:
                    raise MachineryError("vacuous model: action %s of %s never taken (coverage %r)" % (a, spec, res.coverage))
        return res

    def model_must_hold(self, res, what):
        """The bounded model itself must satisfy its invariants; otherwise the property fails on the spec."""
        if not res.ok:
            self.mismatch("model/%s/%s" % (what, res.violated or "postcondition"),
                          {"kind": "model", "spec": what},
                          "TLC reports %s violated on the specification itself" % (res.violated or "postcondition"),
                          detail={"tlc_tail": res.stdout.splitlines()[-60:]})

    # ----- conformance accounting -----------------------------------------
    def case(self, key, nontrivial=True, facet=None):
        self.evaluations += 1
        if nontrivial:
            self.case_keys.add(key if isinstance(key, str) else json.dumps(_jsonable(key), sort_keys=True))
        if facet:
            self.facets[facet] = self.facets.get(facet, 0) + 1

    def sample(self, obj, limit=6):
        if len(self.samples) < limit:
            self.samples.append(_jsonable(obj))

    def observe(self, key, value):
        self.observations[key] = _jsonable(value)

    def mismatch(self, signature, case, what, expected=None, observed=None, detail=None):
        """Record a conformance mismatch.  `signature` is a '/'-separated stable string identifying the failing
        input / call site; it is matched against known_findings.json (fnmatch patterns)."""
        for f in self.findings:
            if any(fnmatch.fnmatchcase(signature, pat) for pat in f["signatures"]):
                self.known_hits.setdefault(f["id"], {"count": 0, "what": f["what"], "example": signature})
                self.known_hits[f["id"]]["count"] += 1
                return False
        self.violations.append({"signature": signature, "case": _jsonable(case), "what": what,
                                "expected": _jsonable(expected), "observed": _jsonable(observed),
                                "detail": _jsonable(detail)})
        return True

    # ----- finish -----------------------------------------------------------
    def finish(self, error=None):
        wall = time.time() - self.t0
        global EVID, REPLAYS
        if os.environ.get("CUQIVERIF_REPO", "/repo") != "/repo":
            # development runs against a scratch worktree (seeded changes) must not overwrite the evidence of /repo
            EVID = os.path.join(ROOT, ".work", "evidence-dev")
            REPLAYS = os.path.join(ROOT, ".work", "replays-dev")
        os.makedirs(EVID, exist_ok=True)
        os.makedirs(REPLAYS, exist_ok=True)
        lines = []
        for fid, h in sorted(self.known_hits.items()):
            lines.append("KNOWN-FINDING: property=%s %s [%s; %d case(s), e.g. %s]" % (self.pid, h["what"], fid, h["count"], h["example"]))
        # group violations by signature; one replay file per signature (max 20 reported)
        seen = {}
        for v in self.violations:
            seen.setdefault(v["signature"], []).append(v)
        vio_lines = []
        for sig, vs in list(seen.items())[:20]:
            sha = hashlib.sha1(sig.encode()).hexdigest()[:10]
            path = os.path.join(REPLAYS, "%s-%s.json" % (self.pid, sha))
            json.dump({"property": self.pid, "signature": sig, "n_cases": len(vs), "first": vs[0], "others": [x["case"] for x in vs[1:6]]},
                      open(path, "w"), indent=1)
            vio_lines.append("VIOLATION property=%s replay=%s" % (self.pid, path))
            vio_lines.append("  what: %s | signature: %s | expected=%s observed=%s" % (
                vs[0]["what"], sig, json.dumps(vs[0]["expected"])[:300], json.dumps(vs[0]["observed"])[:300]))
        if not self.replay_mode:
            cov = {
                "states": max(self.states, 0),
                "transitions": max(self.transitions, 0),
                "traces_validated_against_impl": self.traces,
                "samples": self.samples or [{"note": "no sample recorded"}],
                "evaluations": self.evaluations,
                "distinct_nontrivial": len(self.case_keys),
                "rule": self.rule,
                "exhaustive": bool(self.exhaustive),
                "trusted_base": self.trusted_base,
                "tlc_runs": self.tlc_runs,
                "facets": self.facets,
                "observations": self.observations,
                "known_findings_hit": {k: v["count"] for k, v in self.known_hits.items()},
            }
            ev = {"property_id": self.pid, "tier": self.tier, "seed": int(self.seed), "level": "model_checking",
                  "coverage": cov, "assumptions": self.assumptions, "wall_s": round(wall, 2),
                  "violations": len(seen)}
            if error:
                ev["coverage"]["machinery_error"] = str(error)[:2000]
            json.dump(ev, open(os.path.join(EVID, "%s.json" % self.pid), "w"), indent=1)
        for l in lines:
            print(l)
        for l in vio_lines:
            print(l)
        if error:
            print("MACHINERY-ERROR property=%s %s" % (self.pid, str(error)[:3000]))
            if not seen:
                return 2
            # violations were demonstrated before the machinery gave up (e.g. a vacuity guard tripping because every
            # recorded trace of a broken tree is rejected): the violations stand
        print("%s %s tier=%s seed=%s: tlc states=%d transitions=%d, impl cases=%d (distinct %d), traces=%d, "
              "violations=%d, known=%d, %.1fs" % ("FAIL" if seen else "OK", self.pid, self.tier, self.seed, self.states,
                                                 self.transitions, self.evaluations, len(self.case_keys), self.traces,
                                                 len(seen), len(self.known_hits), wall))
        return 1 if seen else 0
