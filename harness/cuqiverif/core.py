"""Run context shared by all property checks: mismatch collection, known findings, evidence, replay files."""
import fnmatch, hashlib, json, os, re, shutil, sys, time, traceback

from . import tlc as _tlc
from .tlc import MachineryError

ROOT = _tlc.ROOT
EVID = os.path.join(ROOT, "evidence")
REPLAYS = os.path.join(ROOT, "replays")
FINDINGS = os.path.join(ROOT, "known_findings.json")


def _jsonable(x):
    import numpy as np
    if isinstance(x, dict):
        return {str(k): _jsonable(v) for k, v in x.items()}
    if isinstance(x, (list, tuple)):
        return [_jsonable(v) for v in x]
    if isinstance(x, np.ndarray):
        return _jsonable(x.tolist())
    if isinstance(x, (np.bool_,)):
        return bool(x)
    if isinstance(x, (np.integer,)):
        return int(x)
    if isinstance(x, (np.floating,)):
        x = float(x)
    if isinstance(x, (complex, np.complexfloating)):
        return [_jsonable(float(x.real)), _jsonable(float(x.imag))]
    if isinstance(x, float) and (x != x or x in (float("inf"), float("-inf"))):
        return repr(x)          # strict JSON has no NaN / Infinity
    if isinstance(x, (set, frozenset)):
        return sorted((_jsonable(v) for v in x), key=repr)
    if isinstance(x, (str, int, float, bool)) or x is None:
        return x
    return repr(x)


def _too_broad(pat):
    """A known-finding signature must name the failing call site: a pattern that consists of wildcards only, or whose
    first '/'-component (the facet) is a wildcard, would also swallow *other* violations of the same property."""
    parts = pat.split("/")
    literal = re.sub(r"[*?\[\]]", "", pat)
    return len(literal.replace("/", "")) < 4 or any(c in parts[0] for c in "*?[")


def load_findings():
    out = []
    try:
        if os.path.exists(FINDINGS):
            out += json.load(open(FINDINGS)).get("findings", [])
        # development drop-ins (merged into known_findings.json at integration time)
        import glob
        for f in sorted(glob.glob(os.path.join(ROOT, "known_findings.d", "*.json"))):
            out += json.load(open(f)).get("findings", [])
    except (ValueError, OSError) as ex:
        raise MachineryError("known findings cannot be read: %s" % ex)
    for f in out:
        if not isinstance(f.get("signatures", []), list) or any(not isinstance(p, str) for p in f.get("signatures", [])):
            raise MachineryError("known finding %s: signatures must be a list of strings" % f.get("id"))
        for pat in f.get("signatures", []):
            if f.get("status", "open") == "open" and _too_broad(pat):
                raise MachineryError("known finding %s: signature pattern %r is too broad (would hide other violations)" % (f.get("id"), pat))
    return out


def evidence_problems(ev):
    """The rules of /root/.vp/EVIDENCE.schema.json that apply to the files written here (no jsonschema package in /venv).
    Returns a list of problems (empty = valid)."""
    bad = []
    for k in ("property_id", "tier", "seed", "level", "coverage", "wall_s"):
        if k not in ev:
            bad.append("missing " + k)
    if bad:
        return bad
    if not isinstance(ev["property_id"], str):
        bad.append("property_id")
    if ev["tier"] not in ("quick", "thorough"):
        bad.append("tier")
    if not isinstance(ev["seed"], int) or isinstance(ev["seed"], bool):
        bad.append("seed")
    if not isinstance(ev["wall_s"], (int, float)) or isinstance(ev["wall_s"], bool):
        bad.append("wall_s")
    if "violations" in ev and (not isinstance(ev["violations"], int) or isinstance(ev["violations"], bool)):
        bad.append("violations")
    if "assumptions" in ev and not (isinstance(ev["assumptions"], list) and all(isinstance(a, str) for a in ev["assumptions"])):
        bad.append("assumptions")
    cov = ev["coverage"]
    if not isinstance(cov, dict):
        return bad + ["coverage"]
    def isint(x, lo=0):
        return isinstance(x, int) and not isinstance(x, bool) and x >= lo
    for k in ("evaluations", "distinct_nontrivial", "states", "transitions", "traces_validated_against_impl"):
        if k in cov and not isint(cov[k]):
            bad.append("coverage." + k)
    if "rule" in cov and not isinstance(cov["rule"], str):
        bad.append("coverage.rule")
    if "samples" in cov and not isinstance(cov["samples"], list):
        bad.append("coverage.samples")
    if "exhaustive" in cov and not isinstance(cov["exhaustive"], bool):
        bad.append("coverage.exhaustive")
    if "trusted_base" in cov and not (isinstance(cov["trusted_base"], list) and all(isinstance(a, str) for a in cov["trusted_base"])):
        bad.append("coverage.trusted_base")
    def fallback():
        if not (isint(cov.get("evaluations"), 1) and isint(cov.get("distinct_nontrivial"), 2)):
            bad.append("generic fallback: evaluations >= 1 and distinct_nontrivial >= 2 needed")
        if "samples" in cov and len(cov["samples"]) < 1:
            bad.append("coverage.samples empty")
    if ev["level"] == "model_checking":
        if all(k in cov for k in ("states", "transitions", "traces_validated_against_impl", "samples")):
            if not (isint(cov["states"], 1) and isint(cov["transitions"], 1) and isinstance(cov["samples"], list) and len(cov["samples"]) >= 1):
                bad.append("model_checking: states >= 1, transitions >= 1, samples non-empty needed")
        else:
            fallback()
    elif ev["level"] == "other":
        if "explanation" in cov:
            if not (isinstance(cov["explanation"], str) and cov["explanation"].strip()):
                bad.append("coverage.explanation")
        else:
            fallback()
    else:
        bad.append("level %r is not written by this machinery" % (ev["level"],))
    return bad


class Run:
    """One execution of one property's check."""

    def __init__(self, pid, tier, seed, replay=None):
        self.pid, self.tier, self.seed = pid, tier, seed
        self.t0 = time.time()
        self.states = 0
        self.transitions = 0
        self.tlc_runs = []            # dicts: spec, cfg, distinct, generated, depth, wall_s, coverage
        self.evaluations = 0          # cases replayed into / compared with the implementation
        self.case_keys = set()        # distinct non-trivial case keys
        self.traces = 0               # behaviours replayed + recorded traces accepted
        self.samples = []
        self.violations = []          # unlisted mismatches
        self.known_hits = {}          # finding id -> count
        self.observations = {}
        self.assumptions = []
        self.trusted_base = ["TLC 1.8.0 (tla2tools.jar)", "CPython /venv + numpy/scipy", "harness/cuqiverif"]
        self.rule = ""
        self.exhaustive = False
        self.findings = [f for f in load_findings() if f.get("property") == pid and f.get("status", "open") == "open"]
        self.replay_mode = replay is not None
        self.facets = {}              # facet -> count of cases
        self._unexamined = []         # TLC results that reported a violation nobody looked at (see finish)
        self._workdirs = []           # TLC work directories of this run (removed in finish)

    # ----- TLC -------------------------------------------------------------
    def tlc(self, spec, cfg=None, **kw):
        """Run TLC; account its states/transitions; an unexpected violation of the *model* is a machinery
        failure for conformance purposes but is reported as a VIOLATION of the property on the model."""
        need_cov = kw.pop("require_actions", None)
        if need_cov:
            kw["coverage"] = True
        expect = bool(kw.get("expect_violation"))
        res = _tlc.run_tlc(spec, cfg=cfg, **kw)
        if getattr(res, "workdir", None):
            self._workdirs.append(res.workdir)
        if not res.ok and not expect:
            # the caller must either hand this result to model_must_hold (-> VIOLATION on the model) or raise; a
            # violated run that is silently used (e.g. for its emitted cases only) is reported as a machinery error
            res._examined = False
            self._unexamined.append((spec, cfg or "<inline>", res))
        self.states += res.distinct
        self.transitions += res.generated
        self.tlc_runs.append({"spec": spec, "cfg": cfg or "<inline>", "distinct": res.distinct,
                              "generated": res.generated, "depth": res.depth, "wall_s": round(res.wall_s, 2),
                              "cases": len(res.cases), "violated": res.violated,
                              "coverage": {k: list(v) for k, v in res.coverage.items()} if res.coverage else None})
        if need_cov and res.ok:
            for a in need_cov:
                # TLC appends the location of the disjunct to the name when it is not a plain operator application ("A@130")
                taken = sum(v[1] for k, v in res.coverage.items() if k == a or k.startswith(a + "@"))
                if taken == 0:
                    raise MachineryError("vacuous model: action %s of %s never taken (coverage %r)" % (a, spec, res.coverage))
        return res

    def model_must_hold(self, res, what):
        """The bounded model itself must satisfy its invariants; otherwise the property fails on the spec."""
        res._examined = True
        if not res.ok:
            self.mismatch("model/%s/%s" % (what, res.violated or "postcondition"),
                          {"kind": "model", "spec": what},
                          "TLC reports %s violated on the specification itself" % (res.violated or "postcondition"),
                          detail={"tlc_tail": res.stdout.splitlines()[-60:]})

    # ----- conformance accounting -----------------------------------------
    def case(self, key, nontrivial=True, facet=None):
        self.evaluations += 1
        if nontrivial:
            self.case_keys.add(key if isinstance(key, str) else json.dumps(_jsonable(key), sort_keys=True))
        if facet:
            self.facets[facet] = self.facets.get(facet, 0) + 1

    def sample(self, obj, limit=6):
        if len(self.samples) < limit:
            self.samples.append(_jsonable(obj))

    def observe(self, key, value):
        self.observations[key] = _jsonable(value)

    def mismatch(self, signature, case, what, expected=None, observed=None, detail=None):
        """Record a conformance mismatch.  `signature` is a '/'-separated stable string identifying the failing
        input / call site; it is matched against known_findings.json (fnmatch patterns)."""
        for f in self.findings:
            if any(fnmatch.fnmatchcase(signature, pat) for pat in f["signatures"]):
                self.known_hits.setdefault(f["id"], {"count": 0, "what": f["what"], "example": signature})
                self.known_hits[f["id"]]["count"] += 1
                return False
        self.violations.append({"signature": signature, "case": _jsonable(case), "what": what,
                                "expected": _jsonable(expected), "observed": _jsonable(observed),
                                "detail": _jsonable(detail)})
        return True

    # ----- finish -----------------------------------------------------------
    def finish(self, error=None):
        wall = time.time() - self.t0
        global EVID, REPLAYS
        pending = [(sp, cf, r) for sp, cf, r in self._unexamined if not getattr(r, "_examined", False)]
        if pending and not error:
            error = "TLC reported %s on %s (%s) and the check did not examine that result" % (
                pending[0][2].violated or "a failed postcondition", pending[0][0], pending[0][1])
        if not os.environ.get("VERIF_KEEP_WORK"):
            for d in self._workdirs:
                _tlc.cleanup(d)
        if os.environ.get("CUQIVERIF_REPO", "/repo") != "/repo":
            # development runs against a scratch worktree (seeded changes) must not overwrite the evidence of /repo
            EVID = os.path.join(ROOT, ".work", "evidence-dev")
            REPLAYS = os.path.join(ROOT, ".work", "replays-dev")
        os.makedirs(EVID, exist_ok=True)
        os.makedirs(REPLAYS, exist_ok=True)
        lines = []
        for fid, h in sorted(self.known_hits.items()):
            lines.append("KNOWN-FINDING: property=%s %s [%s; %d case(s), e.g. %s]" % (self.pid, h["what"], fid, h["count"], h["example"]))
        # group violations by signature; one replay file per signature (max 20 reported)
        seen = {}
        for v in self.violations:
            seen.setdefault(v["signature"], []).append(v)
        vio_lines = []
        for sig, vs in list(seen.items())[:20]:
            sha = hashlib.sha1(sig.encode()).hexdigest()[:10]
            path = os.path.join(REPLAYS, "%s-%s.json" % (self.pid, sha))
            json.dump({"property": self.pid, "signature": sig, "n_cases": len(vs), "first": vs[0], "others": [x["case"] for x in vs[1:6]]},
                      open(path, "w"), indent=1)
            vio_lines.append("VIOLATION property=%s replay=%s" % (self.pid, path))
            vio_lines.append("  what: %s | signature: %s | expected=%s observed=%s" % (
                vs[0]["what"], sig, json.dumps(vs[0]["expected"])[:300], json.dumps(vs[0]["observed"])[:300]))
        if not self.replay_mode:
            cov = {
                "states": max(self.states, 0),
                "transitions": max(self.transitions, 0),
                "traces_validated_against_impl": self.traces,
                "samples": self.samples or [{"note": "no sample recorded"}],
                "evaluations": self.evaluations,
                "distinct_nontrivial": len(self.case_keys),
                "rule": self.rule,
                "exhaustive": bool(self.exhaustive),
                "trusted_base": self.trusted_base,
                "tlc_runs": self.tlc_runs,
                "facets": self.facets,
                "observations": self.observations,
                "known_findings_hit": {k: v["count"] for k, v in self.known_hits.items()},
            }
            ev = {"property_id": self.pid, "tier": self.tier, "seed": int(self.seed), "level": "model_checking",
                  "coverage": cov, "assumptions": [str(a) for a in self.assumptions], "wall_s": round(wall, 2),
                  "violations": len(seen)}
            cov["rule"] = str(cov["rule"])
            cov["traces_validated_against_impl"] = max(int(cov["traces_validated_against_impl"]), 0)
            if error:
                cov["machinery_error"] = str(error)[:2000]
            if cov["states"] < 1 or cov["transitions"] < 1:
                # no TLC run completed (machinery failure before / inside the first model-checking run): the file must not
                # claim model checking; it stays schema-valid and says what happened
                ev["level"] = "other"
                cov["explanation"] = ("no model-checking run completed in this execution: %s" % (
                    str(error)[:500] if error else "the check made no TLC run"))
            bad = evidence_problems(ev)
            if bad:
                ev["level"] = "other"
                cov["explanation"] = "evidence record was not well-formed (%s); written as level=other" % "; ".join(bad)[:500]
            path = os.path.join(EVID, "%s.json" % self.pid)
            tmp = "%s.%d.tmp" % (path, os.getpid())
            with open(tmp, "w") as f:
                json.dump(ev, f, indent=1, allow_nan=False)
            os.replace(tmp, path)
        for l in lines:
            print(l)
        for l in vio_lines:
            print(l)
        if error:
            print("MACHINERY-ERROR property=%s %s" % (self.pid, str(error)[:3000]))
            if not seen:
                return 2
            # violations were demonstrated before the machinery gave up (e.g. a vacuity guard tripping because every
            # recorded trace of a broken tree is rejected): the violations stand
        print("%s %s tier=%s seed=%s: tlc states=%d transitions=%d, impl cases=%d (distinct %d), traces=%d, "
              "violations=%d, known=%d, %.1fs" % ("FAIL" if seen else "OK", self.pid, self.tier, self.seed, self.states,
                                                 self.transitions, self.evaluations, len(self.case_keys), self.traces,
                                                 len(seen), len(self.known_hits), wall))
        return 1 if seen else 0
