"""C03, part `Containers` (helper of props/c03.py; spec: specs/FamiliesPoint.tla).

The gradient is a function of the VALUE of the evaluation point, not of the object that carries it.  The spec lists the
container kinds (CtTable: float64 array = the reference of every other part, float32 / int64 / int32 arrays, lists of floats /
python ints, CUQIarrays of floats / integers, a non-contiguous view, and in dimension one python / numpy scalars), says when a
kind is ADMISSIBLE for a point (it holds the point exactly) and states ContainerIndependent: for every admissible kind the
expectation is that of the reference container - the hand-derived gradient inside the support, non-finite outside
(named deviation DevKeepsNumberType - the out-of-support answer built in the number type of the point - refuted by TLC).

Replay.
 * PROBE cases (bounded families, dimensions 1..3, integer / half-integer points inside, one coordinate or all coordinates
   outside, one coordinate or all coordinates ON the boundary): every way of passing the parameters x every admissible
   container x {analytic, enable_FD()}.
 * MAIN lattice: `extra(...)` is called next to EVERY reference gradient call of props/c03.py (families, Gaussian input forms,
   Markov random fields, likelihoods, posteriors, multiple-likelihood posteriors): the same object is evaluated again with the
   point in one further admissible container that rotates from call to call.
A container the implementation refuses (exception) is an observation.  A returned vector must be the spec's vector (single
precision container: 1e-5 relative - the point is exact, the arithmetic is not), outside the support it must not be finite.
ON the boundary of a support (a set of measure zero: open / closed is a convention) the spec asserts no value, only that every
admissible container is answered like the reference container: non-finite where that answer is non-finite, the same vector
where it is a finite vector (third conjunct of ContainerIndependent).
"""
import math

import numpy as np

SINGLE_RTOL = 1e-5          # comparison of an analytic gradient evaluated at a single precision point

TABLE = None                # rows of CtTable emitted by the spec: name -> {scalar, integral, single}
REF = "f64"
_ROT = {}


def _c03():
    from cuqiverif.props import c03
    return c03


def _fc():
    from cuqiverif import families_common as fc
    return fc


def _obs(ctx, key, tag):
    d = ctx.observations.setdefault(key, {})
    d[tag] = d.get(tag, 0) + 1


# ======================================================================================================================
# TLC
# ======================================================================================================================
_MODS = ["Families.tla", "DiffOps.tla"]
_LABELS = ("pt", "ptdev")


def _wd(label):
    import os
    from cuqiverif import tlc
    return os.path.join(tlc.WORK, "FamiliesPoint-%s-%d" % (label, os.getpid()))


def start_tlc(ctx, tier=None):
    import concurrent.futures
    pool = concurrent.futures.ThreadPoolExecutor(max_workers=2)
    jobs = {"pt": pool.submit(ctx.tlc, "FamiliesPoint", cfg="FamiliesPoint.%s.cfg" % (tier or ctx.tier), workers=2, timeout=900,
                              extra_modules=_MODS, workdir=_wd("pt")),
            "ptdev": pool.submit(ctx.tlc, "FamiliesPoint", cfg="FamiliesPoint.keepstype.deviation.cfg", workers=1, timeout=900,
                                 extra_modules=_MODS, expect_violation=True, workdir=_wd("ptdev"))}
    pool.shutdown(wait=False)
    return jobs


def discard_tlc(jobs):
    from cuqiverif import tlc
    for f in jobs.values():
        try:
            tlc.cleanup(f.result())
        except BaseException:      # noqa: BLE001
            pass
    for label in _LABELS:
        tlc.cleanup(_wd(label))


def collect_tlc(ctx, jobs):
    """-> probe cases; sets TABLE (the container table of the spec)"""
    global TABLE, REF
    from cuqiverif import tlc
    from cuqiverif.core import MachineryError
    out, err = {}, None
    for k, f in jobs.items():
        try:
            out[k] = f.result()
        except BaseException as e:      # noqa: BLE001
            err = err or e
    if err is not None:
        for r in out.values():
            tlc.cleanup(r)
        for label in _LABELS:
            tlc.cleanup(_wd(label))
        raise err
    ctx.model_must_hold(out["pt"], "FamiliesPoint")
    cases = list(out["pt"].cases)
    dev = out["ptdev"]
    for r in out.values():
        tlc.cleanup(r)
    if dev.ok or dev.violated != "ContainerIndependent":
        raise MachineryError("deviation DevKeepsNumberType did not violate ContainerIndependent (got %r): vacuous invariant" % dev.violated)
    ctx.observations.setdefault("deviations_refuted_by_tlc", {})["DevKeepsNumberType"] = "ContainerIndependent"
    tab = [c for c in cases if c.get("kind") == "cttable"]
    probes = [c for c in cases if c.get("kind") == "family"]
    if len(tab) != 1 or not probes:
        raise MachineryError("FamiliesPoint emitted no container table / no probe cases (%d, %d)" % (len(tab), len(probes)))
    TABLE = {r["name"]: {k: bool(r[k]) for k in ("scalar", "integral", "single")} for r in tab[0]["rows"]}
    REF = tab[0]["ref"]
    # the admissibility rule used on the main lattice is the spec's: cross-checked on every probe case
    for c in probes:
        mine = admissible(_fc().vec(c["x"]))
        spec = [k["name"] for k in c["kinds"] if k["ok"]]
        if mine != spec:
            raise MachineryError("admissible container kinds differ from the spec's for the point %r: %r vs %r" % (c["x"], mine, spec))
    return probes


# ======================================================================================================================
# containers
# ======================================================================================================================
def admissible(x):
    """container kinds (order of the spec's table) that hold the point x (float64 vector) exactly - Admissible of the spec, whose
    rule on the rational lattice (integer types: denominators 1; single precision: denominators 1, 2, 4, 8) is this one"""
    x = np.asarray(x, dtype=float).ravel()
    is_int = bool(np.all(x == np.rint(x)) and np.all(np.abs(x) < 2.0 ** 31))
    is_single = bool(np.all(x.astype(np.float32).astype(float) == x))
    out = []
    for name, t in TABLE.items():
        if t["scalar"] and len(x) != 1:
            continue
        if t["integral"] and not is_int:
            continue
        if t["single"] and not is_single:
            continue
        out.append(name)
    return out


def make(kind, x, geometry=None):
    """the point x (float64 vector, exact) in the container `kind`"""
    import cuqi
    x = np.asarray(x, dtype=float)
    if kind == "f64":
        return np.array(x)
    if kind == "f32":
        return x.astype(np.float32)
    if kind == "i64":
        return np.rint(x).astype(np.int64)
    if kind == "i32":
        return np.rint(x).astype(np.int32)
    if kind == "list":
        return [float(v) for v in x]
    if kind == "intlist":
        return [int(round(v)) for v in x]
    if kind in ("cuqiarray", "cuqiint"):
        g = geometry if isinstance(geometry, cuqi.geometry.Geometry) and geometry.par_dim == len(x) else cuqi.geometry._DefaultGeometry1D(len(x))
        return cuqi.array.CUQIarray(np.array(x) if kind == "cuqiarray" else np.rint(x).astype(np.int64), geometry=g)
    if kind == "fview":
        big = np.full(2 * len(x), -777.0)
        big[::2] = x
        return big[::2]
    if kind == "pyfloat":
        return float(x[0])
    if kind == "pyint":
        return int(round(x[0]))
    if kind == "npfloat":
        return np.float64(x[0])
    if kind == "npint":
        return np.int64(round(x[0]))
    from cuqiverif.core import MachineryError
    raise MachineryError("unknown container kind %r emitted by the spec" % (kind,))


def holds(xc, x):
    """the container still carries the point (used after a call: the argument must not be modified)"""
    try:
        a = np.asarray(xc, dtype=float).ravel()
    except Exception:        # noqa: BLE001
        return False
    return a.shape == np.asarray(x).ravel().shape and np.array_equal(a, np.asarray(x, dtype=float).ravel())


def tol_of(kind, gexp):
    """absolute tolerance of judge() for an analytic value in this container (None: the default 1e-9 relative)"""
    if TABLE[kind]["single"] and gexp is not None:
        return SINGLE_RTOL * max(1.0, float(np.max(np.abs(gexp))) if np.size(gexp) else 1.0)
    return None


def _count(ctx, key):
    ctx.facets[key] = ctx.facets.get(key, 0) + 1


def one_call(ctx, case, sig, outcome, obj, kind, x, gexp, d, fd=False, logf=0.0, tag="", asserted=True, where="lattice", support=None,
             ref=None):
    """gradient of `obj` at x carried by container `kind`; judged like the reference call.  tag: "<family or object kind>/.." """
    c03, fc = _c03(), _fc()
    st, xc, _ = fc.call(lambda: make(kind, x, getattr(obj, "geometry", None)))
    if st == "raise":
        _obs(ctx, "container_not_constructible", kind)
        return
    r = fc.call(lambda: obj.gradient(xc))
    ctx.case(("ctn", sig), facet="containers/%s/%s" % (kind, "fd" if fd else "analytic"))
    cls = support or ("out" if gexp is None else "in")
    if r[0] == "raise":
        _obs(ctx, "container_refused", "%s/%s/%s" % (tag.split("/")[0] if tag else "?", kind, "fd" if fd else "analytic"))
    else:
        _count(ctx, "ctn_value/%s/%s/%s/%s" % (where, tag.split("/")[0] if tag else "?", cls, kind))
    if not asserted:
        # boundary of the support: no value is asserted; the answer for this container is the answer for the reference container
        if r[0] == "value" and ref is not None and ref[0] == "value" and ref[1] is not None and r[1] is not None:
            try:
                a, b = np.asarray(r[1], dtype=float).ravel(), np.asarray(ref[1], dtype=float).ravel()
            except Exception:        # noqa: BLE001
                a = b = None
            if a is not None and b.size == d:
                rfin = bool(np.all(np.isfinite(b)))
                _obs(ctx, "boundary_reference_answer", "%s/%s/%s" % (tag.split("/")[0], "fd" if fd else "analytic", "finite" if rfin else "non-finite"))
                if not rfin:
                    c03.judge(ctx, case, sig, outcome, r, None, d, fd=fd, logf=logf, tag="ctn/%s/%s%s" % (tag, kind, "/FD" if fd else ""))
                else:
                    tol = (1e-4 if fd else (SINGLE_RTOL if TABLE[kind]["single"] else 1e-9)) * max(1.0, float(np.max(np.abs(b))))
                    if a.size != d or not np.all(np.isfinite(a)) or float(np.max(np.abs(a - b))) > tol:
                        ctx.mismatch(sig, case, "on the boundary of the support the gradient depends on the container of the evaluation "
                                     "point (reference: the same object at the same point in a float64 array)", b, a)
    else:
        c03.judge(ctx, case, sig, outcome, r, gexp, d, fd=fd, logf=logf, tag="ctn/%s/%s%s" % (tag, kind, "/FD" if fd else ""),
                  tol=None if fd else tol_of(kind, gexp))
    if not holds(xc, x):
        ctx.mismatch(sig + "/argument_mutated", case, "gradient() modified the object it was called with", np.asarray(x), repr(xc))


# ======================================================================================================================
# main lattice: one rotating admissible container next to every reference call
# ======================================================================================================================
ALL_KINDS = False           # replay of a stored case: every admissible kind instead of the rotating one


def pick(x, fam):
    """the admissible container kinds (other than the reference) of this call: ONE, rotating per (family, set of admissible
    kinds); all of them when a stored case is replayed"""
    if TABLE is None:
        return []
    kinds = [k for k in admissible(x) if k != REF]
    if not kinds or ALL_KINDS:
        return kinds
    key = (fam, len(kinds))
    _ROT[key] = _ROT.get(key, -1) + 1
    return [kinds[_ROT[key] % len(kinds)]]


_FD_TURN = [0]


def fd_turn(kinds):
    """the finite-difference repetition of a container call of the main lattice: every second call"""
    _FD_TURN[0] += 1
    return kinds if (_FD_TURN[0] % 2 == 0 or ALL_KINDS) else []


def extra(ctx, case, sig, outcome, obj, x, gexp, d, kind, fd=False, logf=0.0, tag=""):
    """the reference call of props/c03.py again with the point in the container kind(s) `kind` (list from pick())"""
    for k in kind or ():
        one_call(ctx, case, "%s/container=%s" % (sig, k), outcome, obj, k, x, gexp, d, fd=fd, logf=logf, tag=tag)


# ======================================================================================================================
# probe cases
# ======================================================================================================================
def check_probe(ctx, table, case):
    c03, fc = _c03(), _fc()
    fam, d, tag = case["fam"], case["dim"], case["tag"]
    x = fc.vec(case["x"])
    gexp = fc.expected_grad(case)
    lexp = fc.expected_logpdf(case)
    logf = 0.0 if not math.isfinite(lexp) else lexp
    asserted = bool(case["asserted"])
    if fam == "ModifiedHalfNormal" and not case.get("abg_equal") and gexp is not None:
        # the getters of beta / gamma return alpha (finding C03-F3, pinned by a test): inside the support only the instances on
        # which that defect is invisible decide anything about containers (outside / boundary: parameter free)
        _obs(ctx, "probes_skipped", "ModifiedHalfNormal with distinct parameters inside the support (finding C03-F3)")
        return
    kinds = [k["name"] for k in case["kinds"] if k["ok"]]
    for way, builder in fc.family_variants(case, callable_way=False):
        st, dist, _ = fc.call(builder)
        if st == "raise":
            _obs(ctx, "construction_failed", "probe/%s/%s" % (fam, way))
            continue
        for fd in (False, True):
            if fd and fc.call(lambda: dist.enable_FD())[0] == "raise":
                continue
            what = "gradientFD" if fd else "gradient"
            ref = None if asserted else fc.call(lambda: dist.gradient(make(REF, x)))
            for kind in kinds:
                sig = "ctn/%s/%s/way=%s/dim=%d/support=%s/probe=%d/container=%s" % (what, fam, way, d, tag, case["probe"], kind)
                one_call(ctx, case, sig, table[(fam, False, "identity", fd)], dist, kind, x, gexp, d, fd=fd, logf=logf,
                         tag="%s/%s" % (fam, tag), asserted=asserted, where="probe", support=tag, ref=ref)
            if fd:
                fc.call(lambda: dist.disable_FD())


def run(ctx, table, probes):
    from cuqiverif.core import MachineryError
    fc = _fc()
    probes = sorted(probes, key=fc.case_id)
    for c in probes:
        check_probe(ctx, table, c)
    ctx.traces += len(probes)
    if ctx.violations:
        return
    # vacuity: per bounded family and support class (inside, below, above, asserted boundary) VALUES (not refusals) were judged
    # with the point in a float64, an integer, a single precision array and as a python int, wherever the spec lists the kind
    # as admissible for a probe point of that class
    got = {k[10:]: v for k, v in ctx.facets.items() if k.startswith("ctn_value/")}
    fams = sorted({c["fam"] for c in probes})
    want = {(c["fam"], c["tag"], k["name"]) for c in probes for k in c["kinds"]
            if k["ok"] and k["name"] in ("f64", "i64", "f32", "pyint")}
    miss = sorted(w for w in want if not got.get("probe/%s/%s/%s" % w))
    if miss or not any(w[1] == "above" and w[2] == "i64" for w in want) or not any(w[1] == "boundary" and w[2] == "pyint" for w in want):
        raise MachineryError("Containers part vacuous: no gradient value judged for %r (required %d classes)" % (miss, len(want)))
    # main lattice: every family was evaluated in further containers, integer-valued points in integer containers
    lat = {}
    for k, v in got.items():
        p = k.split("/")
        if p[0] == "lattice":
            lat.setdefault(p[1], {})[p[3]] = lat.setdefault(p[1], {}).get(p[3], 0) + v
    need = {"Gaussian": ("i64", "f32", "cuqiarray"), "Cauchy": ("i64", "f32"), "GMRF": ("i64", "i32"), "CMRF": ("i64",),
            "SmoothedLaplace": ("f32",), "lik": ("i64", "i32", "f32"), "posterior": ("i64", "f32"), "multi": ("i64",)}
    miss = [(f, k) for f, ks in need.items() for k in ks if not lat.get(f, {}).get(k)]
    if miss:
        raise MachineryError("Containers part vacuous on the main lattice: no value judged for %r (judged: %r)" % (miss, lat))
    ctx.observations["containers"] = {"probe_cases": len(probes), "kinds": list(TABLE),
                                      "values_judged_probe": {f: {c: sum(v for k, v in got.items() if k.startswith("probe/%s/%s/" % (f, c)))
                                                                  for c in ("in", "below", "above", "boundary")} for f in fams},
                                      "values_judged_lattice": {f: sum(v.values()) for f, v in sorted(lat.items())}}
    c = next((c for c in probes if c["fam"] == "Uniform" and c["dim"] == 3 and c["tag"] == "above"), probes[0])
    ctx.sample({"kind": "probe", "fam": c["fam"], "par": c["par"], "x": c["x"], "tag": c["tag"], "grad": c["grad"],
                "kinds": [k["name"] for k in c["kinds"] if k["ok"]]})


def load_table(ctx):
    """replay of a stored case: the container table of the spec; every admissible kind is evaluated"""
    global ALL_KINDS
    collect_tlc(ctx, start_tlc(ctx, "quick"))
    ALL_KINDS = True


def replay(ctx, table, case):
    load_table(ctx)
    check_probe(ctx, table, case)
