"""C07, round 10: the CONTAINER of x / y (part ARR) and function pairs defined for VECTORS only (part VEC).

Spec: specs/ModelGeomVec.tla (EXTENDS ModelGeom).

Part ARR.  A case = a configuration of ModelGeom part C07 (model kind, domain geometry, range geometry, core operator) plus the geometries the
CUQIarrays of PARAMETERS x (domain side) and y (range side) carry: the model's own, or one of the SAME class and par_shape with ANOTHER map
(Image2D C <-> F, StepExpansion on another grid with the same n_steps / with another projection, MappedGeometry with another map, an expansion
with another decay - user class and the real KLExpansion).  forward / adjoint document that the input is converted with the MODEL's geometry:
forward(x carried) must be the specification's H+ F G x (all basis vectors = columns of the matrix), the adjoint identity must hold with both
carried (geometry pairs with orthogonal maps), and elsewhere adjoint(y carried) must be adjoint(y) of the plain parameter vector.
TLC refutes the deviation SameClassCarrierTrusted on ArrAdjoint and on ArrForward.

Part VEC.  LinearModel(forward, adjoint) with np.roll(x, 1) / np.flip(x) / np.cumsum(x) / np.roll(x, -2)[:n-2] (no axis: on a matrix numpy flattens):
get_matrix() / T.get_matrix() must be the specification's H+ V G, forward / adjoint its values; deviation MatrixFromForwardOfIdentity refuted.
"""
import os
import warnings

import numpy as np

SPEC = "ModelGeomVec"
EXTRA = ("ModelGeom.tla",)
DEVIATIONS = [("SameClassCarrierTrusted", "ArrAdjoint"), ("SameClassCarrierTrustedFwd", "ArrForward"), ("MatrixFromForwardOfIdentity", "VecColumns")]


def start_tlc(ctx):
    from concurrent.futures import ThreadPoolExecutor
    from cuqiverif import tlc
    tag = "%d-%d" % (os.getpid(), id(ctx) % 100000)

    def wd(name):
        return os.path.join(tlc.WORK, "%s-%s-%s" % (SPEC, tag, name))

    jobs = [("dev", dev, inv, dict(cfg="ModelGeomVec.%s.deviation.cfg" % dev, workers=1, expect_violation=True, timeout=600,
                                   extra_modules=EXTRA, workdir=wd(dev), heap="1g")) for dev, inv in DEVIATIONS]
    jobs += [("arr", "arr", None, dict(cfg="ModelGeomVec.ARR.%s.cfg" % ctx.tier, workers=2, timeout=1500, extra_modules=EXTRA, workdir=wd("arr"), heap="2g")),
             ("vec", "vec", None, dict(cfg="ModelGeomVec.VEC.%s.cfg" % ctx.tier, workers=1, timeout=1500, extra_modules=EXTRA, workdir=wd("vec"), heap="1g"))]
    ex = ThreadPoolExecutor(max_workers=len(jobs))
    futs = [ex.submit(lambda kw=kw: ctx.tlc(SPEC, **kw)) for _, _, _, kw in jobs]
    return ex, jobs, futs


def wait_tlc(started):
    from cuqiverif import tlc
    for f in started[2]:
        try:
            tlc.cleanup(f.result())
        except Exception:  # noqa: BLE001
            pass
    started[0].shutdown(wait=True)


def _gk(g):
    from cuqiverif.modelgeom_real import gkey
    if g["kind"] in ("imgC", "imgF", "cont2d"):
        return "%s%dx%d" % (g["kind"], g["r"], g["q"])
    return "%s_n%d" % (gkey(g), g["n"])


def _mat(M):
    from cuqiverif.modelgeom_real import rmat
    return rmat(M) if len(M) else None


# ----------------------------------------------------------------------------------------------------------------------
# part ARR
# ----------------------------------------------------------------------------------------------------------------------
def _carrier(cg, mg, real, CG, CGp, variant=None):
    """The geometry object a CUQIarray carries.  cg: the carrier's record, mg / real: record and realisation of the model's geometry on that side."""
    import cuqi
    from cuqiverif.modelgeom_real import build_geometry
    from cuqiverif.tlc import MachineryError
    if cg == mg:
        if isinstance(real.obj, int):
            return None                                    # the default geometry: the array gets the model's own geometry object
        if variant == "kl":
            return cuqi.geometry.KLExpansion(np.linspace(0, 1, mg["n"]), decay_rate=1.5, normalizer=2.0, num_modes=mg["k"])
        return build_geometry(cg, CG, CGp).obj if cg["kind"] not in ("linexp",) else type(real.obj)(CG, CGp)     # equal, but another object
    if cg["kind"] == "mapped2":
        return cuqi.geometry.MappedGeometry(cuqi.geometry.Continuous1D(cg["n"]), map=lambda f: CG @ f, imap=lambda f: CGp @ f)
    if cg["kind"] == "linexp2":
        if variant == "kl":
            return cuqi.geometry.KLExpansion(np.linspace(0, 1, cg["n"]), decay_rate=2.5, normalizer=2.0, num_modes=cg["k"])
        return type(real.obj)(CG, CGp)                     # the SAME user class as the model's geometry, another expansion
    if cg["kind"] in ("imgC", "imgF", "step"):
        obj = build_geometry(cg).obj                       # (StepExpansion: the node -> step assignment of the record is verified there)
        if type(obj) is not type(real.obj) or tuple(obj.par_shape) != tuple(real.obj.par_shape):
            raise MachineryError("part ARR: the carrier %r is not of the class / par_shape of the model's geometry" % (cg,))
        return obj
    raise MachineryError("part ARR: unknown carrier %r" % (cg,))


def arr_key(case, variant=None):
    return "mk=%s/dom=%s/rng=%s/x_in=%s/y_in=%s%s" % (case["mk"], _gk(case["dg"]), _gk(case["rg"]),
                                                      "own" if case["cd"] == case["dg"] else _gk(case["cd"]) + ("_" + case["cd"]["proj"] if case["cd"]["proj"] not in ("", "mean") else ""),
                                                      "own" if case["cr"] == case["rg"] else _gk(case["cr"]) + ("_" + case["cr"]["proj"] if case["cr"]["proj"] not in ("", "mean") else ""),
                                                      "/kl" if variant else "")


def check_arr_case(ctx, case, stats=None):
    from cuqi.array import CUQIarray
    from cuqiverif.modelgeom_real import build_geometry, build_linear_model, rvec, rmat, imat, ivec, close, ConstructionRefused, report_refusal
    from cuqiverif.props.c07 import _quiet
    stats = stats if stats is not None else {}
    F = imat(case["F"])
    variants = [None] + (["kl"] if case["dg"]["kind"] == "linexp" and case["cd"]["kind"] == "linexp2" and case["rg"]["kind"] != "linexp" else [])
    for variant in variants:
        key = arr_key(case, variant)
        ctx.case(("arr", key), facet="arr/%s" % case["mk"])
        dom = build_geometry(case["dg"], _mat(case["Gd"]), _mat(case["Gpd"]), variant=variant)
        rng = build_geometry(case["rg"], _mat(case["Hr"]), _mat(case["Hpr"]))
        M = rmat(case["matrix"])
        fwd_x, adj_y = rvec(case["fwd_x"]), rvec(case["adj_y"])
        x, y = ivec(case["x"]), ivec(case["y"])
        if variant == "kl":
            # numeric realisation: the maps are read off the ORIGINAL geometry object of the model (build_geometry), the operator is the spec's
            M = rng.Gp @ F @ dom.G
            fwd_x, adj_y = M @ x, M.T @ y
        try:
            with _quiet():
                model = build_linear_model(case["mk"], F, dom, rng)
        except ConstructionRefused as r:
            report_refusal(ctx, case, "arr/construct", r)
            continue
        with _quiet():
            cd = _carrier(case["cd"], case["dg"], dom, _mat(case["CGd"]), _mat(case["CGpd"]), variant)
            cr = _carrier(case["cr"], case["rg"], rng, _mat(case["CHr"]), _mat(case["CHpr"]))
        gd = cd if cd is not None else model.domain_geometry
        gr = cr if cr is not None else model.range_geometry
        pd, pr = len(x), len(y)
        if case["cd"] != case["dg"]:
            stats["domain_carriers"] = stats.get("domain_carriers", 0) + 1
            with _quiet():
                try:
                    if gd == model.domain_geometry:
                        stats["carriers_the_library_calls_equal"] = stats.get("carriers_the_library_calls_equal", 0) + 1
                except Exception:      # noqa: BLE001
                    pass

        def call(what, f):
            try:
                with _quiet():
                    return np.asarray(f(), dtype=float).ravel()
            except Exception as e:      # noqa: BLE001
                ctx.mismatch("arr/%s/%s/raised" % (what, key), case, "%s of a CUQIarray of parameters that carries a geometry of the model's class and par_shape "
                             "raised %r (the input is documented to be converted with the MODEL's geometry)" % (what, e))
                return None

        for phase in ("", "_after_get_matrix"):
            # ---- forward
            got = call("forward" + phase, lambda: model.forward(CUQIarray(x.copy(), geometry=gd)))
            if got is not None and not close(got, fwd_x):
                ctx.mismatch("arr/forward%s/%s/value" % (phase, key), case, "forward(x) for a CUQIarray x of parameters carrying %s: not H+ F G x with the MODEL's "
                             "geometry" % _gk(case["cd"]), expected=fwd_x, observed=got)
            cols = [call("forward_basis" + phase, lambda e=e: model.forward(CUQIarray(e, geometry=gd))) for e in np.eye(pd)]
            if all(cc is not None for cc in cols):
                C = np.column_stack(cols) if all(cc.shape == (pr,) for cc in cols) else None
                if C is None or not close(C, M):
                    ctx.mismatch("arr/forward_basis%s/%s/value" % (phase, key), case, "forward(e_j) for CUQIarrays carrying %s: not the columns of the "
                                 "specification's matrix" % _gk(case["cd"]), expected=M, observed=C if C is not None else [cc.shape for cc in cols])
            # ---- adjoint
            yin = lambda v: CUQIarray(np.array(v, dtype=float), geometry=gr)     # noqa: E731
            if case["ortho"]:
                ga = call("adjoint" + phase, lambda: model.adjoint(yin(y)))
                if ga is not None and not close(ga, adj_y):
                    ctx.mismatch("arr/adjoint%s/%s/value" % (phase, key), case, "adjoint(y) for a CUQIarray y of parameters carrying %s: not the transpose of the "
                                 "forward map applied to y" % _gk(case["cr"]), expected=adj_y, observed=ga)
                rows = [call("adjoint_basis" + phase, lambda e=e: model.adjoint(yin(e))) for e in np.eye(pr)]
                if all(rr is not None for rr in rows):
                    R = np.vstack(rows) if all(rr.shape == (pd,) for rr in rows) else None
                    if R is None or not close(R, M):
                        ctx.mismatch("arr/adjoint_basis%s/%s/value" % (phase, key), case, "adjoint(e_i) for CUQIarrays carrying %s: not the rows of the matrix"
                                     % _gk(case["cr"]), expected=M, observed=R if R is not None else [rr.shape for rr in rows])
                if got is not None and ga is not None and got.shape == y.shape and ga.shape == x.shape:
                    lhs, rhs = float(got @ y), float(x @ ga)
                    if abs(lhs - rhs) > 1e-9 * max(1.0, abs(lhs), abs(rhs)):
                        ctx.mismatch("arr/identity%s/%s/value" % (phase, key), case, "<A x, y> = <x, A* y> fails when x and y arrive as CUQIarrays carrying "
                                     "another geometry of the model's class", expected=lhs, observed=rhs)
            elif case["cr"] != case["rg"]:
                # adjoint through non-orthogonal geometry maps is C07-F1; the CONTAINER of y must still not matter
                try:
                    with _quiet():
                        plain = np.asarray(model.adjoint(np.array(y, dtype=float)), dtype=float).ravel()
                except Exception:      # noqa: BLE001
                    plain = None
                    stats["adjoint_of_plain_vector_refused"] = stats.get("adjoint_of_plain_vector_refused", 0) + 1
                if plain is not None:
                    ga = call("adjoint" + phase, lambda: model.adjoint(yin(y)))
                    if ga is not None and not close(ga, plain):
                        ctx.mismatch("arr/adjoint%s/%s/container" % (phase, key), case, "adjoint(y) of a CUQIarray of parameters carrying %s differs from adjoint of "
                                     "the plain parameter vector" % _gk(case["cr"]), expected=plain, observed=ga)
            if phase == "":
                try:
                    with _quiet():
                        model.get_matrix()
                except Exception:      # noqa: BLE001  (get_matrix itself is compared in the other parts)
                    break


def run_arr(ctx, res):
    from cuqiverif import tlc
    from cuqiverif.core import MachineryError
    ctx.model_must_hold(res, "ModelGeomVec.ARR")
    cases = [c for c in res.cases if c.get("kind") == "arr"]
    tlc.cleanup(res)
    if not cases:
        raise MachineryError("no cases emitted by ModelGeomVec part ARR")
    cases.sort(key=lambda c: arr_key(c))
    stats = {}
    for c in cases:
        check_arr_case(ctx, c, stats)
    ctx.observations["arr_part"] = dict(stats, configurations=len(cases))
    if not stats.get("domain_carriers"):
        raise MachineryError("vacuous: part ARR exercised no carried geometry")
    pick = [c for c in cases if c["dg"]["kind"] == "imgF" and c["cd"]["kind"] == "imgC" and c["cr"] != c["rg"]][:1]
    for c in pick:
        ctx.sample({"case": {k: c[k] for k in ("kind", "mk", "dg", "rg", "cd", "cr", "F", "x", "y", "fwd_x", "adj_y", "matrix")}})
    return len(cases)


# ----------------------------------------------------------------------------------------------------------------------
# part VEC
# ----------------------------------------------------------------------------------------------------------------------
def vec_functions(op, dom_shape, rng_shape):
    """The user's function pair, literally the numpy calls of the specification (no axis).  Function values of an image geometry are handed
    back in the image shape; vector function values are returned as numpy returns them."""
    nd = int(np.prod(dom_shape))

    def shaped(out, shape, shape_in):
        if len(shape) > 1:
            return out.reshape(shape)
        return out.reshape(-1) if len(shape_in) > 1 else out       # image in, vector out: the user flattens; vector in, vector out: as numpy returns it

    fwd = {"roll": lambda X: np.roll(X, 1), "flipall": lambda X: np.flip(X), "cumsum": lambda X: np.cumsum(X),
           "rollcut": lambda X: np.roll(X, -2)[:nd - 2] if np.ndim(X) == 1 or len(dom_shape) == 1 else np.roll(X, -2).reshape(-1)[:nd - 2]}[op]
    adj = {"roll": lambda Y: np.roll(Y, -1), "flipall": lambda Y: np.flip(Y), "cumsum": lambda Y: np.cumsum(np.ravel(Y)[::-1])[::-1],
           "rollcut": lambda Y: np.roll(np.append(Y, [0.0, 0.0]), 2)}[op]
    return (lambda X: shaped(fwd(X), rng_shape, dom_shape)), (lambda Y: shaped(adj(Y), dom_shape, rng_shape))


def vec_key(case):
    return "op=%s/dom=%s/rng=%s" % (case["op"], _gk(case["dg"]), _gk(case["rg"]))


SEQS = (("GM", "Fa", "TGM", "Aa", "cols"), ("Fa", "Aa", "cols", "GM", "TGM"))


def check_vec_case(ctx, case, seqs=None):
    import cuqi
    from cuqiverif.modelgeom_real import build_geometry, rvec, rmat, imat, ivec, close
    from cuqiverif.props.c07 import _quiet, _dense
    from cuqiverif.tlc import MachineryError
    key = vec_key(case)
    M = rmat(case["matrix"])
    V = imat(case["V"])
    xa, ya = ivec(case["xa"]), ivec(case["ya"])
    exp = {"Fa": rvec(case["fwd_a"]), "Aa": rvec(case["adj_a"]), "GM": M, "TGM": M.T, "cols": M}
    names = {"Fa": "forward", "Aa": "adjoint", "GM": "get_matrix", "TGM": "T_get_matrix", "cols": "forward_basis"}
    for seq in (seqs if seqs is not None else SEQS):
        dom = build_geometry(case["dg"], rmat(case["Gd"]), rmat(case["Gpd"]))
        rng = build_geometry(case["rg"], rmat(case["Hr"]), rmat(case["Hpr"]))
        fwd, adj = vec_functions(case["op"], dom.fun_shape, rng.fun_shape)
        # machinery: on VECTORS (function values of the geometries) the pair is the operator V of the specification and its transpose
        for j, e in enumerate(np.eye(V.shape[1])):
            if not np.array_equal(np.ravel(fwd(e.reshape(dom.fun_shape))), V[:, j]):
                raise MachineryError("part VEC: the function realising %s is not the operator of the specification" % case["op"])
        for i, e in enumerate(np.eye(V.shape[0])):
            if not np.array_equal(np.ravel(adj(e.reshape(rng.fun_shape))), V[i, :]):
                raise MachineryError("part VEC: the adjoint function realising %s is not the transpose of the specification's operator" % case["op"])
        ctx.case(("vec", key, "-".join(seq)), facet="vec/%s" % case["op"])
        try:
            with _quiet():
                model = cuqi.model.LinearModel(fwd, adj, range_geometry=rng.obj, domain_geometry=dom.obj)
        except Exception as e:      # noqa: BLE001
            ctx.mismatch("vec/construct/%s/construction_refused" % key, dict(case, seq=list(seq)), "LinearModel(function pair, documented geometries) refused: %r" % e)
            continue
        for pos, o in enumerate(seq):
            if o in ("TGM", "Aa") and not case["ortho"]:
                continue                                   # adjoint through non-orthogonal geometry maps: C07-F1
            where = "after %s" % " . ".join(seq[:pos + 1])
            try:
                with _quiet():
                    if o == "Fa":
                        got = np.asarray(model.forward(xa.copy()), dtype=float).ravel()
                    elif o == "Aa":
                        got = np.asarray(model.adjoint(ya.copy()), dtype=float).ravel()
                    elif o == "GM":
                        got = _dense(model.get_matrix())
                    elif o == "TGM":
                        got = _dense(model.T.get_matrix())
                    else:
                        got = np.column_stack([np.asarray(model.forward(e), dtype=float).ravel() for e in np.eye(len(xa))])
            except Exception as e:      # noqa: BLE001
                ctx.mismatch("vec/%s/%s/raised" % (names[o], key), dict(case, seq=list(seq)), "%s of a function-backed model whose functions are defined for vectors "
                             "raised (%s): %r" % (names[o], where, e))
                continue
            if not close(got, exp[o]):
                ctx.mismatch("vec/%s/%s/value" % (names[o], key), dict(case, seq=list(seq)), "%s of a function-backed linear model whose functions are written with numpy "
                             "calls without axis (defined for vectors): not the specification's H+ V G (%s)" % (names[o], where), expected=exp[o], observed=got)


def run_vec(ctx, res):
    from cuqiverif import tlc
    from cuqiverif.core import MachineryError
    ctx.model_must_hold(res, "ModelGeomVec.VEC")
    cases = [c for c in res.cases if c.get("kind") == "vec"]
    tlc.cleanup(res)
    if not cases:
        raise MachineryError("no cases emitted by ModelGeomVec part VEC")
    cases.sort(key=vec_key)
    for c in cases:
        check_vec_case(ctx, c)
    if not any(c["idlike"] and c["op"] == "roll" for c in cases):
        raise MachineryError("vacuous: part VEC has no identity-like configuration")
    ctx.observations["vec_part"] = {"configurations": len(cases), "operators": sorted({c["op"] for c in cases})}
    for c in [c for c in cases if c["op"] == "roll" and c["idlike"]][:1]:
        ctx.sample({"case": {k: c[k] for k in ("kind", "op", "dg", "rg", "V", "matrix", "xa", "fwd_a", "ya", "adj_a")}})
    return len(cases)


def run_all(ctx, started=None):
    from cuqiverif import tlc
    from cuqiverif.core import MachineryError
    ex, jobs, futs = started if started is not None else start_tlc(ctx)
    try:
        results = [f.result() for f in futs]
    finally:
        ex.shutdown(wait=True)
    n = 0
    try:
        for (kind, name, inv, _), res in zip(jobs, results):
            if kind == "dev":
                if res.ok or res.violated != inv:
                    raise MachineryError("deviation %s did not violate %s on ModelGeomVec (violated=%r)" % (name, inv, res.violated))
                ctx.observations.setdefault("deviation_counterexamples", {})["VEC/" + name] = inv
        for (kind, name, inv, _), res in zip(jobs, results):
            if kind == "arr":
                n += run_arr(ctx, res)
            elif kind == "vec":
                n += run_vec(ctx, res)
    finally:
        for res in results:
            tlc.cleanup(res)
    ctx.assumptions += ["part ARR: the arrays are CUQIarrays of PARAMETERS (is_par=True, the default); an array whose own flag contradicts the call is undefined and "
                        "not exercised; carried geometries of another CLASS belong to C12 (part FG)",
                        "part VEC: the functions are called by the library with the function values of ONE parameter vector (what LinearModel documents); "
                        "nothing is asserted about what they return for any other argument"]
    return n


def replay(ctx, case):
    if case.get("kind") == "arr":
        return check_arr_case(ctx, case)
    return check_vec_case(ctx, case, seqs=[tuple(case["seq"])] if "seq" in case else None)
