"""C03, part `Classes` (helper of props/c03.py; spec: specs/FamiliesGallery.tla).

Every public class of cuqi.distribution has its rows in the decision table of the spec (invariant ClassTable); this module
drives the rows that the lattice of Families.tla does not reach:

* DistributionGallery - the seven benchmark densities whose log-density is defined by the object only.  The property still
  says `gradient = derivative of the object's own log-density`: per lattice point (TLC: GalNames x half-integer lattice of
  [-4, 4]^2, thorough quarter-integer lattice of [-5, 5]^2) the reference is the Richardson tableau of central differences
  of the object's OWN logd with the weights / steps / tolerances EMITTED by the spec (RichardsonExact: exact up to degree 6;
  EstimateBounds: the last correction bounds the error of the first inexact degrees).  A reference is accepted only if its
  error estimate is <= accept_rel (1e-7) relative, otherwise the point is skipped and counted; the gradient is compared at
  compare_rel (1e-6).  Analytic (two passes over ONE object, the second in reverse order), with enable_FD() (forward-
  difference accuracy), integer points also as int64 array / list.
* Posteriors with a gallery prior: user-defined likelihood (polynomial log-density with its exact gradient), Gaussian
  likelihood through a LinearModel, two likelihoods (MultipleLikelihoodPosterior) - same oracle on the posterior's own logd.
* _StackedJointDistribution of two independent parts (pairs of cases of Families.tla: exact logd = sum, gradient = concatenation):
  refused without FD, the derivative with FD.
* UserDefinedLikelihood: pass-through of gradient_func / refusal; Posterior(UserDefinedLikelihood, Gaussian): sum rule, exact.
* JointGaussianSqrtPrec, JointDistribution: refused (no log-density / no gradient offered).
"""
import math

import numpy as np


def _c03():
    from cuqiverif.props import c03
    return c03


def _fc():
    from cuqiverif import families_common as fc
    return fc


def _obs(ctx, key, tag):
    d = ctx.observations.setdefault(key, {})
    d[tag] = d.get(tag, 0) + 1


# ======================================================================================================================
# TLC
# ======================================================================================================================
_MODS = ["Families.tla", "DiffOps.tla"]
_LABELS = ("gal", "galdevw", "galdevk")
_DEVS = {"galdevw": ("FamiliesGallery.weights.deviation.cfg", "InvRichardsonExact", "DevFirstOrderWeights"),
         "galdevk": ("FamiliesGallery.kink.deviation.cfg", "SmoothStencil", "DevStencilAcrossKink")}


def _wd(label):
    import os
    from cuqiverif import tlc
    return os.path.join(tlc.WORK, "FamiliesGallery-c03r7-%s-%d" % (label, os.getpid()))


def start_tlc(ctx):
    import concurrent.futures
    pool = concurrent.futures.ThreadPoolExecutor(max_workers=3)
    jobs = {"gal": pool.submit(ctx.tlc, "FamiliesGallery", cfg="FamiliesGallery.%s.cfg" % ctx.tier, workers=2, timeout=900,
                               extra_modules=_MODS, workdir=_wd("gal"))}
    for label, (cfg, _, _) in _DEVS.items():
        jobs[label] = pool.submit(ctx.tlc, "FamiliesGallery", cfg=cfg, workers=1, timeout=900, extra_modules=_MODS,
                                  expect_violation=True, workdir=_wd(label))
    pool.shutdown(wait=False)
    return jobs


def discard_tlc(jobs):
    from cuqiverif import tlc
    for f in jobs.values():
        try:
            tlc.cleanup(f.result())
        except BaseException:      # noqa: BLE001
            pass
    for label in _LABELS:
        tlc.cleanup(_wd(label))


def collect_tlc(ctx, jobs):
    from cuqiverif import tlc
    from cuqiverif.core import MachineryError
    out, err = {}, None
    for k, f in jobs.items():
        try:
            out[k] = f.result()
        except BaseException as e:      # noqa: BLE001
            err = err or e
    if err is not None:
        for r in out.values():
            tlc.cleanup(r)
        for label in _LABELS:
            tlc.cleanup(_wd(label))
        raise err
    ctx.model_must_hold(out["gal"], "FamiliesGallery")
    cases = list(out["gal"].cases)
    devs = {k: out[k] for k in _DEVS}
    for r in out.values():
        tlc.cleanup(r)
    for k, (cfg, inv, name) in _DEVS.items():
        if devs[k].ok or devs[k].violated != inv:
            raise MachineryError("deviation %s did not violate %s (got %r): vacuous invariant" % (name, inv, devs[k].violated))
        ctx.observations.setdefault("deviations_refuted_by_tlc", {})[name] = inv
    kinds = {}
    for c in cases:
        kinds.setdefault(c.get("kind"), []).append(c)
    for k in ("classtable", "tableau", "gallery", "stack"):
        if not kinds.get(k):
            raise MachineryError("FamiliesGallery emitted no %r case" % k)
    return kinds


# ======================================================================================================================
# the reference: Richardson tableau of central differences of the object's own log-density
# ======================================================================================================================
class Tableau:
    def __init__(self, case):
        fc = _fc()
        self.w1 = [fc.fl(q) for q in case["w1"]]
        self.w2 = [fc.fl(q) for q in case["w2"]]
        self.steps = [fc.fl(q) for q in case["steps"]]
        self.accept = fc.fl(case["accept_rel"])
        self.compare = fc.fl(case["compare_rel"])
        from cuqiverif.core import MachineryError
        if len(self.steps) != 3 or not (self.steps[0] == 2 * self.steps[1] == 4 * self.steps[2]) or not self.accept < self.compare:
            raise MachineryError("FamiliesGallery: malformed tableau case %r" % (case,))

    def reference(self, f, x):
        """-> (ref vector, scale, accepted?)  f: R^n -> float (the object's own log-density)"""
        x = np.asarray(x, dtype=float)
        n = x.size
        ref, est, fmax = np.zeros(n), np.zeros(n), 0.0
        for i in range(n):
            D = []
            for h in self.steps:
                e = np.zeros(n)
                e[i] = h
                fp, fm = f(x + e), f(x - e)
                if not (math.isfinite(fp) and math.isfinite(fm)):
                    return None, 1.0, False
                fmax = max(fmax, abs(fp), abs(fm))
                D.append((fp - fm) / (2 * h))
            r1a = self.w1[0] * D[1] + self.w1[1] * D[0]
            r1b = self.w1[0] * D[2] + self.w1[1] * D[1]
            r2 = self.w2[0] * r1b + self.w2[1] * r1a
            ref[i], est[i] = r2, abs(r2 - r1b)
        # rounding of the differences: every logd value carries a few ulps of its magnitude, divided by the smallest step
        est = est + 16 * np.finfo(float).eps * fmax / self.steps[-1]
        scale = max(1.0, float(np.max(np.abs(ref))))
        ok = bool(np.all(np.isfinite(ref))) and float(np.max(est)) <= self.accept * scale
        return ref, scale, ok


def _logd_of(obj):
    fc = _fc()

    def f(z):
        st, v, _ = fc.call(lambda: obj.logd(np.array(z)))
        if st != "value":
            return math.nan
        s = fc.scalar_of(v)
        return math.nan if s is None else float(s)
    return f


def _region(x):
    m = float(np.max(np.abs(x)))
    return "core" if m <= 2 else ("mid" if m < 3.5 else "tail")


def _judge_ref(ctx, tab, case, sig, outcome, res, ref, scale, fd=False, logf=0.0, tag=""):
    c03 = _c03()
    case = dict(case, selfdef=True)
    if fd:
        c03.judge(ctx, case, sig, outcome, res, ref, len(ref), fd=True, logf=logf, tag=tag)
    else:
        c03.judge(ctx, case, sig, outcome, res, ref, len(ref), tag=tag, tol=tab.compare * scale)


# ======================================================================================================================
# 1. class table
# ======================================================================================================================
def rows_of(classcase):
    return {r["row"]: r for cl in classcase["classes"] for r in cl["rows"]}


def check_classes(ctx, classcase, table):
    """every public class of the real package is a class of the spec's table; the rows shared with Families.tla agree"""
    import cuqi
    from cuqiverif.core import MachineryError
    spec_classes = {cl["cls"] for cl in classcase["classes"]}
    real = sorted(n for n in dir(cuqi.distribution) if isinstance(getattr(cuqi.distribution, n), type))
    unknown = [n for n in real if n not in spec_classes]
    if unknown:
        ctx.observations["classes_not_in_decision_table"] = unknown          # coverage statement of this check, not of the code
    ctx.observations["public_classes_in_decision_table"] = len([n for n in real if n in spec_classes])
    rows = rows_of(classcase)
    for (fam, cond, geom, fd), o in table.items():
        if not cond and geom == "identity" and fam in rows:
            if rows[fam]["fd" if fd else "value"] != o:
                raise MachineryError("FamiliesGallery / Families disagree on the outcome of %s (fd=%s)" % (fam, fd))
    return rows


def check_refusing_classes(ctx, tab, rows):
    """JointGaussianSqrtPrec (no log-density), JointDistribution (offers no gradient)"""
    import cuqi
    fc, c03 = _fc(), _c03()
    case = {"kind": "classrow", "row": "JointGaussianSqrtPrec"}
    cls = getattr(cuqi.distribution, "JointGaussianSqrtPrec", None)
    if cls is not None:
        for fd in (False, True):
            st, obj, _ = fc.call(lambda: cls([np.array([1.0, -1.0])], [np.array([[1.0, 2.0], [0.0, 1.0]])]))
            if st == "raise":
                _obs(ctx, "construction_failed", "JointGaussianSqrtPrec")
                break
            if fd and fc.call(lambda: obj.enable_FD())[0] == "raise":
                continue
            x = np.array([0.5, 2.0])
            res = fc.call(lambda: obj.gradient(np.array(x)))
            ctx.case(("classrow", "JointGaussianSqrtPrec", fd), facet="class_rows")
            if res[0] == "value" and res[1] is not None:
                if fc.call(lambda: obj.logd(np.array(x)))[0] == "raise":
                    _obs(ctx, "gradient_returned_by_an_object_without_log_density", "JointGaussianSqrtPrec")   # nothing to compare with
                    continue
                ref, scale, ok = tab.reference(_logd_of(obj), x)        # the class got a log-density: its gradient is judged like any other
                if ok:
                    _judge_ref(ctx, tab, case, "classrow/JointGaussianSqrtPrec/fd=%d" % fd, "Refused", res, ref, scale, fd=fd,
                               tag="JointGaussianSqrtPrec")
                continue
            c03.judge(ctx, case, "classrow/JointGaussianSqrtPrec/fd=%d" % fd, rows["JointGaussianSqrtPrec"]["fd" if fd else "value"],
                      res, None, 2, tag="JointGaussianSqrtPrec")
    jd = getattr(cuqi.distribution, "JointDistribution", None)
    if jd is not None:
        st, J, _ = fc.call(lambda: jd(cuqi.distribution.Gaussian(np.zeros(2), 1.0, name="a"), cuqi.distribution.Gamma(1.0, 1.0, name="b")))
        if st == "value":
            ctx.case(("classrow", "JointDistribution"), facet="class_rows")
            if hasattr(J, "gradient"):
                _obs(ctx, "joint_distribution_offers_a_gradient", "JointDistribution")     # not modelled: observation only
            else:
                ctx.facets["refused_as_specified"] = ctx.facets.get("refused_as_specified", 0) + 1


# ======================================================================================================================
# 2. the benchmark gallery
# ======================================================================================================================
def _gallery(name):
    import cuqi
    return cuqi.distribution.DistributionGallery(name)


def _pt(case):
    return _fc().vec(case["x"])


def check_gallery_name(ctx, tab, name, pts, rows):
    """all lattice points of ONE benchmark on ONE object (pass 1 in lattice order, logd and gradient interleaved; pass 2 in
    reverse order), a second object with enable_FD(), integer points in other containers."""
    import cuqi
    fc = _fc()
    from cuqiverif.core import MachineryError
    if getattr(cuqi.distribution, "DistributionGallery", None) is None:
        raise MachineryError("cuqi.distribution.DistributionGallery disappeared")
    st, dist, _ = fc.call(lambda: _gallery(name))
    if st == "raise":
        ctx.mismatch("gallery/construct/%s" % name, {"kind": "gallery", "name": name}, "benchmark distribution cannot be built: %r" % (dist,))
        return
    st, dfd, _ = fc.call(lambda: _gallery(name))
    fd_on = st == "value" and fc.call(lambda: dfd.enable_FD())[0] == "value"
    row = rows["Gallery:" + name]
    f = _logd_of(dist)
    pts = sorted(pts, key=lambda c: (c["cfg"]["i"], c["cfg"]["j"]))
    refs = {}
    smooth = judged = 0
    for n, case in enumerate(pts):
        x = _pt(case)
        key = (case["cfg"]["i"], case["cfg"]["j"])
        if not case["smooth"]:
            # the log-density is not differentiable here: whatever is returned is only recorded
            r = fc.call(lambda: dist.gradient(np.array(x)))
            _obs(ctx, "gallery_nonsmooth_point", "%s:%s" % (name, "raise" if r[0] == "raise" else "value"))
            continue
        smooth += 1
        ref, scale, ok = tab.reference(f, x)
        if not ok:
            _obs(ctx, "gallery_reference_not_converged", name)
            continue
        judged += 1
        refs[key] = (ref, scale)
        sig = "gallery/gradient/%s/region=%s" % (name, _region(x))
        ctx.case(("gallery", name, key, 1), facet="gallery_gradient")
        _judge_ref(ctx, tab, case, sig + "/container=ndarray/pass=1", row["value"], fc.call(lambda: dist.gradient(np.array(x))), ref, scale,
                   tag="Gallery:" + name)
        if fd_on and (n + ctx.seed) % 3 == 0:
            ctx.case(("galleryFD", name, key), facet="gallery_gradient_fd")
            _judge_ref(ctx, tab, case, "gallery/gradientFD/%s/region=%s" % (name, _region(x)), row["fd"],
                       fc.call(lambda: dfd.gradient(np.array(x))), ref, scale, fd=True, logf=f(x), tag="Gallery:%s/FD" % name)
        if case["integer"] and (n + ctx.seed) % 2 == 0:
            for kind, mk in (("int64", lambda: np.array(x, dtype=np.int64)), ("list", lambda: [float(v) for v in x])):
                r = fc.call(lambda: dist.gradient(mk()))
                if r[0] == "raise":
                    _obs(ctx, "point_container_refused", "Gallery:%s/%s" % (name, kind))
                    continue
                ctx.case(("gallery", name, key, kind), facet="gallery_gradient_container")
                _judge_ref(ctx, tab, case, sig + "/container=%s/pass=1" % kind, row["value"], r, ref, scale, tag="Gallery:%s/%s" % (name, kind))
    for case in reversed(pts):
        key = (case["cfg"]["i"], case["cfg"]["j"])
        if key not in refs:
            continue
        x = _pt(case)
        ref, scale = refs[key]
        ctx.case(("gallery", name, key, 2), facet="gallery_gradient")
        _judge_ref(ctx, tab, case, "gallery/gradient/%s/region=%s/container=ndarray/pass=2" % (name, _region(x)), row["value"],
                   fc.call(lambda: dist.gradient(np.array(x))), ref, scale, tag="Gallery:" + name)
    if smooth and judged < 0.9 * smooth:
        raise MachineryError("gallery %s: the reference converged at %d of %d smooth lattice points only (vacuous facet)" % (name, judged, smooth))
    return judged


# user-defined likelihood with a polynomial log-density and its exact gradient
def _poly(z):
    z = np.asarray(z, dtype=float).ravel()
    return float(-(z[0] - 1.0) ** 2 - 0.5 * z[0] * z[1] - 0.25 * z[1] ** 2)


def _dpoly(z):
    z = np.asarray(z, dtype=float).ravel()
    return np.array([-2.0 * (z[0] - 1.0) - 0.5 * z[1], -0.5 * z[0] - 0.5 * z[1]])


_A = np.array([[1.0, 2.0], [0.0, 1.0], [-1.0, 1.0]])
_Y = np.array([1.0, -1.0, 2.0])
_Y2 = np.array([0.0, 1.0])


def _posteriors(name):
    """(kind, builder) of posteriors whose prior is the benchmark `name`"""
    import cuqi

    def userlik():
        L = cuqi.likelihood.UserDefinedLikelihood(dim=2, logpdf_func=_poly, gradient_func=_dpoly, geometry=cuqi.geometry.Continuous1D(2))
        return cuqi.distribution.Posterior(L, _gallery(name))

    def gausslik():
        y = cuqi.distribution.Gaussian(cuqi.model.LinearModel(_A), cov=np.array([1.0, 0.25, 4.0]))
        return cuqi.distribution.Posterior(y.to_likelihood(np.array(_Y)), _gallery(name))

    def multi():
        x = cuqi.distribution.DistributionGallery(name, name="x")
        y1 = cuqi.distribution.Gaussian(cuqi.model.LinearModel(_A), cov=np.array([1.0, 0.25, 4.0]), name="y1")
        y2 = cuqi.distribution.Gaussian(cuqi.model.Model(lambda x: np.array([x[0] * x[1], x[0] + x[1] ** 2]), 2, 2,
                                                         jacobian=lambda x: np.array([[x[1], x[0]], [1.0, 2 * x[1]]])), cov=2.0, name="y2")
        return cuqi.distribution.JointDistribution(x, y1, y2)(y1=np.array(_Y), y2=np.array(_Y2))
    return (("userlik", userlik), ("gausslik", gausslik), ("multi", multi))


def check_gallery_posteriors(ctx, tab, name, pts, rows):
    fc = _fc()
    pts = [c for c in sorted(pts, key=lambda c: (c["cfg"]["i"], c["cfg"]["j"])) if c["smooth"]]
    step = 7 if ctx.tier == "quick" else 5
    for k, (kind, mk) in enumerate(_posteriors(name)):
        st, post, _ = fc.call(mk)
        if st == "raise":
            _obs(ctx, "construction_failed", "gallery_posterior/%s/%s" % (kind, name))
            continue
        f = _logd_of(post)
        for n, case in enumerate(pts):
            if (n + k + ctx.seed) % step:
                continue
            x = _pt(case)
            ref, scale, ok = tab.reference(f, x)
            if not ok:
                _obs(ctx, "gallery_reference_not_converged", "%s/%s" % (kind, name))
                continue
            ctx.case(("gallerypost", kind, name, case["cfg"]["i"], case["cfg"]["j"]), facet="gallery_posterior_gradient")
            _judge_ref(ctx, tab, dict(case, posterior=kind), "gallery/posterior/%s/%s/region=%s" % (kind, name, _region(x)),
                       rows["Posterior" if kind != "multi" else "MultipleLikelihoodPosterior"]["value"],
                       fc.call(lambda: post.gradient(np.array(x))), ref, scale, tag="gallery_posterior/%s" % kind)


# ======================================================================================================================
# 3. stacked joint, user-defined likelihood
# ======================================================================================================================
def _part(case, name):
    """real distribution of one `family` case (Gaussian: dense covariance), named"""
    import cuqi
    fc = _fc()
    if case["fam"] == "Gaussian":
        cov = fc.gaussian_param("dense", [i for i in case["inputs"] if i["form"] == "cov" and i["shape"] == "dense"][0]["data"])
        return cuqi.distribution.Gaussian(np.array(fc.vec(case["par"]["mean"])), cov=cov, name=name)
    way, builder = next(iter(fc.family_variants(case, callable_way=False)))
    d = builder()
    d.name = name
    return d


def check_stack(ctx, case, rows):
    import cuqi
    fc, c03 = _fc(), _c03()
    A, B = case["parts"]
    x = np.concatenate([fc.vec(A["x"]), fc.vec(B["x"])])
    g = fc.vec(case["grad"])
    ell = fc.sl_float(case["logd"])
    base = "stack/%s+%s/dims=%d+%d" % (A["fam"], B["fam"], A["dim"], B["dim"])
    cid = (fc.case_id(A), fc.case_id(B))
    cls = getattr(cuqi.distribution, "_StackedJointDistribution", None)
    if cls is not None:
        for fd in (False, True):
            st, S, _ = fc.call(lambda: cls(_part(A, "p1"), _part(B, "p2")))
            if st == "raise":
                _obs(ctx, "construction_failed", "stacked")
                break
            if fd and fc.call(lambda: S.enable_FD())[0] == "raise":
                continue
            r = fc.call(lambda: S.logd(np.array(x)))
            got = fc.scalar_of(r[1]) if r[0] == "value" else None
            ctx.case(("stack", cid, fd, "logd"), facet="stacked_logd")
            if got is None:
                _obs(ctx, "stacked_logd_refused", base)
            elif not fc.close(got, ell, 1e-9, 1e-9):
                ctx.mismatch("logd/" + base, case, "log-density of the stacked joint is not the sum of its parts", ell, r[1])
                continue
            ctx.case(("stack", cid, fd, "gradient"), facet="stacked_gradient" + ("_fd" if fd else ""))
            row = rows["_StackedJointDistribution"]
            c03.judge(ctx, case, ("gradientFD/" if fd else "gradient/") + base, row["fd" if fd else "value"],
                      fc.call(lambda: S.gradient(np.array(x))), g, len(x), fd=fd, logf=ell, tag="stacked" + ("/FD" if fd else ""))
    # user-defined likelihood on the Gaussian part: log-density E + gA.(z - xA) with the spec's exact E, gA
    UDL = getattr(getattr(cuqi, "likelihood", None), "UserDefinedLikelihood", None)
    if UDL is None:
        return
    xA, gA, E = fc.vec(A["x"]), fc.expected_grad(A), fc.expected_logpdf(A)
    lin = lambda z: E + float(gA @ (np.asarray(z, dtype=float).ravel() - xA))      # noqa: E731
    ubase = "UserDefinedLikelihood/dim=%d" % A["dim"]
    for way, kw in (("gradient_func", {"gradient_func": (lambda z: np.array(gA))}), ("none", {})):
        st, L, _ = fc.call(lambda: UDL(dim=A["dim"], logpdf_func=lin, geometry=cuqi.geometry.Continuous1D(A["dim"]), **kw))
        if st == "raise":
            _obs(ctx, "construction_failed", "UserDefinedLikelihood/" + way)
            continue
        row = rows["UserDefinedLikelihood:" + way]
        ctx.case(("udl", cid[0], way), facet="gradient_userdefined_likelihood")
        c03.judge(ctx, case, "gradient/%s/way=%s" % (ubase, way), row["value"], fc.call(lambda: L.gradient(np.array(xA))),
                  gA, A["dim"], tag="UserDefinedLikelihood/" + way)       # (row Refused: a correct vector would be an observation)
        # sum rule: posterior of this likelihood and the Gaussian part as prior: log-density 2 E, gradient 2 gA
        st, P, _ = fc.call(lambda: cuqi.distribution.Posterior(L, _part(A, "x")))
        if st == "raise":
            _obs(ctx, "construction_failed", "Posterior(UserDefinedLikelihood)/" + way)
            continue
        if way == "gradient_func":
            r = fc.call(lambda: P.logd(np.array(xA)))
            got = fc.scalar_of(r[1]) if r[0] == "value" else None
            ctx.case(("udlpost", cid[0], "logd"), facet="posterior_userdefined_likelihood")
            if got is None or not fc.close(got, 2 * E, 1e-9, 1e-9):
                ctx.mismatch("logd/posterior/" + ubase, case, "posterior logd is not log-likelihood + log-prior", 2 * E,
                             r[1] if r[0] == "value" else repr(r[1]))
            ctx.case(("udlpost", cid[0], "gradient"), facet="posterior_userdefined_likelihood")
            c03.judge(ctx, case, "gradient/posterior/%s/way=%s" % (ubase, way), "Value", fc.call(lambda: P.gradient(np.array(xA))),
                      2 * gA, A["dim"], tag="Posterior(UserDefinedLikelihood)")
        else:
            ctx.case(("udlpost", cid[0], "refused"), facet="posterior_userdefined_likelihood")
            c03.judge(ctx, case, "gradient/posterior/%s/way=%s" % (ubase, way), "Refused", fc.call(lambda: P.gradient(np.array(xA))),
                      2 * gA, A["dim"], tag="Posterior(UserDefinedLikelihood:none)")
        st2 = fc.call(lambda: P.enable_FD())[0]
        if st2 == "value":
            ctx.case(("udlpost", cid[0], way, "fd"), facet="posterior_userdefined_likelihood")
            c03.judge(ctx, case, "gradientFD/posterior/%s/way=%s" % (ubase, way), "ValueFD", fc.call(lambda: P.gradient(np.array(xA))),
                      2 * gA, A["dim"], fd=True, logf=2 * E, tag="Posterior(UserDefinedLikelihood)/FD")


# ======================================================================================================================
def run(ctx, table, jobs):
    from cuqiverif.core import MachineryError
    kinds = collect_tlc(ctx, jobs)
    tab = Tableau(kinds["tableau"][0])
    rows = check_classes(ctx, kinds["classtable"][0], table)
    check_refusing_classes(ctx, tab, rows)
    by_name = {}
    for c in kinds["gallery"]:
        by_name.setdefault(c["name"], []).append(c)
    judged = {}
    for name in sorted(by_name):
        judged[name] = check_gallery_name(ctx, tab, name, by_name[name], rows)
        check_gallery_posteriors(ctx, tab, name, by_name[name], rows)
    if not judged or any(not v for v in judged.values()):
        raise MachineryError("gallery: no lattice point judged for %r" % ([k for k, v in judged.items() if not v],))
    ctx.observations["gallery_points_judged"] = judged
    stacks = sorted(kinds["stack"], key=lambda c: (_fc().case_id(c["parts"][0]), _fc().case_id(c["parts"][1])))
    for c in stacks:
        check_stack(ctx, c, rows)
    ctx.traces = (ctx.traces or 0) + len(by_name) + len(stacks)
    ctx.sample({"gallery_tableau": kinds["tableau"][0]})
    return len(kinds["gallery"]) + len(stacks)


_REPLAY = {}


def replay(ctx, table, case):
    """re-execute one stored case (needs the tableau / class table of the spec: a small TLC run)"""
    if _REPLAY.get("ctx") is not ctx:
        kinds = collect_tlc(ctx, start_tlc(ctx))
        _REPLAY.update(ctx=ctx, tab=Tableau(kinds["tableau"][0]), rows=rows_of(kinds["classtable"][0]))
    tab, rows = _REPLAY["tab"], _REPLAY["rows"]
    if case.get("kind") == "gallery":
        if case.get("posterior"):
            # one posterior kind at one point
            fc = _fc()
            for kind, mk in _posteriors(case["name"]):
                if kind != case["posterior"]:
                    continue
                post = mk()
                x = _pt(case)
                ref, scale, ok = tab.reference(_logd_of(post), x)
                if ok:
                    _judge_ref(ctx, tab, case, "gallery/posterior/%s/%s/region=%s" % (kind, case["name"], _region(x)), "Value",
                               fc.call(lambda: post.gradient(np.array(x))), ref, scale)
            return
        check_gallery_name(ctx, tab, case["name"], [case], rows)
    elif case.get("kind") == "stack":
        check_stack(ctx, case, rows)
    elif case.get("kind") == "classrow":
        check_refusing_classes(ctx, tab, rows)
