"""C02, round 7: realisation of specs/MHReconf.tla (EXTENDS MHKernel).

  * a CONSTRUCTED sampler re-configured through its public attributes and re-initialised
        cuqi.experimental.mcmc : initial_point / initial_scale / target, then reinitialize()
        cuqi.sampler           : x0 / scale / target, then a new sample() call (and, with the state threaded by the harness
                                 as _sample does, single_update)
    after Reinit: point = the configured initial point, every cached evaluation = a fresh evaluation at that point under
    the CURRENT target, scale = the configured scale; the transitions that follow are decided with a uniform 1e-6 below /
    above the specification's exp(r)
  * the proposal OBJECT of the random-walk kernel (symmetry flag True / False / None / missing x centre of the increment law):
    refused, or admitted and decided with the ratio of the mode the specification emitted (symmetric for an object known to be
    symmetric about zero, full Hastings ratio otherwise)
  * the data LAYOUT of points and scales (lists, integer arrays, float32, 0-d, (n,1), in-place edit of the array handed over).
    The lattice of the specification is embedded as  real = h * lattice  (h = 1/2 whenever every initial point of the
    behaviour stays representable in the layout, i.e. has even coordinates; otherwise h = 1): accepted states are then
    non-integer and an integer-typed buffer that truncates them is visible.  All comparisons are made in lattice units.

Everything numeric comes from the specification's emission (see mhkernel_real.py).
"""
import math
import numpy as np

from . import mhkernel_real as R
from .script_rng import scripted, ScriptError
from .tlc import MachineryError

# layouts whose meaning the anchored docstrings fix ("initial_point : array-like" (Sampler) / "ndarray" (CWMH), "x0 : ndarray",
# "scale : float" / "float or ndarray" / "int"); a mismatch under any other layout is an observation
ASSERTED_X = {"f64", "int", "f32", "inplace"}
ASSERTED_S = {"float", "int", "npfloat", "f32"}


def x_asserted(cfg, xl):
    if xl in ASSERTED_X:
        return True
    return xl == "list" and cfg["iface"] == "exp" and cfg["k"] != "CW"      # Sampler docstring: array-like


def integral(v):
    v = np.asarray(v, dtype=float)
    return bool(np.all(v == np.rint(v)))


def lay_x(u, xl):
    """real point u (float vector) in layout xl -> (object handed to the sampler, layout really used)"""
    u = np.array(u, dtype=float).reshape(-1)
    if xl == "int":
        if integral(u):
            return u.astype(int), "int"
        return u.copy(), "f64"
    if xl == "list":
        return ([int(q) for q in u] if integral(u) else [float(q) for q in u]), "list"
    if xl == "f32":
        return u.astype(np.float32), "f32"
    if xl == "col":
        return u.reshape(-1, 1).copy(), "col"
    if xl == "zerod":
        if u.size == 1:
            return np.array(float(u[0])), "zerod"
        return tuple(float(q) for q in u), "tuple"
    return u.copy(), ("inplace" if xl == "inplace" else "f64")


def lay_s(v, sl, cw):
    """real scale v (float, or vector for the component-wise kernel) in layout sl -> (object, layout really used)"""
    if cw:
        a = np.array(v, dtype=float).reshape(-1)
        uniform = bool(np.all(a == a[0]))
        if sl == "float":
            return (float(a[0]), "float") if uniform else (a.copy(), "f64arr")
        if sl == "int":
            if integral(a):
                return (int(a[0]), "int") if uniform else (a.astype(int), "intarr")
            return a.copy(), "f64arr"
        if sl == "npfloat":
            return a.copy(), "f64arr"
        if sl == "f32":
            return a.astype(np.float32), "f32arr"
        if sl == "zerod":
            return (np.array(float(a[0])), "zerod") if uniform else (a.copy(), "f64arr")
        if sl == "list":
            return [float(q) for q in a], "list"
        return a.copy(), "f64arr"
    v = float(v)
    if sl == "int":
        return (int(v), "int") if integral(v) else (v, "float")
    if sl == "npfloat":
        return np.float64(v), "npfloat"
    if sl == "f32":
        return (np.float32(v), "f32") if float(np.float32(v)) == v else (v, "float")
    if sl == "zerod":
        return np.array(v), "zerod"
    return v, "float"          # "float", "list" (a list is no scale of a scalar-scale kernel)


S_ASSERTED_REAL = {"float", "int", "npfloat", "f32", "f64arr", "intarr", "f32arr"}
X_ASSERTED_REAL = {"f64", "int", "f32", "inplace"}


class ScaledTable(R.TableTarget):
    """table target on the embedded lattice real = h * lattice; evaluation points are logged in lattice units"""

    def __init__(self, d, rows, h):
        super().__init__(d, rows)
        self.h = float(h)

    def logpdf(self, x):
        return super().logpdf(np.array(x, dtype=float).reshape(-1) / self.h)

    def gradient(self, x):
        return super().gradient(np.array(x, dtype=float).reshape(-1) / self.h) / self.h


def build(cfg, rows, h):
    import cuqi
    d = cfg["d"]
    T = ScaledTable(d, rows, h)
    if cfg["k"] != "PCN":
        return cuqi.distribution.UserDefinedDistribution(dim=d, logpdf_func=T.logpdf, gradient_func=T.gradient), T
    prior = cuqi.distribution.Gaussian(h * float(cfg["m"]) * np.ones(d), h * h)
    lik = cuqi.likelihood.UserDefinedLikelihood(dim=d, logpdf_func=T.logpdf, gradient_func=T.gradient)
    return cuqi.distribution.Posterior(lik, prior), T


def proposal_object(prop, d):
    """the proposal object [kind, flag, mu] of the specification: increments xi = mu + z, z standard normal (numpy's global stream)"""
    import cuqi
    mu = float(prop["mu"])
    kw = {"true": {"is_symmetric": True}, "false": {"is_symmetric": False}, "none": {"is_symmetric": None}, "missing": {}}[prop["flag"]]
    if prop["kind"] == "gauss":
        if prop["flag"] == "true":
            kw = {}                      # the library's own default
        return cuqi.distribution.Gaussian(mu * np.ones(d), 1, **kw)
    if prop["flag"] == "none":
        kw = {}                          # the default of a user-defined distribution
    p = cuqi.distribution.UserDefinedDistribution(dim=d, sample_func=lambda: mu + np.random.standard_normal(d), **kw)
    if prop["flag"] == "missing":
        try:
            del p.is_symmetric
        except AttributeError:
            raise MachineryError("the attribute is_symmetric of a distribution cannot be removed")
    return p


DEFAULT_PROP = {"kind": "gauss", "flag": "true", "mu": 0}


class _Common:
    def _setup(self, cfg, root, layout, h, prop):
        self.cfg = dict(cfg)
        self.root = root
        self.real = "user"
        self.h = float(h)
        self.xl, self.sl = layout["x"], layout["s"]
        self.prop = prop
        self.rows = root["tabs"][cfg["tgt"]] if "tabs" in root else root["rows"]
        self._init_source(cfg)
        self.target, self.T = build(cfg, self.rows, self.h)
        self.const = 0.0
        self.sv0 = root["sv"]
        self.s = None
        self.ref = None
        self.used = {"x": set(), "s": set()}
        self.x0_obj = None
        self.force_flag = False
        self.how = "ctor"              # "assign": the proposal object is assigned to a constructed sampler, then Reinit
        self.kept_refused = None

    # units -----------------------------------------------------------------------------------------------------
    def sfac(self):
        k = self.cfg["k"]
        return 1.0 if k == "PCN" else (self.h * self.h if k == "MALA" else self.h)

    def real_scale(self, sv):
        v = R.vec(sv) * self.sfac()
        return v if self.cfg["k"] == "CW" else float(v[0])

    def scale_obj(self, sv):
        o, used = lay_s(self.real_scale(sv), self.sl, self.cfg["k"] == "CW")
        self.used["s"].add(used)
        return o

    def point_obj(self, p):
        o, used = lay_x(np.array(p, dtype=float) * self.h, self.xl)
        self.used["x"].add(used)
        return o

    def to_lattice(self, out):
        out = dict(out)
        out["x"] = out["x"] / self.h
        if "cgrad" in out:
            out["cgrad"] = out["cgrad"] * self.h
        out["scale"] = out["scale"] / self.sfac()
        return out

    def prop_kwargs(self):
        if self.prop is None or self.prop == DEFAULT_PROP:
            return {}
        if self.force_flag:            # binding self-test only: the object claims to be symmetric (it is admitted whatever its law)
            return {"proposal": proposal_object(dict(self.prop, kind="user", flag="true"), self.cfg["d"])}
        return {"proposal": proposal_object(self.prop, self.cfg["d"])}

    def new_target(self, tgt):
        self.cfg["tgt"] = tgt
        self.rows = self.root["tabs"][tgt]
        self.target, self.T = build(self.cfg, self.rows, self.h)
        self.ref = None
        return self.target

    def asserted(self):
        """every layout really used so far is one the docstrings describe"""
        xs = all(q in X_ASSERTED_REAL or (q == "list" and x_asserted(self.cfg, "list")) for q in self.used["x"])
        return xs and all(q in S_ASSERTED_REAL for q in self.used["s"])


class RExp(_Common, R.ExpDriver):
    def __init__(self, cfg, root, layout, h=1.0, prop=None):
        import cuqi
        self._setup(cfg, root, layout, h, prop)
        self.cls = R._cls(cuqi.experimental.mcmc, R.EXP[cfg["k"]])

    def construct(self):
        self.x0_obj = self.point_obj(self.cfg["x0"])
        kw = self.prop_kwargs()
        if self.how == "assign" and kw:
            self.s = self.cls(self.target, scale=self.scale_obj(self.sv0), initial_point=self.x0_obj)
            self.s.initialize()
            try:
                self.s.proposal = kw["proposal"]
            except Exception:
                self.kept_refused = getattr(self.s, "proposal", None) is kw["proposal"]
                raise
            self.s.reinitialize()
            return
        self.s = self.cls(self.target, scale=self.scale_obj(self.sv0), initial_point=self.x0_obj, **kw)
        self.s.initialize()

    def state(self):
        return self.to_lattice(R.ExpDriver.state(self))

    def set_scale(self, sv):
        self.s.scale = self.real_scale(sv)

    def assign(self, e):
        a = e["attr"]
        if a == "x0":
            if self.xl == "inplace":
                self.x0_obj[...] = np.array(e["v"], dtype=float) * self.h       # edit of the array object handed over
                self.used["x"].add("inplace")
            else:
                self.x0_obj = self.point_obj(e["v"])
                self.s.initial_point = self.x0_obj
        elif a == "sc":
            self.s.initial_scale = self.scale_obj(e["sv"])
        elif a == "tgt":
            self.s.target = self.new_target(e["v"])
        else:
            raise MachineryError("unknown attribute %r" % a)

    def reinit(self):
        self.s.reinitialize()

    def loop(self, normals, uniforms, n):
        """sample(n) on the object: (flags, state) after every step() of the loop"""
        from .zoo import quiet
        seen, orig = [], self.s.step

        def step(*a, **k):
            r = orig(*a, **k)
            seen.append((R._flag(r, self.cls.__name__), self.state()))
            return r
        self.s.step = step
        try:
            with scripted({"normal": list(normals), "uniform": list(uniforms)}) as st, quiet():
                self.s.sample(n)
                left = st.remaining()
        finally:
            del self.s.step
        return seen, left


class RLeg(_Common, R.LegDriver):
    def __init__(self, cfg, root, layout, h=1.0, prop=None):
        import cuqi
        self._setup(cfg, root, layout, h, prop)
        self.cls = R._cls(cuqi.sampler, R.LEG[cfg["k"]])
        self.st = None

    def _initial(self):
        """what _sample() computes before its loop, from the sampler's own attributes"""
        k = self.cfg["k"]
        x = np.array(self.s.x0, dtype=float).reshape(-1).copy()
        self.st = {"x": x}
        if k == "PCN":
            self.st["clik"] = float(self.s.likelihood.logd(x))
        else:
            self.st["clp"] = float(self.s.target.logd(x))
        if k == "MALA":
            self.st["cgrad"] = np.array(self.s.target.gradient(x), dtype=float).reshape(-1)

    def construct(self):
        from .zoo import quiet
        self.x0_obj = self.point_obj(self.cfg["x0"])
        kw = self.prop_kwargs()
        with quiet():
            if self.how == "assign" and kw:
                self.s = self.cls(self.target, scale=self.scale_obj(self.sv0), x0=self.x0_obj)
                try:
                    self.s.proposal = kw["proposal"]
                except Exception:
                    self.kept_refused = getattr(self.s, "proposal", None) is kw["proposal"]
                    raise
            else:
                self.s = self.cls(self.target, scale=self.scale_obj(self.sv0), x0=self.x0_obj, **kw)
        if not hasattr(self.s, "single_update"):
            raise MachineryError("legacy %s has no single_update" % self.cls.__name__)
        self._initial()

    def state(self):
        return self.to_lattice(R.LegDriver.state(self))

    def set_scale(self, sv):
        from .zoo import quiet
        state = np.random.get_state()
        try:
            np.random.seed(12345)
            ev = (len(self.T.evals), len(self.T.gevals))
            with quiet():
                self.s.sample_adapt(10, 0)
            del self.T.evals[ev[0]:], self.T.gevals[ev[1]:]
        finally:
            np.random.set_state(state)
        self.s.scale = self.real_scale(sv)

    def assign(self, e):
        a = e["attr"]
        if a == "x0":
            if self.xl == "inplace":
                self.x0_obj[...] = np.array(e["v"], dtype=float) * self.h
                self.used["x"].add("inplace")
            else:
                self.x0_obj = self.point_obj(e["v"])
                self.s.x0 = self.x0_obj
        elif a == "sc":
            self.s.scale = self.scale_obj(e["sv"])
        elif a == "tgt":
            self.s.target = self.new_target(e["v"])
        else:
            raise MachineryError("unknown attribute %r" % a)

    def reinit(self):
        self._initial()

    def run_sample(self, normals, uniforms, n):
        """sampler.sample(n + 1) on the object -> (states (d, n+1) in lattice units, recorded evaluations (n+1))"""
        from .zoo import quiet
        with scripted({"normal": list(normals), "uniform": list(uniforms)}) as st, quiet():
            res = self.s.sample(n + 1)
            left = st.remaining()
        try:
            X = np.asarray(res.samples, dtype=float)
            le = np.asarray(res.loglike_eval, dtype=float).reshape(-1)
            if X.shape != (self.cfg["d"], n + 1) or le.size != n + 1:
                raise ValueError("shapes %r %r" % (X.shape, le.shape))
        except Exception as ex:
            raise MachineryError("sample(%d) of %s returned no (samples, loglike_eval) of %d states: %s" % (n + 1, self.cls.__name__, n + 1, ex))
        return X / self.h, le, left


def driver(cfg, root, layout, h, prop, force_flag=False, how="ctor"):
    d = (RExp if cfg["iface"] == "exp" else RLeg)(cfg, root, layout, h, prop)
    d.force_flag = force_flag
    d.how = how
    return d


# ----------------------------------------------------------------------------------------------------------------
def pick_h(beh, root=None):
    """1/2 when every initial point of the behaviour has even coordinates (stays representable in an integer layout) and every
    target of the behaviour is finite at the samplers' default initial point ones(d) (lattice point (2,..,2) under h = 1/2:
    MH / CWMH validate_target refuses a target that is NaN there, documented)"""
    pts = [beh["cfg"]["x0"]] + [e["v"] for e in beh["prog"] if e["a"] == "c" and e["attr"] == "x0"]
    if beh.get("prop", DEFAULT_PROP) != DEFAULT_PROP:
        return 1.0
    if not all(int(q) % 2 == 0 for p in pts for q in p):
        return 1.0
    if root is not None and "tabs" in root:
        tg = [beh["cfg"]["tgt"]] + [e["v"] for e in beh["prog"] if e["a"] == "c" and e["attr"] == "tgt"]
        for t in tg:
            for r in root["tabs"][t]:
                if all(int(q) == 2 for q in r["p"]) and r["t"][1] <= 0:
                    return 1.0
    return 0.5


def int_visible(beh, root):
    """the behaviour shows a truncating integer buffer: integer layout of the points, embedding h = 1/2 (every initial point
    stays integral) and an accepted proposal that is not integral"""
    if root["layout"]["x"] != "int" or pick_h(beh, root) != 0.5:
        return False
    return any(d["acc"] and not integral(np.array(p["y"], dtype=float) * 0.5)
               for kind, e in R.split_transitions(beh["prog"]) if kind == "T" for p, d in e)


def script_for(cfg, pairs, prop, salt):
    """mhkernel_real.script_for; the increments of a proposal object centred at mu are mu + z"""
    normals, us = R.script_for(cfg, pairs, salt=salt)
    if cfg["k"] == "RW" and prop and prop.get("mu"):
        normals = [normals[0] - float(prop["mu"])]
    return normals, us


def new_stats():
    return {"refused": {}, "admitted": {}, "layouts": {}, "layout_refused": {}, "layout_unasserted_mismatch": {}, "reinit": {},
            "attrs": {}, "transitions": 0, "hastings_differs": 0, "via": {}, "int_nonintegral_accept": {}, "refused_assignment_keeps_object": {}}


def _sig(facet, beh, lay):
    c = beh["cfg"]
    if facet == "propsym":
        p = beh["prop"]
        return "propsym/%s/%s/d=%d/how=%s/kind=%s/flag=%s/mu=%d" % (c["k"], c["iface"], c["d"], beh.get("how", "ctor"), p["kind"], p["flag"], p["mu"])
    b = "%s/%s/%s/d=%d/tgt=%s/m=%d" % (facet, c["k"], c["iface"], c["d"], c["tgt"], c["m"])
    if facet == "layout":
        b += "/lay=" + lay
    return b


class _Quiet:
    """collects the mismatches of a run under a layout the docstrings do not describe: reported as an observation"""
    def __init__(self):
        self.hits = []

    def mismatch(self, sig, *a, **k):
        self.hits.append(sig)
        return True


def run_rbeh(ctx, beh, root, facet, salt=0, stats=None, via="step", tamper=None, force_flag=False):
    """Execute one behaviour of MHReconf on the real sampler, comparing after every action.  -> transitions run.
    facet: "reconf" | "layout" | "propsym" (signature prefix).  via: "step" (step() / single_update with the state threaded by
    the harness) | "sample" (the public loops: sample(n) / reinitialize() / sample(n); legacy: sample(n+1), attributes,
    sample(n+1) on ONE sampler object).  tamper (binding self-test only): callable(driver) run right after Reinit."""
    cfg = beh["cfg"]
    k = cfg["k"]
    stats = stats if stats is not None else new_stats()
    lay = beh.get("lay", "base")
    layout = root["layout"]
    prop = beh.get("prop", DEFAULT_PROP)
    h = pick_h(beh, root)
    base = _sig(facet, beh, lay)
    if via != "step":
        base += "/via=" + via
    case = {"kind": "rbeh", "cfg": cfg, "lay": lay, "prop": prop, "mode": beh.get("mode"), "how": beh.get("how", "ctor"), "prog": beh["prog"], "root": root,
            "facet": facet, "salt": salt, "via": via}
    drv = driver(cfg, root, layout, h, prop, force_flag, beh.get("how", "ctor"))
    plain = lay == "base"
    real_ctx = ctx

    def refused(where, ex):
        R._bump(stats["layout_refused"], "%s/%s/%s: %s at %s" % (k, cfg["iface"], lay, type(ex).__name__, where))

    try:
        drv.construct()
    except MachineryError:
        raise
    except Exception as ex:
        if facet == "propsym":
            raise          # handled by the caller (admission is judged per root)
        if not plain:
            refused("construction", ex)
            return 0
        ctx.mismatch(base + "/construct", case, "sampler cannot be constructed: %s: %s" % (type(ex).__name__, str(ex)[:200]))
        return 0

    def judge():
        """the context the comparisons report to: the real one, or - once a layout outside the documentation is in use - a collector"""
        return real_ctx if (plain or drv.asserted()) else quiet_ctx
    quiet_ctx = _Quiet()

    def compare(exp, clause, what, pos):
        got = drv.state()
        for q in ("x", "clp", "cgrad", "clik", "scale"):
            if q not in exp:
                continue
            if q not in got or got[q] is None:
                raise MachineryError("state of %s has no entry for %s" % (drv.cls.__name__, q))
            g = got[q]
            e = np.asarray(exp[q], dtype=float).reshape(-1)
            if q == "scale" and g.size == 1 and e.size > 1:
                g = np.full(e.shape, g[0])
            if not R.close(g, e):
                name = R.CACHE_NAME[q]
                judge().mismatch("%s/%s/%s" % (base, clause, name), dict(case, pos=pos),
                                 "%s: %s differs from the specification's state (lattice units; embedding h=%g, layout %s)" % (
                                     what, name, h, sorted(drv.used["x"] | drv.used["s"])), expected=e, observed=g)
                return False
        return True

    def finish(done):
        if quiet_ctx.hits:
            R._bump(stats["layout_unasserted_mismatch"], "%s/%s/%s: %s" % (k, cfg["iface"], lay, quiet_ctx.hits[0].split("/lay=")[-1]))
        for q in drv.used["x"]:
            R._bump(stats["layouts"], "%s/%s/x=%s" % (k, cfg["iface"], q))
        for q in drv.used["s"]:
            R._bump(stats["layouts"], "%s/%s/s=%s" % (k, cfg["iface"], q))
        stats["transitions"] += done
        return done

    items = R.split_transitions(beh["prog"])
    cur_sv = root["sv"]
    done = 0
    if int_visible(beh, root):
        R._bump(stats["int_nonintegral_accept"], "%s/%s/via=%s" % (k, cfg["iface"], via))
    try:
        if via == "sample":
            done = _run_loops(judge, drv, beh, root, items, base, case, stats, compare, prop, salt)
            return finish(done)
        if not compare(R.expect_state(cfg, root, cur_sv), "init", "after initialisation", -1):
            return finish(0)
        for pos, (kind, e) in enumerate(items):
            if kind == "t":
                drv.set_scale(e["sv"])
                cur_sv = e["sv"]
                continue
            if kind == "c":
                drv.assign(e)
                continue
            if kind == "r":
                drv.reinit()
                if tamper is not None:
                    tamper(drv)
                cur_sv = e["sv"]
                R._bump(stats["reinit"], "%s/%s" % (k, cfg["iface"]))
                R._bump(stats["attrs"], "%s/%s/%s/pre=%d" % (k, cfg["iface"], "+".join(e["attrs"]) or "none", e["pre"]))
                got = drv.state()
                exp = R.expect_state(cfg, e, cur_sv)
                if not R.close(got["x"], exp["x"]):
                    judge().mismatch(base + "/reinit/point", dict(case, pos=pos),
                                     "after re-initialisation (attributes assigned: %s) the chain is not at the configured initial point" % e["attrs"],
                                     expected=exp["x"], observed=got["x"])
                    return finish(done)
                bad = R.coherent(drv, got)
                if bad is not None:
                    judge().mismatch(base + "/reinit/cache_coherent", dict(case, pos=pos),
                                     "after re-initialisation (attributes assigned: %s, %d transitions before) the cached value %s is not the "
                                     "evaluation at the current point %s under the current target" % (e["attrs"], e["pre"], bad[0], got["x"].tolist()),
                                     expected=bad[2], observed=bad[1])
                    return finish(done)
                if not compare(exp, "reinit", "after re-initialisation", pos):
                    return finish(done)
                continue
            # ---- one kernel transition ----------------------------------------------------------------------------
            pairs = e
            normals, us = script_for(cfg, pairs, prop, salt + pos)
            T = drv.T
            n0 = len(T.evals)
            pre = drv.state()
            try:
                acc, left = drv.transition(normals, us, False)
            except ScriptError as ex:
                raise MachineryError("the kernel %s asked for random draws the binding does not script: %s" % (drv.cls.__name__, ex))
            done += 1
            got = drv.state()
            seen = T.evals[n0:]
            for i, (p, d) in enumerate(pairs):
                y = np.array(p["y"], dtype=float)
                if not any(R.close(y, q) for q in seen):
                    judge().mismatch(base + "/proposal", dict(case, pos=pos),
                                     "the target was not evaluated at the proposal of the modelled mechanism (noise xi=%s, embedding h=%g)" % (p["xi"], h),
                                     expected=y, observed=seen)
                    return finish(done)
                if d["cls"] == "Any":
                    bad = bool(acc.size > i and acc[i] > 0) if k == "CW" else ((not R.close(got["x"], pre["x"])) or bool(acc.size and acc[0] > 0))
                    if bad:
                        judge().mismatch(base + "/nonfinite_accept", dict(case, pos=pos), "a proposal with a non-finite log-density was accepted",
                                         expected={"acc": 0}, observed={"acc": acc, "x": got["x"]})
                        return finish(done)
            eacc = np.array([d["acc"] for _, d in pairs], dtype=float)
            if acc.shape != eacc.shape or not np.array_equal(acc > 0, eacc > 0):
                i = 0 if acc.shape != eacc.shape else int(np.argmax((acc > 0) != (eacc > 0)))
                p, d = pairs[i]
                extra = ""
                if facet == "propsym":
                    extra = "; proposal object %s treated in mode %s: log-ratio with the proposal ratio r=%s, symmetric ratio %s" % (
                        prop, beh.get("mode"), p["r"], p.get("rsym"))
                judge().mismatch("%s/decision/%s" % (base, d["cls"]), dict(case, pos=pos),
                                 "decision differs for a uniform just %s the threshold exp(r), r=%s (the log-ratio the kernel decides with is "
                                 "not the Metropolis-Hastings log-ratio of the mechanism it uses)%s" % (d["cls"].lower(), p["r"], extra),
                                 expected=eacc, observed=acc)
                return finish(done)
            exp = R.expect_state(cfg, pairs[-1][1], cur_sv)
            clause = "reject_state" if not np.any(eacc > 0) else "accept_state"
            if not compare(exp, clause, "after a %s transition" % ("rejected" if not np.any(eacc > 0) else "(partly) accepted"), pos):
                return finish(done)
            if facet == "propsym" and any(p.get("rsym") != p["r"] for p, _ in pairs):
                stats["hastings_differs"] += 1

    except (MachineryError, ScriptError):
        raise
    except Exception as ex:
        if not plain:
            refused("run", ex)
            return finish(done)
        ctx.mismatch(base + "/error", case, "raised %s: %s" % (type(ex).__name__, str(ex)[:200]))
    return finish(done)


def _run_loops(judge, drv, beh, root, items, base, case, stats, compare, prop, salt):
    """the public loops on ONE sampler object: transitions before the re-configuration through sample(), the assignments,
    reinitialize() (stateful) and the transitions after it through sample() again"""
    cfg = beh["cfg"]
    k = cfg["k"]
    if any(kind == "t" for kind, _ in items):
        return 0
    ri = next(i for i, (kind, _) in enumerate(items) if kind == "r")
    pre = [e for kind, e in items[:ri] if kind == "T"]
    post = [e for kind, e in items[ri + 1:] if kind == "T"]
    assigns = [e for kind, e in items[:ri] if kind == "c"]
    r = items[ri][1]
    R._bump(stats["via"], "%s/%s" % (k, cfg["iface"]))
    R._bump(stats["reinit"], "%s/%s" % (k, cfg["iface"]))
    R._bump(stats["attrs"], "%s/%s/%s/pre=%d" % (k, cfg["iface"], "+".join(r["attrs"]) or "none", r["pre"]))

    def script(trs, off):
        normals, us = [], []
        for j, pairs in enumerate(trs):
            a, b = script_for(cfg, pairs, prop, salt + off + j)
            normals += a
            us += b
        return normals, us
    cache = "clik" if k == "PCN" else "clp"
    try:
        if cfg["iface"] == "exp":
            if pre:
                drv.loop(*script(pre, 0), len(pre))
            for e in assigns:
                drv.assign(e)
            drv.reinit()
            exp = R.expect_state(cfg, r, r["sv"])
            got = drv.state()
            if not R.close(got["x"], exp["x"]):
                judge().mismatch(base + "/reinit/point", case, "after sample(%d), %s and reinitialize() the chain is not at the configured "
                                 "initial point" % (len(pre), r["attrs"]), expected=exp["x"], observed=got["x"])
                return len(pre)
            bad = R.coherent(drv, got)
            if bad is not None:
                judge().mismatch(base + "/reinit/cache_coherent", case, "after sample(%d), %s and reinitialize() the cached value %s is not the "
                                 "evaluation at the current point" % (len(pre), r["attrs"], bad[0]), expected=bad[2], observed=bad[1])
                return len(pre)
            seen, _ = drv.loop(*script(post, len(pre)), len(post))
            if len(seen) != len(post):
                raise MachineryError("sample(%d) made %d calls of step()" % (len(post), len(seen)))
            for j, ((acc, got), pairs) in enumerate(zip(seen, post)):
                eacc = np.array([d["acc"] for _, d in pairs], dtype=float)
                if acc.shape != eacc.shape or not np.array_equal(acc > 0, eacc > 0):
                    judge().mismatch(base + "/decision", case, "transition %d after reinitialize(): acceptance flag(s) differ from the "
                                     "specification's (classes %s)" % (j + 1, [d["cls"] for _, d in pairs]), expected=eacc, observed=acc)
                    return len(pre) + j
                exp = R.expect_state(cfg, pairs[-1][1], None)
                for q in ("x", "clp", "cgrad", "clik"):
                    if q in exp and (q not in got or not R.close(got[q], exp[q])):
                        judge().mismatch("%s/state/%s" % (base, R.CACHE_NAME[q]), case, "after transition %d following reinitialize(): %s differs "
                                         "from the specification's state" % (j + 1, R.CACHE_NAME[q]), expected=exp[q], observed=got.get(q))
                        return len(pre) + j
        else:
            if pre:
                drv.run_sample(*script(pre, 0), len(pre))
            for e in assigns:
                drv.assign(e)
            X, le, _ = drv.run_sample(*script(post, len(pre)), len(post))
            exps = [R.expect_state(cfg, r, None)] + [R.expect_state(cfg, pairs[-1][1], None) for pairs in post]
            for j, exp in enumerate(exps):
                # component-wise kernel: the columns but the last are overwritten in place by their successor (finding C14-F1)
                if (k != "CW" or j == len(post)) and not R.close(X[:, j], exp["x"]):
                    judge().mismatch(base + ("/reinit/point" if j == 0 else "/samples/point"), case,
                                     "sample() after %s on one sampler object: recorded state %d differs from the specification's" % (r["attrs"], j),
                                     expected=exp["x"], observed=X[:, j])
                    return len(pre) + j
                if not R.close(le[j], exp[cache]):
                    judge().mismatch(base + ("/reinit/cache_coherent" if j == 0 else "/samples/cache"), case,
                                     "sample() after %s on one sampler object: the evaluation recorded with state %d is not the evaluation at "
                                     "that state under the current target" % (r["attrs"], j), expected=exp[cache], observed=le[j])
                    return len(pre) + j
    except ScriptError as ex:
        raise MachineryError("the loops of %s asked for random draws the binding does not script: %s" % (drv.cls.__name__, ex))
    return len(pre) + len(post)


def admission(ctx, root, stats):
    """construct the random-walk sampler with the proposal object of the root case -> True when it was admitted.
    An object the specification says is known to be symmetric must be admitted; any other may be refused."""
    cfg, prop = root["cfg"], root["prop"]
    drv = driver(cfg, root, root["layout"], 1.0, prop, how=root.get("how", "ctor"))
    key = "%s/%s/kind=%s/flag=%s/mu=%d" % (cfg["iface"], root.get("how", "ctor"), prop["kind"], prop["flag"], prop["mu"])
    try:
        drv.construct()
    except MachineryError:
        raise
    except Exception as ex:
        R._bump(stats["refused"], "%s: %s" % (key, type(ex).__name__))
        if drv.kept_refused:
            # the refused object stays installed as sampler.proposal: what a later step does is not defined (observation)
            R._bump(stats["refused_assignment_keeps_object"], "%s.%s" % (drv.cls.__module__, drv.cls.__name__))
        if "refused" not in root["modes"]:
            ctx.mismatch(_sig("propsym", root, "base") + "/construct", {"kind": "rroot", "root": root},
                         "a proposal object known to be symmetric about zero was refused: %s: %s" % (type(ex).__name__, str(ex)[:200]))
        return False
    R._bump(stats["admitted"], key)
    return True
