"""Apalache driver: inductive-invariant obligations (Init => Inv at length 0, Inv /\\ Next => Inv' at length 1)."""
import os, re, shutil, subprocess, time

from . import tlc as _tlc
from .tlc import MachineryError


def check(spec, init, inv, length, nxt="Next", timeout=900):
    """Returns ('ok' | 'violated', seconds).  Raises MachineryError when apalache itself fails."""
    name = os.path.splitext(os.path.basename(spec))[0]
    wd = os.path.join(_tlc.WORK, "apa-%s-%d-%d" % (name, os.getpid(), int(time.time() * 1000) % 10**7))
    os.makedirs(wd, exist_ok=True)
    try:
        shutil.copy(os.path.join(_tlc.SPECS, name + ".tla"), wd)
        cmd = ["apalache-mc", "check", "--init=" + init, "--next=" + nxt, "--inv=" + inv, "--length=%d" % length,
               "--out-dir=" + os.path.join(wd, "out"), name + ".tla"]
        t0 = time.time()
        try:
            p = subprocess.run(cmd, cwd=wd, stdout=subprocess.PIPE, stderr=subprocess.STDOUT, text=True, timeout=timeout)
        except subprocess.TimeoutExpired:
            raise MachineryError("apalache timeout: " + " ".join(cmd))
        out = p.stdout
        if "EXITCODE: OK" in out and "no error" in out:
            return "ok", time.time() - t0
        if re.search(r"Found \d+ error", out) or "Checker has found an error" in out:
            return "violated", time.time() - t0
        raise MachineryError("apalache failed: %s\n%s" % (" ".join(cmd), "\n".join(out.splitlines()[-25:])))
    finally:
        shutil.rmtree(wd, ignore_errors=True)
