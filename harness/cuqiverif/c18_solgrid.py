"""C18, strengthening V (round 10): the SOLUTION grid as an ordered sequence (descending / permuted node numbering).

Spec: specs/PDESolGrid.tla (cfg PDESolGrid.{quick,thorough}.cfg; deviation dev_AssumeSorted -> SolOrderExact).  Every emitted case
(reference grid of 3 / 4 / 5 nodes x node order asc / desc / perm / swap x quadratic data x observation grid same / asc / rev / sub /
mid / midu / mix) is replayed on real SteadyStateLinearPDE objects: observe(solution) directly, assemble - solve - observe with a form
whose solution is theta_1 u + theta_2 in the node order of grid_sol, and PDEModel.forward; observation maps id / sq / first.
Expected: p(grid_obs[i]) in the order of grid_obs (exact rationals from TLC), the solution itself (bit for bit) when grid_obs is
grid_sol node for node.
TimeDependentLinearPDE: grid_obs = grid_sol node for node and the final time -> the last level itself (exact restriction, asserted
for every node order).  When interpolation is needed on a solution grid that is not ascending, scipy's RectBivariateSpline refuses
(x must be strictly increasing): recorded as an observation, not asserted - the documentation of the class does not say whether a
time-dependent problem may number its nodes freely.
"""
import contextlib
import io
import warnings
from fractions import Fraction

import numpy as np

RTOL = 1e-9
OMAPS = {"id": None, "sq": (lambda u: u ** 2), "first": (lambda u: u[:1])}


def _qv(v):
    return np.array([float(Fraction(q[0], q[1])) for q in v], dtype=float)


def _close(a, b, rtol=RTOL):
    a, b = np.asarray(a, dtype=float), np.asarray(b, dtype=float)
    if a.shape != b.shape or not np.all(np.isfinite(a)):
        return False
    return bool(np.all(np.abs(a - b) <= rtol * max(1.0, float(np.abs(b).max()) if b.size else 1.0)))


def _quiet(fn):
    with warnings.catch_warnings():
        warnings.simplefilter("ignore")
        with contextlib.redirect_stdout(io.StringIO()):
            return fn()


def _apply(name, v):
    f = OMAPS[name]
    return v if f is None else f(v)


def skey(c):
    return "g=%s/sord=%s/poly=%s/gobs=%s" % (c["g"], c["sord"], c["poly"], c["gobs"])


def check(ctx, cuqi, case, idx):
    c = case["c"]
    gs, u, go, exp = _qv(case["grid_sol"]), _qv(case["sol"]), _qv(case["grid_obs"]), _qv(case["expected"])
    n = len(gs)
    omap = ("id", "sq", "first")[idx % 3]
    base = "solgrid/steady/%s/omap=%s" % (skey(c), omap)
    rc = {"kind": "solgrid", "c": c}
    kw = dict(grid_sol=gs.copy(), observation_map=OMAPS[omap])
    if not (case["equal"] and c["gobs"] == "same" and idx % 2 == 0):      # grid_obs omitted = the solution grid
        kw["grid_obs"] = go.copy()
    descr = "grid_sol=%s (node order %s), grid_obs=%s" % (gs.tolist(), c["sord"], go.tolist())

    # ---- observe(solution) directly
    ctx.case(("solgrid", "steady", skey(c), omap, "observe"), facet="solgrid/steady/observe")
    try:
        pde = cuqi.pde.SteadyStateLinearPDE(lambda p: (np.eye(n), np.zeros(n)), **kw)
        obs = np.asarray(_quiet(lambda: pde.observe(u.copy())), dtype=float)
    except Exception as e:      # noqa: BLE001
        ctx.mismatch(base + "/observe_raises", rc, "SteadyStateLinearPDE.observe raises for " + descr,
                     expected=_apply(omap, exp), observed=repr(e)[:300])
        obs = None
    if obs is not None:
        if case["equal"] and omap == "id" and not np.array_equal(obs, u):
            ctx.mismatch(base + "/observe_restriction", rc, "grid_obs is grid_sol node for node: observe() is the solution itself; " + descr,
                         expected=u, observed=obs)
        elif not _close(obs, _apply(omap, exp)):
            ctx.mismatch(base + "/observe", rc, "observe() of quadratic data given in the node order of grid_sol is not p(grid_obs[k]), "
                         "k in the order of grid_obs, followed by the observation map; " + descr, expected=_apply(omap, exp), observed=obs)

    # ---- assemble - solve - observe, PDEModel.forward: solution theta_1 u + theta_2 in the node order of grid_sol
    d = 1.0 + (np.arange(n) % 2)
    th = np.array([2.0, -1.0]) if idx % 2 == 0 else np.array([-0.5, 3.0])
    form = lambda p: (np.diag(d), d * (p[0] * u + p[1]))      # noqa: E731
    fexp = _apply(omap, th[0] * exp + th[1])
    ctx.case(("solgrid", "steady", skey(c), omap, "pipeline"), facet="solgrid/steady/pipeline")
    try:
        pde = cuqi.pde.SteadyStateLinearPDE(form, **{k: (v.copy() if isinstance(v, np.ndarray) else v) for k, v in kw.items()})
        pde.assemble(th.copy())
        sol, _info = pde.solve()
        if not _close(sol, th[0] * u + th[1], 1e-10):
            ctx.mismatch(base + "/solution", rc, "solve() does not satisfy the assembled system", expected=th[0] * u + th[1], observed=sol)
        obs = np.asarray(_quiet(lambda: pde.observe(sol)), dtype=float)
        if not _close(obs, fexp):
            ctx.mismatch(base + "/pipeline", rc, "assemble - solve - observe: the observation is not the solution (node order of "
                         "grid_sol) restricted / interpolated to grid_obs; " + descr, expected=fexp, observed=obs)
    except Exception as e:      # noqa: BLE001
        ctx.mismatch(base + "/pipeline_raises", rc, "assemble - solve - observe raises for " + descr, expected=fexp, observed=repr(e)[:300])
    ctx.case(("solgrid", "steady", skey(c), omap, "model"), facet="solgrid/steady/model_forward")
    try:
        pde = cuqi.pde.SteadyStateLinearPDE(form, **{k: (v.copy() if isinstance(v, np.ndarray) else v) for k, v in kw.items()})
        model = _quiet(lambda: cuqi.model.PDEModel(pde, range_geometry=len(fexp), domain_geometry=2))
        out = np.asarray(_quiet(lambda: model.forward(th.copy())), dtype=float)
        if not _close(out, fexp):
            ctx.mismatch(base + "/model_forward", rc, "PDEModel.forward is not assemble - solve - observe; " + descr, expected=fexp, observed=out)
    except Exception as e:      # noqa: BLE001
        ctx.mismatch(base + "/model_forward_raises", rc, "PDEModel.forward raises for " + descr, expected=fexp, observed=repr(e)[:300])

    # ---- time-dependent class: levels u (1 + t) + t^2 on four levels, handed to observe()
    T = np.array([0.0, 0.5, 1.0, 2.0])
    levels = u[:, None] * (1 + T)[None, :] + (T ** 2)[None, :]
    tform = lambda p, t: (np.zeros((n, n)), np.zeros(n), np.zeros(n))     # noqa: E731
    tbase = "solgrid/time/%s/omap=%s" % (skey(c), omap)
    tkw = dict(kw, time_steps=T.copy(), time_obs="final" if idx % 2 == 0 else np.array([2.0]))
    stats = ctx.observations.setdefault("time_class_interpolation_on_unsorted_grid_sol",
                                        {"refused": 0, "returned_p": 0, "returned_other": 0, "example_refusal": None})
    if case["equal"]:
        ctx.case(("solgrid", "time", skey(c), omap, "final"), facet="solgrid/time/final_restriction")
        try:
            pde = cuqi.pde.TimeDependentLinearPDE(tform, **tkw)
            obs = np.asarray(_quiet(lambda: pde.observe(levels.copy())), dtype=float)
            want = _apply(omap, levels[:, -1])
            if obs.size == 1 and np.size(want) == 1:        # one node at one time: 0-d or (1,) is not documented (see c18._one)
                obs = obs.reshape(np.shape(want))
            if obs.shape != np.shape(want) or not (np.array_equal(obs, want) if omap == "id" else _close(obs, want)):
                ctx.mismatch(tbase + "/final_restriction", rc, "grid_obs is grid_sol node for node and the final time is observed: "
                             "observe() is the last level itself; " + descr, expected=want, observed=obs)
        except Exception as e:      # noqa: BLE001
            ctx.mismatch(tbase + "/final_restriction_raises", rc, "TimeDependentLinearPDE.observe raises although no interpolation is "
                         "needed; " + descr, expected=_apply(omap, levels[:, -1]), observed=repr(e)[:300])
    elif not case["sol_asc"] and n >= 4 and omap == "id":
        # interpolation on a solution grid that is not ascending: observed, never asserted
        try:
            pde = cuqi.pde.TimeDependentLinearPDE(tform, **tkw)
            obs = np.asarray(_quiet(lambda: pde.observe(levels.copy())), dtype=float)
            stats["returned_p" if _close(obs, exp * 3 + 4, 1e-8) else "returned_other"] += 1
        except Exception as e:      # noqa: BLE001
            stats["refused"] += 1
            stats["example_refusal"] = stats["example_refusal"] or repr(e)[:200]


def run_part(ctx, cuqi, only=None):
    from cuqiverif.core import MachineryError
    from cuqiverif import tlc as _t
    import os, time
    res = ctx.tlc("PDESolGrid", cfg="PDESolGrid.%s.cfg" % ctx.tier, workers=4, timeout=900)
    ctx.model_must_hold(res, "PDESolGrid")
    cases = sorted((k for k in res.cases if k["kind"] == "solgrid"), key=lambda k: skey(k["c"]))
    _t.cleanup(res)
    if not cases:
        raise MachineryError("PDESolGrid emitted no cases")
    if only is None:
        wd = os.path.join(_t.WORK, "PDESolGrid-dev-%d-%d" % (os.getpid(), int(time.time() * 1000) % 10**7))
        r2 = _t.run_tlc("PDESolGrid", cfg="PDESolGrid.dev_AssumeSorted.cfg", workdir=wd, workers=2, timeout=600, expect_violation=True)
        ctx.states += r2.distinct
        ctx.transitions += r2.generated
        if r2.ok or r2.violated != "SolOrderExact":
            raise MachineryError("deviation AssumeSorted must violate SolOrderExact on PDESolGrid, got %r" % r2.violated)
        _t.cleanup(r2)
        # vacuity: for every node order: an interpolating observation grid (ascending and not), a coinciding unsorted one, the
        # grid itself (restriction); node for node equality only where the specification says so
        for o in ("asc", "desc", "perm", "swap"):
            mine = [k for k in cases if k["c"]["sord"] == o]
            need = {"restriction": lambda k: k["equal"],
                    "interpolation, ascending grid_obs": lambda k: not k["equal"] and not k["all_coincide"] and k["obs_asc"],
                    "interpolation, unsorted grid_obs": lambda k: not k["all_coincide"] and not k["obs_asc"],
                    "all nodes coincide, other order": lambda k: not k["equal"] and k["all_coincide"] and len(k["grid_obs"]) == len(k["grid_sol"])}
            for name, pred in need.items():
                if not any(pred(k) for k in mine):
                    raise MachineryError("vacuous PDESolGrid: node order %s without a case '%s'" % (o, name))
            if (o != "asc") != any(not k["sol_asc"] for k in mine) or (o == "asc" and not all(k["sol_asc"] for k in mine)):
                raise MachineryError("PDESolGrid: node order %s and sol_asc disagree" % o)
    nrun = 0
    for i, k in enumerate(cases):
        if only is not None and skey(k["c"]) != only:
            continue
        for idx in range(6):           # observation maps id / sq / first x (grid_obs omitted | explicit, two parameters, final as string | array)
            check(ctx, cuqi, k, idx)
        nrun += 1
    if only is None:
        ctx.observe("solgrid_cases", nrun)
        pick = [k for k in cases if skey(k["c"]) == "g=g5/sord=perm/poly=dec/gobs=mix"][:1]
        for k in pick:
            ctx.sample({"solgrid": k})
    return nrun
