"""C06, ONE posterior object whose NESTED objects are updated through their public setters while a sampler holds it as
target (helpers of props/c06.py; spec: specs/LinGaussMut.tla, which EXTENDS LinGauss and reuses the two VERSIONS of every
input of its part `reassign`).

TLC explores, per configuration, the state machine  MutSet(field) / MutReinit / MutDraw  of the pair (target object, sampler
object) - state = version ASSIGNED to every field of the target, version the sampler PRECOMPUTED from, reinitialised? - checks
that every transition made after a (re)initialisation is the exact draw of the values assigned NOW (MutDrawIsCurrentDraw), that
toggling a single field is visible in the posterior (MutVisible), refutes the named deviation ReinitSkipsSameTarget, and emits
the exact posterior of EVERY assignment (16 per Linear RTO configuration, 4 per UGLA configuration).

Replay: paths of that state machine on real objects.
  experimental LinearRTO / UGLA:  build(all fields version 1) . initialize . draw  then, on the SAME posterior and sampler objects,
      [ MutSet(f) = public setter of the nested object ( post.prior.mean | post.prior.<cov|prec|sqrtcov|sqrtprec|prec of a GMRF> |
        post.likelihood.distribution.<form> | post.likelihood.data ; UGLA: post.prior.location | post.prior.scale )
        . MutReinit = sampler.reinitialize()  (cold chain: `sampler.target = post` with the same object first, as HybridGibbs does)
        . MutDraw = affine read-off with scripted normals ]   for a chain through all fields and back (warm), for all fields at
      once (cold) and for single fields (partial): offset = mu_post, T T^T = Lambda^-1 of the assignment reached (exact rationals
      of the spec), and the stacked operator / data the sampler now holds satisfy M^T M = Lambda, M^T b~ = rhs.
  legacy LinearRTO / UGLA (precompute in the constructor): a NEW sampler for the same, updated posterior object after every MutSet.
What a sampler does between an update and the reinitialisation (experimental), or an OLD legacy sampler after an update, is not
documented: observation `mut_draw_after_update_without_reinitialize` (follows the old / the new values / neither / raises).
A setter that refuses the value is an accepted outcome (recorded; the chain stops, the state of the object is then undefined).
"""
import numpy as np

RTO_FIELDS = ["mean", "prior", "noise", "data"]
UGLA_FIELDS = ["loc", "scale"]


def _c06():
    from cuqiverif.props import c06
    return c06


def _L():
    from cuqiverif import lingauss_common as L
    return L


def _obs(ctx, key, tag):
    d = ctx.observations.setdefault(key, {})
    d[tag] = d.get(tag, 0) + 1


def _wd(label):
    import os
    from cuqiverif import tlc
    return os.path.join(tlc.WORK, "LinGaussMut-c06-%s-%d" % (label, os.getpid()))


LABELS = ("rto", "ugla", "dev_rto", "dev_ugla")


def start_tlc(ctx):
    import concurrent.futures
    pool = concurrent.futures.ThreadPoolExecutor(max_workers=4)
    kw = dict(timeout=1500, extra_modules=["LinGauss.tla"])
    jobs = {"rto": pool.submit(ctx.tlc, "LinGaussMut", cfg="LinGaussMut.rto.%s.cfg" % ctx.tier, workers=4, workdir=_wd("rto"), **kw),
            "ugla": pool.submit(ctx.tlc, "LinGaussMut", cfg="LinGaussMut.ugla.%s.cfg" % ctx.tier, workers=2, workdir=_wd("ugla"), **kw),
            "dev_rto": pool.submit(ctx.tlc, "LinGaussMut", cfg="LinGaussMut.dev_rto_ReinitSkipsSameTarget.cfg", workers=1,
                                   expect_violation=True, workdir=_wd("dev_rto"), **kw),
            "dev_ugla": pool.submit(ctx.tlc, "LinGaussMut", cfg="LinGaussMut.dev_ugla_ReinitSkipsSameTarget.cfg", workers=1,
                                    expect_violation=True, workdir=_wd("dev_ugla"), **kw)}
    pool.shutdown(wait=False)
    return jobs


def discard_tlc(jobs):
    from cuqiverif import tlc
    for f in jobs.values():
        try:
            tlc.cleanup(f.result())
        except BaseException:      # noqa: BLE001
            pass
    for label in LABELS:
        tlc.cleanup(_wd(label))


def collect_tlc(ctx, jobs):
    from cuqiverif import tlc
    from cuqiverif.core import MachineryError
    out, err = {}, None
    for k, f in jobs.items():
        try:
            out[k] = f.result()
        except BaseException as e:      # noqa: BLE001
            err = err or e
    if err is not None:
        for r in out.values():
            tlc.cleanup(r)
        for label in LABELS:
            tlc.cleanup(_wd(label))
        raise err
    ctx.model_must_hold(out["rto"], "LinGaussMut.rto")
    ctx.model_must_hold(out["ugla"], "LinGaussMut.ugla")
    rto = [c for c in out["rto"].cases if c.get("kind") == "rtomut"]
    ugla = [c for c in out["ugla"].cases if c.get("kind") == "uglamut"]
    devs = {k: out[k] for k in ("dev_rto", "dev_ugla")}
    for r in out.values():
        tlc.cleanup(r)
    for k, dev in devs.items():
        if dev.ok or dev.violated != "MutDrawIsCurrentDraw":
            raise MachineryError("deviation ReinitSkipsSameTarget (%s): expected TLC to violate MutDrawIsCurrentDraw, got %r" % (k, dev.violated))
    ctx.observations.setdefault("deviations_refuted_by_tlc", {})["ReinitSkipsSameTarget"] = "MutDrawIsCurrentDraw"
    return group(rto, RTO_FIELDS, 16), group(ugla, UGLA_FIELDS, 4)


def selkey(sel, fields):
    return "".join(str(sel[f]) for f in fields)


def group(cases, fields, want):
    from cuqiverif.core import MachineryError
    g = {}
    for c in cases:
        g.setdefault(tuple(sorted(c["base"].items())), {})[selkey(c["sel"], fields)] = c["state"]
    out = [g[k] for k in sorted(g)]
    if not out or any(len(s) != want for s in out):
        raise MachineryError("LinGaussMut: expected %d assignments per configuration, got %r" % (want, sorted(set(len(s) for s in out))))
    return out


# ======================================================================================================================
# Linear RTO
# ======================================================================================================================
def _as_rto(st):
    """the `reassign`-shaped state record of LinGauss as an `rto`-shaped case (one likelihood) for the shared helpers"""
    c = dict(st)
    c.update(kind="rto", nl=1, m=[st["m"]], A=[st["A"]], y=[st["y"]], noise=[st["noise"]], i2=0)
    return c


def _rto_sig(st, iface, what, stage, field, key):
    L = _L()
    noise = st["noise"][0] if isinstance(st["noise"], list) else st["noise"]
    m = st["m"][0] if isinstance(st["m"], list) else st["m"]
    return "mut/rto/%s/%s/stage=%s/field=%s/to=%s/n=%d/m=%d/noise=%s/prior=%s/mean=%s/model=%s" % (
        iface, what, stage, field, key, st["n"], m, L.form_tag(noise), L.form_tag(st["prior"]), st["mk"], st["mdl"])


def _rto_set(post, field, st):
    """MutSet(field): the public setter of the nested object, with the value of the state to reach"""
    L = _L()
    if field == "mean":
        post.prior.mean = L.mean_value(st)
    elif field == "prior":
        name, val = L.prior_assignment(st)
        setattr(post.prior, name, val)
    elif field == "noise":
        name, val = L.noise_assignment(st)
        setattr(post.likelihood.distribution, name, val)
    elif field == "data":
        post.likelihood.data = L.inp(st["y"])
    else:
        raise ValueError(field)


def _exp(st):
    L = _L()
    return L.qnp(st["mu_q"]), L.qnp(st["LamInv_q"])


def _readoff(ctx, carry, facet, draw, st, sig, what):
    """affine read-off of one transition against the exact posterior of state `st`; returns (offset, T) or None"""
    L = _L()
    c06 = _c06()
    mu, cov = _exp(st)
    try:
        off, T, N = L.affine_readoff(draw)
    except L.ScriptError as e:
        ctx.mismatch(sig("draws"), carry, "transition does not consume exactly one standard-normal vector: %s" % e)
        return None
    ctx.case((facet, sig("")), facet=facet)
    if L.rel_err(off, mu) > c06.RTOL:
        ctx.mismatch(sig("offset"), carry, "%s: next state for perturbation 0 is not the mean of the posterior the target describes now" % what,
                     expected=mu, observed=off)
    if L.rel_err(T @ T.T, cov, scale=1e-3) > c06.RTOL:
        ctx.mismatch(sig("cov"), carry, "%s: linear part T of the step does not reproduce the covariance of the posterior the target "
                     "describes now (T T^T != Lambda^-1)" % what, expected=cov, observed=T @ T.T)
    return off, T


def _check_operator(ctx, carry, st, s, sig):
    """the stacked operator / data the sampler holds NOW: M^T M = Lambda, M^T b~ = rhs of the assignment reached (spec's integers)"""
    L = _L()
    M = L.require_attr(s, "M")
    bt = np.asarray(L.require_attr(s, "b_tild"), dtype=float)
    n, N = st["n"], len(bt)
    if callable(M):
        fwd = np.array([np.asarray(M(e, 1), dtype=float) for e in np.eye(n)]).T
        adj = np.array([np.asarray(M(e, 2), dtype=float) for e in np.eye(N)]).T
    else:
        fwd = np.asarray(M.todense() if hasattr(M, "todense") else M, dtype=float)
        adj = fwd.T.copy()
    ctx.case(("mut-operator", sig("")), facet="mut/rto/operator")
    Lam, r = L.inp(st["Lam"]), L.inp(st["rhs"])
    if fwd.shape != (N, n) or adj.shape != (n, N) or np.max(np.abs(adj - fwd.T)) > 1e-12 * max(1.0, np.abs(fwd).max()):
        ctx.mismatch(sig("adjoint"), carry, "stacked operator after the reinitialisation: flag 2 is not the transpose of flag 1", expected=fwd.T, observed=adj)
    elif L.rel_err(fwd.T @ fwd, Lam) > 1e-9:
        ctx.mismatch(sig("normal"), carry, "stacked operator after the reinitialisation: M^T M is not the posterior precision of the values assigned now",
                     expected=Lam, observed=fwd.T @ fwd)
    elif L.rel_err(fwd.T @ bt, r) > 1e-9:
        ctx.mismatch(sig("rhs"), carry, "stacked data after the reinitialisation: M^T b~ is not Lambda mu_post of the values assigned now",
                     expected=r, observed=fwd.T @ bt)


def _follows(off, T, cands):
    L = _L()
    for name, (mu, cov) in cands.items():
        if L.rel_err(off, mu) <= 1e-8 and L.rel_err(T @ T.T, cov, scale=1e-3) <= 1e-8:
            return name
    return "neither"


def _observe_unsynced(ctx, who, draw, old, new):
    L = _L()
    try:
        o, T, _ = L.affine_readoff(draw)
        _obs(ctx, "mut_draw_after_update_without_reinitialize", "%s:%s" % (who, _follows(o, T, {"new": _exp(new), "old": _exp(old)})))
    except L.MachineryError:
        raise
    except Exception:      # noqa: BLE001
        _obs(ctx, "mut_draw_after_update_without_reinitialize", "%s:raises" % who)


def _start(ctx, tags, r, st):
    """current state the transition starts from: one of the two lattice states of the main part - but never the exact posterior
    mean of the assignment reached.  (With perturbation 0 the inner CGLS would then start AT the solution: its stopping rule is
    relative to the normal residual of the starting point, which is rounding noise there, so it iterates on noise until maxit.
    That coincidence has probability zero for a real chain and says nothing about the draw; it is a remark about the solver's
    stopping rule (C16), recorded as an observation.)"""
    L = _L()
    x0 = tags[r % 2][1]
    if L.rel_err(x0, L.qnp(st["mu_q"])) < 1e-6:
        _obs(ctx, "mut_start_state_moved_off_exact_posterior_mean", "n=%d" % st["n"])
        x0 = tags[(r + 1) % 2][1]
    return x0


def rto_chain(ctx, states, mode, steps, rot, carry_extra=None):
    """One path of LinGaussMut on ONE posterior object and ONE experimental sampler (+ a new legacy sampler after every update).
    steps: list of lists of fields; the fields of one inner list are toggled one after the other WITHOUT anything in between,
    then MutReinit . MutDraw."""
    import cuqi
    c06, L = _c06(), _L()
    sel = {f: 1 for f in RTO_FIELDS}
    st = _as_rto(states[selkey(sel, RTO_FIELDS)])
    carry = {"kind": "rtomut", "mode": mode, "steps": [list(s) for s in steps], "rot": rot, "states": states}
    n = st["n"]
    tags = c06._states(n)
    ctx.observations["mut_behaviours"] = ctx.observations.get("mut_behaviours", 0) + 1
    try:
        with L.quiet():
            post = L.build_rto_posterior(st)
    except Exception as e:      # noqa: BLE001  (each configuration is built and judged by the main part)
        _obs(ctx, "mut_construction_failed", "rto:%s" % type(e).__name__)
        return
    sg = lambda iface, stage, field, key: (lambda what: _rto_sig(st, iface, what, "%s.%s" % (mode, stage), field, key))     # noqa: E731
    try:
        s = cuqi.experimental.mcmc.LinearRTO(post, initial_point=np.array(tags[1][1], dtype=float), maxit=c06.MAXIT, tol=c06.TOL)
        s.initialize()
        leg0 = cuqi.sampler.LinearRTO(post, x0=np.zeros(n), maxit=c06.MAXIT, tol=c06.TOL)
        # the sampler is USED before anything is updated
        _readoff(ctx, carry, "mut/rto/experimental", c06._exp_draw(s, _start(ctx, tags, rot, st)), st, sg("experimental", "built", "none", "1111"),
                 "freshly initialised sampler")
    except L.MachineryError:
        raise
    except Exception as e:      # noqa: BLE001
        ctx.mismatch(sg("experimental", "built", "none", "1111")("error"), carry, "sampler refuses / crashes on a documented configuration: %r" % (e,))
        return
    for i, fields in enumerate(steps):
        old = st
        for f in fields:
            sel[f] = 3 - sel[f]
        key = selkey(sel, RTO_FIELDS)
        st = _as_rto(states[key])
        ftag = "+".join(fields)
        try:
            with L.quiet():
                for f in fields:
                    _rto_set(post, f, states[key])
        except Exception as e:      # noqa: BLE001
            _obs(ctx, "mut_setter_refused", "rto:%s:%s" % (ftag, type(e).__name__))
            return
        x0 = _start(ctx, tags, rot + i + 1, st)
        # --- experimental: between the update and the reinitialisation nothing is specified (observation)
        if i == 0:
            _observe_unsynced(ctx, "experimental.LinearRTO", c06._exp_draw(s, x0), old, st)
            _observe_unsynced(ctx, "legacy.LinearRTO(old object)", c06._legacy_draw(leg0, x0), old, st)
        try:
            if mode == "cold":
                s.target = post                       # the same object assigned again (HybridGibbs does this in every sweep)
            s.reinitialize()
            _readoff(ctx, carry, "mut/rto/experimental", c06._exp_draw(s, x0), st, sg("experimental", "reinitialized", ftag, key),
                     "after %s of the target was assigned through the public setter and the sampler was reinitialised" % ftag)
            if i == len(steps) - 1 or mode != "warm":
                _check_operator(ctx, carry, st, s, sg("experimental", "reinitialized", ftag, key))
        except L.MachineryError:
            raise
        except Exception as e:      # noqa: BLE001
            ctx.mismatch(sg("experimental", "reinitialized", ftag, key)("error"), carry,
                         "sampler refuses / crashes after an update of its target through public setters: %r" % (e,))
        # --- legacy: a NEW sampler for the same (updated) posterior object
        try:
            leg = cuqi.sampler.LinearRTO(post, x0=np.array(x0, dtype=float), maxit=c06.MAXIT, tol=c06.TOL)
            _readoff(ctx, carry, "mut/rto/legacy", c06._legacy_draw(leg, x0), st, sg("legacy", "constructed_anew", ftag, key),
                     "new sampler constructed after %s of the posterior was assigned through the public setter" % ftag)
        except L.MachineryError:
            raise
        except Exception as e:      # noqa: BLE001
            ctx.mismatch(sg("legacy", "constructed_anew", ftag, key)("error"), carry,
                         "sampler refuses / crashes for a posterior that was updated through public setters: %r" % (e,))
    ctx.traces += 1


def _rot(seq, r):
    r %= len(seq)
    return list(seq[r:]) + list(seq[:r])


def check_rto_group(ctx, states, i):
    r = i + ctx.seed
    perm = _rot(RTO_FIELDS, r)
    back = _rot(RTO_FIELDS, r + 2)
    # warm: every field on its own, reinitialised and used after each; then back to version 1 in another order
    rto_chain(ctx, states, "warm", [[f] for f in perm] + [[f] for f in (back if ctx.tier == "thorough" else back[:2])], r)
    # cold: all four fields before anything is done with the sampler
    rto_chain(ctx, states, "cold", [_rot(RTO_FIELDS[::-1], r)], r + 1)
    # partial: ONE field (the warm chain starts with perm[0]); pairs of fields in the thorough tier
    partial = [[f] for f in perm[1:]] if ctx.tier == "thorough" else [[perm[(2 + r // 4) % 3 + 1]]]
    if ctx.tier == "thorough" and i % 3 == ctx.seed % 3:
        partial += [[perm[0], perm[2]], [perm[1], perm[3]]]
    for fs in partial:
        rto_chain(ctx, states, "partial", [fs], r + 2)


# ======================================================================================================================
# UGLA
# ======================================================================================================================
def _ugla_sig(st, iface, what, stage, field, key):
    L = _L()
    s = st["scale_q"]
    return "mut/ugla/%s/%s/stage=%s/field=%s/to=%s/loc=%s/scale=%s/m=%d/noise=%s/beta=%d_%d/xk=%d" % (
        iface, what, stage, field, key, st["lk"], ("%d" % s[0]) if s[1] == 1 else "%d_%d" % tuple(s), st["m"],
        L.form_tag(st["noise"]), st["beta_q"][0], st["beta_q"][1], st["u"])


def _ugla_loc(st):
    L = _L()
    return {"zero": 0.0, "scalar": float(st["loc"][0]), "vec": L.inp(st["loc"])}[st["lk"]]


def ugla_chain(ctx, states, mode, steps, rot):
    import cuqi
    c06, L = _c06(), _L()
    from cuqiverif import c06_seq
    sel = {f: 1 for f in UGLA_FIELDS}
    st = states[selkey(sel, UGLA_FIELDS)]
    carry = {"kind": "uglamut", "mode": mode, "steps": [list(s) for s in steps], "rot": rot, "states": states}
    n = st["n"]
    xk = L.inp(st["xk"])
    beta = float(L.qval(st["beta_q"]))
    x_init = xk + np.arange(1.0, n + 1.0)
    ctx.observations["mut_behaviours"] = ctx.observations.get("mut_behaviours", 0) + 1
    try:
        with L.quiet():
            post = c06_seq._ugla_post(st)
    except Exception as e:      # noqa: BLE001
        _obs(ctx, "mut_construction_failed", "ugla:%s" % type(e).__name__)
        return
    sg = lambda iface, stage, field, key: (lambda what: _ugla_sig(st, iface, what, "%s.%s" % (mode, stage), field, key))     # noqa: E731
    try:
        s = cuqi.experimental.mcmc.UGLA(post, initial_point=x_init.copy(), beta=beta, maxit=c06.MAXIT, tol=c06.TOL)
        s.initialize()
        leg0 = cuqi.sampler.UGLA(post, x0=x_init.copy(), beta=beta, maxit=c06.MAXIT, tol=c06.TOL)
        _readoff(ctx, carry, "mut/ugla/experimental", c06._exp_draw(s, xk), st, sg("experimental", "built", "none", "11"), "freshly initialised sampler")
    except L.MachineryError:
        raise
    except Exception as e:      # noqa: BLE001
        ctx.mismatch(sg("experimental", "built", "none", "11")("error"), carry, "UGLA refuses / crashes on a documented configuration: %r" % (e,))
        return
    for i, fields in enumerate(steps):
        old = st
        for f in fields:
            sel[f] = 3 - sel[f]
        key = selkey(sel, UGLA_FIELDS)
        st = states[key]
        ftag = "+".join(fields)
        try:
            for f in fields:
                if f == "loc":
                    post.prior.location = _ugla_loc(st)
                else:
                    post.prior.scale = float(L.qval(st["scale_q"]))
        except Exception as e:      # noqa: BLE001
            _obs(ctx, "mut_setter_refused", "ugla:%s:%s" % (ftag, type(e).__name__))
            return
        if i == 0:
            _observe_unsynced(ctx, "experimental.UGLA", c06._exp_draw(s, xk), old, st)
            _observe_unsynced(ctx, "legacy.UGLA(old object)", c06._legacy_draw(leg0, xk), old, st)
        try:
            if mode == "cold":
                s.target = post
            s.reinitialize()
            _readoff(ctx, carry, "mut/ugla/experimental", c06._exp_draw(s, xk), st, sg("experimental", "reinitialized", ftag, key),
                     "after %s of the prior was assigned and the sampler was reinitialised" % ftag)
        except L.MachineryError:
            raise
        except Exception as e:      # noqa: BLE001
            ctx.mismatch(sg("experimental", "reinitialized", ftag, key)("error"), carry,
                         "UGLA refuses / crashes after an update of its target through public setters: %r" % (e,))
        try:
            leg = cuqi.sampler.UGLA(post, x0=x_init.copy(), beta=beta, maxit=c06.MAXIT, tol=c06.TOL)
            _readoff(ctx, carry, "mut/ugla/legacy", c06._legacy_draw(leg, xk), st, sg("legacy", "constructed_anew", ftag, key),
                     "new sampler constructed after %s of the prior was assigned" % ftag)
        except L.MachineryError:
            raise
        except Exception as e:      # noqa: BLE001
            ctx.mismatch(sg("legacy", "constructed_anew", ftag, key)("error"), carry,
                         "UGLA refuses / crashes for a posterior that was updated through public setters: %r" % (e,))
    ctx.traces += 1


def check_ugla_group(ctx, states, i):
    r = i + ctx.seed
    perm = _rot(UGLA_FIELDS, r)
    ugla_chain(ctx, states, "warm", [[perm[0]], [perm[1]], [perm[0]]], r)          # 11 -> x -> 22 -> y
    ugla_chain(ctx, states, "cold", [list(perm)], r + 1)
    if ctx.tier == "thorough":
        ugla_chain(ctx, states, "partial", [[perm[1]]], r + 2)


# ======================================================================================================================
def run(ctx, jobs):
    from cuqiverif.core import MachineryError
    rto, ugla = collect_tlc(ctx, jobs)
    for i, states in enumerate(rto):
        check_rto_group(ctx, states, i)
    seen = ctx.observations.get("ugla_weights_evaluated_at", {})
    done = 0
    if list(seen) == ["x_k"]:                  # the spec's UGLA instances evaluate the weights at x_k (variant wv = 0)
        for i, states in enumerate(ugla):
            check_ugla_group(ctx, states, i)
            done += 1
    ctx.observations["mut_configurations"] = {"rto": len(rto), "ugla_emitted": len(ugla), "ugla_replayed": done}
    if done == 0 and not ctx.violations:
        raise MachineryError("LinGaussMut: the UGLA instances assume weights evaluated at x_k, the implementation was observed with %r" % (seen,))
    st = rto[0]
    ctx.sample({"kind": "rtomut", "behaviour": "build(1111) . init . draw . MutSet(prior) . MutReinit . MutDraw",
                "from": {k: st["1111"][k] for k in ("n", "m", "A", "y", "noise", "prior", "mu_q", "LamInv_q")},
                "to": {k: st["1211"][k] for k in ("noise", "prior", "y", "mu_q", "LamInv_q")}})


def replay(ctx, case):
    if case["kind"] == "rtomut":
        return rto_chain(ctx, case["states"], case["mode"], case["steps"], case["rot"])
    return ugla_chain(ctx, case["states"], case["mode"], case["steps"], case["rot"])
