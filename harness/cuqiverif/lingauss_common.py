"""Shared realisation layer of the LinGauss spec (properties C06 and C15).

Turns the cases emitted by specs/LinGauss.tla (exact integers, rationals as [n, d]) into real CUQIpy objects and
provides the affine read-off used by both replayers.  Nothing in here computes an expectation: expectations come
from the TLC case (fields Lam, rhs, mu_q, LamInv_q, ...).
"""
import contextlib, io
from fractions import Fraction

import numpy as np

from .script_rng import scripted, ScriptError
from .core import MachineryError


# ----- exact numbers -------------------------------------------------------------------------------------------
def qval(x):
    """TLC rational(s) [n, d] (arbitrarily nested) -> float(s), correctly rounded."""
    if isinstance(x, list) and len(x) == 2 and all(isinstance(v, int) and not isinstance(v, bool) for v in x):
        return float(Fraction(x[0], x[1]))
    return [qval(v) for v in x]


def qnp(x):
    return np.array(qval(x), dtype=float)


def inp(x):
    return np.array(x, dtype=float)


def quiet():
    return contextlib.redirect_stdout(io.StringIO())


# ----- Gaussians -----------------------------------------------------------------------------------------------
LAYOUTS = ("f64c", "int", "f32", "fortran", "strided", "readonly")


def layout(a, lay, param=False):
    """The SAME numbers in another data layout / type (C06 round 7; `lay` None / "f64c": plain C-contiguous float64).
    int: integer dtype when every entry is an integer; f32: float32 (all numbers of the lattice are dyadic: exact) - not for
    the parameters of a Gaussian (`param`), whose inverse / Cholesky factor would then legitimately be computed in single
    precision; fortran: column-major; strided: non-contiguous view (every second entry of a larger buffer filled with
    NaN in between); readonly: writeable flag cleared."""
    if lay in (None, "f64c"):
        return a
    if np.isscalar(a):
        return int(a) if (lay == "int" and float(a) == int(a)) else a
    a = np.array(a, dtype=float)
    if lay == "int":
        return a.astype(int) if np.all(a == np.round(a)) else a
    if lay == "f32":
        return a if param else a.astype(np.float32)
    if lay == "fortran":
        return np.asfortranarray(a)
    if lay == "strided":
        big = np.full(tuple(2 * k for k in a.shape), np.nan)
        view = big[tuple(slice(None, None, 2) for _ in a.shape)]
        view[...] = a
        return view
    if lay == "readonly":
        a = a.copy()
        a.setflags(write=False)
        return a
    raise MachineryError("unknown layout %r" % (lay,))


def gauss_kwargs(spec, lay=None):
    """{form: parameter} for cuqi.distribution.Gaussian from a TLC noise / prior record."""
    p = qval(spec["param_q"])
    if spec["shape"] == "scalar":
        val = float(p)
    else:
        val = np.array(p, dtype=float)
    return {spec["form"]: layout(val, lay, param=True)}


def linear_model(A, kind, domain_geometry=None, lay=None):
    import cuqi
    A = layout(np.array(A, dtype=float), lay)
    m, na = A.shape
    if kind == "matrix":
        if domain_geometry is None:
            return cuqi.model.LinearModel(A)
        return cuqi.model.LinearModel(A, domain_geometry=domain_geometry)
    return cuqi.model.LinearModel(lambda x: A @ x, lambda y: A.T @ y, range_geometry=m,
                                  domain_geometry=domain_geometry if domain_geometry is not None else na)


def build_prior(case, n, geometry=None, name="x"):
    """Prior of a `rto` / `map` case.  Scalar means are passed as scalars (documented for Gaussian); GMRF documents
    an array-like mean, so it always gets the vector."""
    import cuqi
    pr = case["prior"]
    lay = case.get("lay")
    mu = layout(np.array(pr["blocks"][0]["mu"], dtype=float), lay)
    if pr["kind"] == "gmrf":
        with quiet():
            return cuqi.distribution.GMRF(mu, float(pr["delta"]), bc_type="zero", order=pr["order"],
                                          geometry=geometry if geometry is not None else n, name=name)
    if pr["kind"] == "joint":
        means = [layout(np.array(b["mu"], dtype=float), lay) for b in pr["blocks"]]
        sq = [layout(np.array(b["L"], dtype=float), lay, param=True) for b in pr["blocks"]]
        return cuqi.distribution.JointGaussianSqrtPrec(means, sq, geometry=geometry if geometry is not None else n, name=name)
    kw = gauss_kwargs(pr, lay)
    if case["mk"] == "scalar":
        return cuqi.distribution.Gaussian(layout(float(mu[0]), lay), geometry=geometry if geometry is not None else n, name=name, **kw)
    if geometry is not None:
        return cuqi.distribution.Gaussian(mu, geometry=geometry, name=name, **kw)
    return cuqi.distribution.Gaussian(mu, name=name, **kw)


def build_rto_posterior(case):
    """Posterior (one likelihood) or MultipleLikelihoodPosterior (two) of a `rto` case, via JointDistribution."""
    import cuqi
    n = case["n"]
    x = build_prior(case, n)
    ys, data = [], {}
    for q in range(case["nl"]):
        model = linear_model(case["A"][q], case["mdl"], lay=case.get("lay"))
        name = "y%d" % (q + 1)
        ys.append(cuqi.distribution.Gaussian(model(x), name=name, **gauss_kwargs(case["noise"][q], case.get("lay"))))
        data[name] = layout(np.array(case["y"][q], dtype=float), case.get("lay"))
    return cuqi.distribution.JointDistribution(x, *ys)(**data)


# ----- affine read-off -----------------------------------------------------------------------------------------
class Unit:
    """Scripted standard-normal request: all zeros, or the k-th unit vector of whatever size is asked for."""

    def __init__(self, k=None):
        self.k = k
        self.shapes = []

    def __call__(self, shape):
        self.shapes.append(tuple(shape))
        size = int(np.prod(shape)) if shape else 1
        e = np.zeros(size)
        if self.k is not None:
            if self.k >= size:
                raise ScriptError("unit vector %d requested for a draw of size %d" % (self.k, size))
            e[self.k] = 1.0
        return e.reshape(shape) if shape else float(e[0])


def affine_readoff(draw, n_extra_ok=0):
    """draw(items) -> next state, where `items` is the list of scripted normal items for ONE transition.
    Returns (offset, T, N): next = offset + T e  for the standard-normal vector e of length N the code asks for."""
    u = Unit(None)
    off = np.asarray(draw([u]), dtype=float).copy()
    if len(u.shapes) != 1:
        raise ScriptError("expected exactly one normal draw per transition, saw %r" % (u.shapes,))
    N = int(np.prod(u.shapes[0]))
    cols = []
    for k in range(N):
        cols.append(np.asarray(draw([Unit(k)]), dtype=float) - off)
    T = np.array(cols).T if cols else np.zeros((len(off), 0))
    return off, T, N


def rel_err(a, b, scale=1.0):
    """max |a - b| relative to max(|b|, scale): the problems are built from O(1) integers, so `scale` = 1 is the
    magnitude below which an expected value counts as zero (an exactly zero posterior mean occurs on the lattice)."""
    a, b = np.asarray(a, dtype=float), np.asarray(b, dtype=float)
    if a.shape != b.shape:
        return float("inf")
    if not np.all(np.isfinite(a)):
        return float("inf")
    if a.size == 0:
        return 0.0
    return float(np.max(np.abs(a - b)) / max(float(np.max(np.abs(b))), scale))


def form_tag(spec):
    if spec["kind"] == "gmrf":
        return "gmrf.o%d.d%d" % (spec["order"], spec["delta"])
    if spec["kind"] == "joint":
        return "joint.sqrtprec"
    return "%s.%s" % (spec["kind"], spec["form"])


def require_attr(obj, name):
    if not hasattr(obj, name):
        raise MachineryError("internal attribute %s.%s (named by the property anchors) no longer exists" % (type(obj).__name__, name))
    return getattr(obj, name)


# ----- added for the `reassign` part (C15 round 4): values handed to public setters, dense views of what is read back ----
def mean_value(case):
    """Prior mean of a case as it is handed to the constructor / the `mean` setter: a scalar for scalar means of a
    Gaussian, the vector otherwise (GMRF documents an array-like mean)."""
    mu = np.array(case["prior"]["blocks"][0]["mu"], dtype=float)
    if case["mk"] == "scalar" and case["prior"]["kind"] != "gmrf":
        return float(mu[0])
    return mu


def prior_assignment(case):
    """(attribute name, value) of the prior's parameter for the public setter of that input form."""
    pr = case["prior"]
    if pr["kind"] == "gmrf":
        return "prec", float(pr["delta"])
    (form, val), = gauss_kwargs(pr).items()
    return form, val


def noise_assignment(case):
    (form, val), = gauss_kwargs(case["noise"]).items()
    return form, val


def dense(M):
    """ndarray view of a matrix read back from a distribution (scipy sparse / np.matrix / ndarray)."""
    if hasattr(M, "toarray"):
        M = M.toarray()
    return np.asarray(M, dtype=float)


def expand_diag(v, dim):
    """A covariance / precision read back from a Gaussian, as a dim x dim matrix: Gaussian documents that a scalar or
    1-d array defines the diagonal entries."""
    v = dense(v)
    if v.size == 1:
        return float(v.ravel()[0]) * np.eye(dim)
    if v.ndim == 1:
        return np.diag(v)
    return v
