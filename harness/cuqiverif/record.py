"""Harness-side recorders (no source hooks): wrappers installed on CUQIpy classes *in the harness / pytest process*.

A Recorder collects events per traced object.  Each event is a small dict logged AFTER the wrapped call returned
(also on the error path, in `finally`), carrying the action name, its arguments and cheap projected state
(lengths, indices, value ids, flags).  Nested calls of already-wrapped public methods are skipped with a depth counter
where the spec treats the outer call as the action.

Value ids: vid(x) = first 6 decimal digits of a hash of the array bytes (TLC integers are 32 bit).
"""
import functools, hashlib, json, os
import numpy as np


def vid(x):
    if x is None:
        return 0
    a = np.ascontiguousarray(np.asarray(x, dtype=float))
    return int(hashlib.sha1(a.tobytes()).hexdigest()[:8], 16) % 999983 + 1


class Recorder:
    def __init__(self, max_events_per_trace=4000, max_traces=400):
        self.traces = {}        # key -> list of events
        self.closed = set()     # keys whose trace was ended (tampering / cap); later events are dropped
        self.meta = {}
        self.max_events = max_events_per_trace
        self.max_traces = max_traces
        self._undo = []
        self.enabled = True
        self._side = {}
        self._serial = 0

    # -- per-object recorder state --------------------------------------------------
    def side(self, obj):
        """Recorder-private state of a traced object.  Kept in a side table (with a strong reference to the object, so
        that id() stays unique) instead of attributes: the repository's tests compare instance __dict__s."""
        ent = self._side.get(id(obj))
        if ent is None or ent[0] is not obj:
            self._serial += 1
            ent = (obj, {"tid": self._serial})
            self._side[id(obj)] = ent
        return ent[1]

    # -- events ---------------------------------------------------------------
    def key(self, obj):
        return self.side(obj)["tid"]

    def emit(self, obj, ev, **meta):
        if not self.enabled:
            return
        k = self.key(obj)
        if k in self.closed:
            return
        if k not in self.traces:
            if len(self.traces) >= self.max_traces:
                self.closed.add(k)
                return
            self.traces[k] = []
            self.meta[k] = {"cls": type(obj).__name__, **meta}
        t = self.traces[k]
        if len(t) >= self.max_events:
            self.closed.add(k)
            return
        t.append(ev)

    def close(self, obj):
        self.closed.add(self.key(obj))

    def drop(self, obj):
        k = self.key(obj)
        self.traces.pop(k, None)
        self.closed.add(k)

    # -- patching -------------------------------------------------------------
    def patch(self, cls, name, make_wrapper):
        if name not in cls.__dict__:
            return False
        orig = cls.__dict__[name]
        wrapped = make_wrapper(orig)
        functools.update_wrapper(wrapped, orig)
        setattr(cls, name, wrapped)
        self._undo.append((cls, name, orig))
        return True

    def uninstall(self):
        for cls, name, orig in reversed(self._undo):
            setattr(cls, name, orig)
        self._undo = []

    # -- output ---------------------------------------------------------------
    def dump(self, path, min_len=1):
        out = []
        for k, t in self.traces.items():
            if len(t) >= min_len:
                out.append({"meta": self.meta.get(k, {}), "events": t})
        with open(path, "w") as f:
            json.dump(out, f)
        return len(out)

    def trace_list(self, min_len=1):
        return [{"meta": self.meta.get(k, {}), "events": t} for k, t in self.traces.items() if len(t) >= min_len]


def all_subclasses(cls):
    out, stack = [], [cls]
    while stack:
        c = stack.pop()
        for s in c.__subclasses__():
            if s not in out:
                out.append(s)
                stack.append(s)
    return out


# --------------------------------------------------------------------------------------------------------------
# life-cycle recorder for cuqi.experimental.mcmc.Sampler subclasses (C14; also the base events of C02/C08/C09)
# --------------------------------------------------------------------------------------------------------------
def install_sampler_life(rec, step_extra=None):
    """Wrap sample / warmup / step / _call_callback / get_samples / reinitialize / set_state / set_history of the
    stateful samplers.  `step_extra(sampler, before, acc) -> dict` may add facet flags to every step event."""
    import cuqi
    from cuqi.experimental.mcmc import Sampler
    from cuqiverif.core import MachineryError
    for need in ("sample", "warmup", "_call_callback", "get_samples", "reinitialize", "set_state", "set_history"):
        if need not in Sampler.__dict__:
            raise MachineryError("recorder target Sampler.%s is missing" % need)

    def tampered(s):
        # the test-suite sometimes assigns sampler._samples directly; such an object is no longer traced
        st = rec.side(s)
        exp = st.get("len")
        cur = getattr(s, "_samples", None)
        return exp is not None and (cur is None or len(cur) != exp or id(cur) != st.get("lid"))

    def note_len(s):
        cur = getattr(s, "_samples", None)
        st = rec.side(s)
        if cur is not None:
            st["len"], st["lid"] = len(cur), id(cur)
        else:
            st["len"], st["lid"] = None, None

    def window(opname):
        def mk(orig):
            def wrapper(self, *a, **k):
                # the first parameter may be passed by keyword (sample(Ns=..), warmup(Nb=..)): never change how a call binds
                if a:
                    n = a[0]
                elif k:
                    n = k.get("Ns", k.get("Nb", next(iter(k.values()))))
                else:
                    return orig(self, *a, **k)          # malformed call: let the library raise its own error
                if tampered(self):
                    rec.close(self)
                st = rec.side(self)
                if st.get("win", 0):
                    return orig(self, *a, **k)
                st["win"] = 1
                started = False
                try:
                    if not self._is_initialized:
                        self.initialize()
                        note_len(self)
                    ev = {"e": "begin", "op": opname, "n": int(n), "interval": 0}
                    if opname == "warmup":
                        # documented: "Tuning is performed every tune_freq*Nb samples" (at least every sample)
                        tf = a[1] if len(a) > 1 else k.get("tune_freq", 0.1)
                        ev["interval"] = max(int(tf * n), 1)
                    rec.emit(self, ev)
                    started = True
                    return orig(self, *a, **k)
                except BaseException:
                    rec.close(self)       # an exception inside a sampling loop ends the trace (nothing more is checked)
                    raise
                finally:
                    st["win"] = 0
                    if started:
                        rec.emit(self, {"e": "end", "op": opname, "len": len(self._samples) if self._samples is not None else -1})
                    note_len(self)
            return wrapper
        return mk
    rec.patch(Sampler, "sample", window("sample"))
    rec.patch(Sampler, "warmup", window("warmup"))

    def mk_step(orig):
        def wrapper(self, *a, **k):
            st = rec.side(self)
            if st.get("instep", 0):
                return orig(self, *a, **k)
            st["instep"] = 1
            before = step_extra and step_extra.get("before") and step_extra["before"](self)
            acc = None
            try:
                acc = orig(self, *a, **k)
                return acc
            finally:
                st["instep"] = 0
                ev = {"e": "step", "pid": vid(getattr(self, "current_point", None)), "win": int(st.get("win", 0))}
                if step_extra and step_extra.get("after"):
                    try:
                        ev.update(step_extra["after"](self, before, acc))
                    except Exception as ex:      # facet computation must never disturb the run
                        ev["facet_error"] = str(ex)[:80]
                rec.emit(self, ev)
        return wrapper
    for cls in [Sampler] + all_subclasses(Sampler):
        if "step" in cls.__dict__ and not getattr(cls.__dict__["step"], "__isabstractmethod__", False):
            rec.patch(cls, "step", mk_step)

    def mk_tune(orig):
        def wrapper(self, *a, **k):
            st = rec.side(self)
            if st.get("intune", 0):
                return orig(self, *a, **k)
            st["intune"] = 1
            try:
                return orig(self, *a, **k)
            finally:
                st["intune"] = 0
                skip = a[0] if len(a) > 0 else k.get("skip_len")
                cnt = a[1] if len(a) > 1 else k.get("update_count")
                if isinstance(skip, (int, np.integer)) and isinstance(cnt, (int, np.integer)):
                    rec.emit(self, {"e": "tune", "skip": int(skip), "count": int(cnt), "win": int(rec.side(self).get("win", 0))})
        return wrapper
    for cls in [Sampler] + all_subclasses(Sampler):
        if "tune" in cls.__dict__ and not getattr(cls.__dict__["tune"], "__isabstractmethod__", False):
            rec.patch(cls, "tune", mk_tune)

    def mk_cb(orig):
        def wrapper(self, sample, sample_index):
            try:
                return orig(self, sample, sample_index)
            finally:
                rec.emit(self, {"e": "cb", "idx": int(sample_index), "pid": vid(sample)})
        return wrapper
    rec.patch(Sampler, "_call_callback", mk_cb)

    def mk_get(orig):
        def wrapper(self):
            out = orig(self)
            if tampered(self):
                rec.close(self)
            else:
                # the chain AS RETURNED (columns of the Samples object), not the internal list
                try:
                    A = np.asarray(out.samples, dtype=float)
                    if A.ndim == 0:
                        A = A.reshape(1, 1)
                    elif A.ndim == 1:
                        # one column per recorded state: a 1-D array is N states of a scalar chain, or no state at all
                        A = A.reshape(1, -1)
                    ids = [vid(A[:, j]) for j in range(A.shape[1])]
                except Exception:
                    ids = None            # an unexpected return type is not judged here (result classes are not asserted)
                if ids is not None and len(ids) <= 600:
                    rec.emit(self, {"e": "get", "ids": ids})
            return out
        return wrapper
    rec.patch(Sampler, "get_samples", mk_get)

    def mk_reinit(orig):
        def wrapper(self):
            st = rec.side(self)
            if st.get("inreinit", 0):
                return orig(self)
            st["inreinit"] = 1
            try:
                return orig(self)
            finally:
                st["inreinit"] = 0
                rec.emit(self, {"e": "reinit"})
                note_len(self)
        return wrapper
    for cls in [Sampler] + all_subclasses(Sampler):
        if "reinitialize" in cls.__dict__:
            rec.patch(cls, "reinitialize", mk_reinit)

    def mk_setstate(orig):
        def wrapper(self, *a, **k):
            state = a[0] if a else k.get("state")
            ok = False
            try:
                out = orig(self, *a, **k)
                ok = True
                return out
            finally:
                # spid: value id of the chain point in the state handed in; pid: the sampler's point after the call
                # (0 = not available).  A state that was installed must be the state the sampler continues from.
                spid = pid = 0
                try:
                    pt = state["state"].get("current_point") if ok else None
                    if pt is not None and getattr(self, "current_point", None) is not None:
                        spid, pid = vid(pt), vid(self.current_point)
                except Exception:
                    spid = pid = 0
                rec.emit(self, {"e": "setstate", "spid": spid, "pid": pid})
        return wrapper
    rec.patch(Sampler, "set_state", mk_setstate)

    def mk_sethist(orig):
        def wrapper(self, *a, **k):
            try:
                return orig(self, *a, **k)
            finally:
                h = getattr(self, "_samples", None)
                if h:                       # a non-empty history installed from outside: not modelled, stop tracing
                    rec.close(self)
                else:
                    rec.emit(self, {"e": "sethist", "len": 0})
                note_len(self)
        return wrapper
    rec.patch(Sampler, "set_history", mk_sethist)
    return rec
