"""Trace validation: recorded executions are checked by TLC against a Trace<Module>.tla refinement of the spec."""
import json, os, time

from . import tlc as _tlc
from .tlc import MachineryError


def validate(ctx, traces, spec, cfg_text, extra_modules=(), chunk=150, deque=False, timeout=900, label="trace"):
    """traces: list of {"meta":..., "events":[...]}.  Returns list of verdicts
    {"tid": i, "ok": bool, "matched": n, "next": event or None, "last": previous event, "meta": ...}.
    All traces of a chunk are validated in one TLC run (one initial state per trace)."""
    verdicts = []
    wd = os.path.join(_tlc.WORK, "%s-%d-%d" % (label, os.getpid(), int(time.time() * 1000) % 10**7))
    os.makedirs(wd, exist_ok=True)
    try:
        for c0 in range(0, len(traces), chunk):
            part = traces[c0:c0 + chunk]
            path = os.path.join(wd, "traces_%d.json" % c0)
            json.dump(part, open(path, "w"))
            res = ctx.tlc(spec, cfg_text=cfg_text.replace("@@ACCEPT@@", "Accepted"), workers=8, env={"TRACE_FILE": path},
                          extra_modules=extra_modules, deque=deque, timeout=timeout,
                          workdir=os.path.join(wd, "run_%d" % c0))
            if not res.ok:
                raise MachineryError("trace spec %s failed: %s\n%s" % (spec, res.violated, "\n".join(res.stdout.splitlines()[-30:])))
            acc = {c["acc"] for c in res.cases if "acc" in c}
            for i, t in enumerate(part, start=1):
                if i in acc:
                    verdicts.append({"tid": c0 + i, "ok": True, "matched": len(t["events"]), "meta": t.get("meta")})
                    continue
                # diagnostic run of this trace alone: longest matched prefix
                p1 = os.path.join(wd, "single_%d.json" % (c0 + i))
                json.dump([t], open(p1, "w"))
                r1 = _tlc.run_tlc(spec, cfg_text=cfg_text.replace("@@ACCEPT@@", "Progress"), workers=1, env={"TRACE_FILE": p1},
                                  extra_modules=extra_modules, deque=deque, timeout=timeout,
                                  workdir=os.path.join(wd, "single_%d" % (c0 + i)))
                mx = max([c["l"] for c in r1.cases if "l" in c] + [1])
                ev = t["events"]
                verdicts.append({"tid": c0 + i, "ok": False, "matched": mx - 1,
                                 "next": ev[mx - 1] if mx - 1 < len(ev) else None,
                                 "last": ev[mx - 2] if mx >= 2 else None, "meta": t.get("meta"),
                                 "window": ev[max(0, mx - 4):mx + 1]})
    finally:
        import shutil
        shutil.rmtree(wd, ignore_errors=True)
    return verdicts


def corrupt_selftest(ctx, trace, spec, cfg_text, mutate, extra_modules=()):
    """Demonstrate the binding: a corrupted copy of an accepted trace must be rejected."""
    bad = json.loads(json.dumps(trace))
    mutate(bad["events"])
    v = validate(ctx, [bad], spec, cfg_text, extra_modules=extra_modules, label="selftest")
    return not v[0]["ok"]
