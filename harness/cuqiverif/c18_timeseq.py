"""C18, round 11: ONE TimeDependentLinearPDE whose time grid (`time_steps`, a plain public attribute) and method (public
setter) are re-assigned between solves.

Spec: specs/PDETimeSeq.tla (cfg PDETimeSeq.{quick,thorough}.cfg; deviation dev_StaleDt -> SolveCurrent).  Every emitted behaviour
(coefficients x first grid x first method x sequence of set_time_steps / set_method / solve) is replayed on ONE real object
; after every solve the stored levels are compared with TLC's exact
levels of the documented recurrence on the grid the object reports at that moment.  Only the solution is judged: `time_obs`
(fixed at construction) is not touched, so nothing is said about observing after a change of the time grid.
"""
import contextlib
import io
import random
import warnings
from fractions import Fraction

import numpy as np

RTOL = 1e-10


def _q(q):
    return float(Fraction(q[0], q[1]))


def _qv(v):
    return np.array([_q(q) for q in v], dtype=float)


def _quiet(fn):
    with warnings.catch_warnings():
        warnings.simplefilter("ignore")
        with contextlib.redirect_stdout(io.StringIO()):
            return fn()


def _close(a, b):
    a, b = np.asarray(a, dtype=float), np.asarray(b, dtype=float)
    if a.shape != b.shape or not np.all(np.isfinite(a)):
        return False
    return bool(np.all(np.abs(a - b) <= RTOL * max(1.0, float(np.abs(b).max()) if b.size else 1.0)))


def _sub(seq, pat):
    """pat is a (not necessarily contiguous) subsequence of seq"""
    it = iter(seq)
    return all(any(x == p for x in it) for p in pat)


def skey(c):
    return "coef=%s/g0=%s/m0=%s/ops=%s" % ("_".join("%d:%d" % tuple(q) for q in c["coef"]), c["grid0"], c["method0"],
                                            ".".join(e["a"] + (":" + e["arg"] if e["arg"] else "") for e in c["hist"]))


def check(ctx, cuqi, c, idx):
    A0, A1, F0, F1, th = (_q(q) for q in c["coef"])
    times = {g: _qv(v) for g, v in c["times"].items()}
    via = "pde"
    base = "timeseq/%s/%s" % (via, c["method0"])
    rc = {"kind": "timeseq", "key": skey(c)}
    ctx.case(("timeseq", via, skey(c)), facet="timeseq/" + via)

    def form(p, t):
        p = np.asarray(p, dtype=float).reshape(-1)
        return np.array([[A0 + A1 * t]]), np.array([F0 + F1 * t]), np.array([p[0]])

    path = []

    def sig(what):
        return "%s/%s/path=%s" % (base, what, ".".join(path) or "new")
    try:
        T0 = times[c["grid0"]].copy()
        pde = cuqi.pde.TimeDependentLinearPDE(form, time_steps=T0, method=c["method0"], grid_sol=np.array([0.0]), time_obs="all")
    except Exception as e:
        ctx.mismatch(sig("raises"), rc, "construction raised %r" % e)
        return
    cur_grid, cur_method = c["grid0"], c["method0"]
    for e in c["hist"]:
        path.append(e["a"] + (":" + e["arg"] if e["arg"] else ""))
        try:
            if e["a"] == "set_time_steps":
                cur_grid = e["arg"]
                pde.time_steps = times[cur_grid].copy()
                continue
            if e["a"] == "set_method":
                cur_method = e["arg"]
                pde.method = cur_method
                continue
            pde.assemble(np.array([th]))
            out = _quiet(pde.solve)
            sol = np.asarray(out[0], dtype=float)
        except Exception as ex:
            ctx.mismatch(sig("raises"), rc, "%s raised %r" % (path[-1], ex))
            return
        exp = _qv(e["sol"]).reshape(1, -1)
        rep = np.asarray(pde.time_steps, dtype=float)
        if not (rep.shape == times[cur_grid].shape and np.array_equal(rep, times[cur_grid])) or pde.method != cur_method:
            ctx.observe("timeseq_object_reports_other_grid_or_method", True)       # not what was assigned: nothing to judge against
            return
        if not _close(sol, exp):
            ctx.mismatch(sig("solution"), rc,
                         "solve() after %s: the stored time levels are not those of the %s recurrence on the time grid the object "
                         "reports (time_steps=%s, grid at construction %s)" % (".".join(path[:-1]) or "construction", cur_method,
                                                                             rep.tolist(), times[c["grid0"]].tolist()), exp, sol)
            return


def run_part(ctx, cuqi, only=None):
    from cuqiverif.core import MachineryError
    from cuqiverif import tlc as _t
    import os
    import time
    res = ctx.tlc("PDETimeSeq", cfg="PDETimeSeq.%s.cfg" % ctx.tier, workers=8, timeout=900)
    ctx.model_must_hold(res, "PDETimeSeq")
    cases = sorted((k for k in res.cases if k["kind"] == "timeseq"), key=skey)
    _t.cleanup(res)
    if not cases:
        raise MachineryError("PDETimeSeq emitted no cases")
    if only is None:
        wd = os.path.join(_t.WORK, "PDETimeSeq-dev-%d-%d" % (os.getpid(), int(time.time() * 1000) % 10**7))
        r2 = _t.run_tlc("PDETimeSeq", cfg="PDETimeSeq.dev_StaleDt.cfg", workdir=wd, workers=2, timeout=600, expect_violation=True)
        ctx.states += r2.distinct
        ctx.transitions += r2.generated
        if r2.ok or r2.violated != "SolveCurrent":
            raise MachineryError("deviation StaleDt must violate SolveCurrent on PDETimeSeq, got %r" % r2.violated)
        _t.cleanup(r2)
        need = {"solve . set_time_steps . solve": lambda k: _sub([e["a"] for e in k["hist"]], ["solve", "set_time_steps", "solve"]),
                "grid of another length": lambda k: any(e["a"] == "set_time_steps" and len(k["times"][e["arg"]]) != len(k["times"][k["grid0"]])
                                                        for e in k["hist"]),
                "set_method": lambda k: any(e["a"] == "set_method" for e in k["hist"])}
        for name, pred in need.items():
            if not any(pred(k) for k in cases):
                raise MachineryError("vacuous PDETimeSeq: no behaviour '%s'" % name)
        limit = 500 if ctx.tier == "quick" else 6000
        if len(cases) > limit:
            rnd = random.Random(ctx.seed)
            core = [k for k in cases if need["solve . set_time_steps . solve"](k)]
            core = core if len(core) <= limit // 2 else rnd.sample(core, limit // 2)
            rest = [k for k in cases if not need["solve . set_time_steps . solve"](k)]
            cases = sorted(core + rnd.sample(rest, min(len(rest), limit - len(core))), key=skey)
    nrun = 0
    for i, k in enumerate(cases):
        if only is not None and skey(k) != only:
            continue
        check(ctx, cuqi, k, i)
        nrun += 1
    if only is None:
        ctx.observe("timeseq_cases", nrun)
        ctx.sample({"timeseq": cases[len(cases) // 2]})
    return nrun
