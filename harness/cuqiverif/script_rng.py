"""Scripted randomness.

`scripted(...)` replaces the module-level functions of numpy.random (which CUQIpy looks up at call time) by functions
that pop pre-computed values from per-kind queues and log every request.  `StubRNG` is an object with the same
methods for `rng=` / `random_state=` arguments.

Kinds and the numpy functions mapped to them
  normal      : randn(*shape), standard_normal(size), normal(loc, scale, size) -> loc + scale * z
  uniform     : rand(*shape), random(size), random_sample(size), uniform(low, high, size) -> low + (high - low) * u
  exponential : exponential(scale, size) -> scale * e        (e = standard exponential value from the script)
  gamma       : gamma(shape, scale, size)   -> value from the script, used as is (arguments are logged)
  laplace     : laplace(loc, scale, size)   -> value from the script, used as is (arguments are logged)
  integers    : randint / choice            -> value from the script, used as is

A queue item is either an array (returned reshaped to the requested shape; its size must match), a scalar
(broadcast to the requested shape) or a callable shape -> array.  Exhausted queue or size mismatch raises ScriptError.
"""
import contextlib
import numpy as np


class ScriptError(Exception):
    pass


def _shape_of(size):
    if size is None:
        return ()
    if isinstance(size, (int, np.integer)):
        return (int(size),)
    return tuple(int(s) for s in size)


class Stream:
    def __init__(self, queues=None, default=None, name="script"):
        self.q = {k: list(v) for k, v in (queues or {}).items()}
        self.log = []          # (function, kind, shape, args)
        self.default = default  # optional dict kind -> callable(shape) used when the queue is empty
        self.name = name

    def push(self, kind, *items):
        self.q.setdefault(kind, []).extend(items)

    def remaining(self, kind=None):
        if kind:
            return len(self.q.get(kind, []))
        return {k: len(v) for k, v in self.q.items() if v}

    def take(self, fn, kind, shape, args=None):
        self.log.append((fn, kind, tuple(shape), args))
        lst = self.q.get(kind)
        if not lst:
            if self.default and kind in self.default:
                return np.asarray(self.default[kind](shape), dtype=float).reshape(shape) if shape else float(self.default[kind](shape))
            raise ScriptError("%s: request %s%r of kind %r but the script is exhausted (log: %d requests)" % (
                self.name, fn, tuple(shape), kind, len(self.log)))
        item = lst.pop(0)
        if callable(item):
            item = item(shape)
        a = np.asarray(item, dtype=float)
        n = int(np.prod(shape)) if shape else 1
        if a.ndim == 0:
            return float(a) if not shape else np.full(shape, float(a))
        if a.size != n:
            raise ScriptError("%s: request %s%r of kind %r but scripted item has size %d" % (self.name, fn, tuple(shape), kind, a.size))
        if not shape:
            return float(a.reshape(-1)[0])
        return a.reshape(shape).copy()


def _make_functions(st):
    f = {}
    f["randn"] = lambda *shape: st.take("randn", "normal", shape)
    f["standard_normal"] = lambda size=None: st.take("standard_normal", "normal", _shape_of(size))

    def normal(loc=0.0, scale=1.0, size=None):
        shape = _shape_of(size) if size is not None else np.broadcast(np.asarray(loc), np.asarray(scale)).shape
        z = st.take("normal", "normal", shape, args={"loc": loc, "scale": scale})
        return np.asarray(loc) + np.asarray(scale) * z
    f["normal"] = normal
    f["rand"] = lambda *shape: st.take("rand", "uniform", shape)
    f["random"] = lambda size=None: st.take("random", "uniform", _shape_of(size))
    f["random_sample"] = lambda size=None: st.take("random_sample", "uniform", _shape_of(size))

    def uniform(low=0.0, high=1.0, size=None):
        shape = _shape_of(size) if size is not None else np.broadcast(np.asarray(low), np.asarray(high)).shape
        u = st.take("uniform", "uniform", shape, args={"low": low, "high": high})
        return np.asarray(low) + (np.asarray(high) - np.asarray(low)) * u
    f["uniform"] = uniform

    def exponential(scale=1.0, size=None):
        shape = _shape_of(size) if size is not None else np.asarray(scale).shape
        return np.asarray(scale) * st.take("exponential", "exponential", shape, args={"scale": scale})
    f["exponential"] = exponential
    f["standard_exponential"] = lambda size=None: st.take("standard_exponential", "exponential", _shape_of(size))

    def gamma(shape, scale=1.0, size=None):
        shp = _shape_of(size) if size is not None else np.broadcast(np.asarray(shape), np.asarray(scale)).shape
        return st.take("gamma", "gamma", shp, args={"shape": shape, "scale": scale})
    f["gamma"] = gamma

    def laplace(loc=0.0, scale=1.0, size=None):
        shp = _shape_of(size) if size is not None else np.broadcast(np.asarray(loc), np.asarray(scale)).shape
        return st.take("laplace", "laplace", shp, args={"loc": loc, "scale": scale})
    f["laplace"] = laplace

    def beta(a, b, size=None):
        shp = _shape_of(size) if size is not None else np.broadcast(np.asarray(a), np.asarray(b)).shape
        return st.take("beta", "beta", shp, args={"a": a, "b": b})
    f["beta"] = beta

    def randint(low, high=None, size=None, dtype=int):
        v = st.take("randint", "integers", _shape_of(size), args={"low": low, "high": high})
        return np.asarray(v).astype(int) if np.ndim(v) else int(v)
    f["randint"] = randint

    def choice(a, size=None, replace=True, p=None):
        v = st.take("choice", "integers", _shape_of(size), args={"a": a, "p": p})
        return np.asarray(v).astype(int) if np.ndim(v) else int(v)
    f["choice"] = choice
    return f


@contextlib.contextmanager
def scripted(queues=None, default=None, stream=None):
    """Context manager: numpy.random.<fn> are scripted inside the block.  Yields the Stream (log, remaining())."""
    st = stream or Stream(queues, default)
    fs = _make_functions(st)
    saved = {}
    try:
        for k, v in fs.items():
            saved[k] = getattr(np.random, k)
            setattr(np.random, k, v)
        yield st
    finally:
        for k, v in saved.items():
            setattr(np.random, k, v)


class StubRNG:
    """Stand-in for numpy.random.RandomState / Generator passed as rng= ; same scripting rules."""

    def __init__(self, queues=None, default=None):
        self.stream = Stream(queues, default, name="stub-rng")
        for k, v in _make_functions(self.stream).items():
            setattr(self, k, v)

    @property
    def log(self):
        return self.stream.log


def global_state_digest():
    """Digest of numpy's global random state (to check that it was / was not consumed)."""
    import hashlib
    s = np.random.get_state()
    return hashlib.sha1(s[1].tobytes() + bytes([s[2] % 256]) + str(s[2:]).encode()).hexdigest()


def below(tau, rel=1e-6):
    """A uniform value just below an acceptance threshold tau in (0, 1]  (decision class `Below`: accept)."""
    return min(tau, 1.0) * (1 - rel)


def above(tau, rel=1e-6):
    """A uniform value just above an acceptance threshold tau < 1 (decision class `Above`: reject)."""
    assert tau < 1
    return min(tau * (1 + rel), (tau + 1) / 2)
