"""Small targets and sampler factories shared by the stateful-sampler checks (C14, C09, C02 traces).

Every factory returns a *freshly constructed* sampler of the same configuration each time it is called
(`callback` is passed through), so "a freshly constructed sampler of the same configuration" is `factory()`.
"""
import contextlib, io
import numpy as np


@contextlib.contextmanager
def quiet():
    with contextlib.redirect_stdout(io.StringIO()), contextlib.redirect_stderr(io.StringIO()):
        yield


def lin_gauss_posterior(n=3, m=4):
    import cuqi
    rs = np.random.RandomState(5)
    A = rs.randint(-2, 3, size=(m, n)).astype(float) + np.eye(m, n)
    model = cuqi.model.LinearModel(A)
    x = cuqi.distribution.Gaussian(np.zeros(n), 1.0, name="x")
    y = cuqi.distribution.Gaussian(model(x), 0.25, name="y")
    ydata = A @ np.arange(1, n + 1) * 0.5 + 0.1
    return cuqi.distribution.JointDistribution(x, y)(y=ydata)


def lmrf_posterior(n=4):
    import cuqi
    rs = np.random.RandomState(6)
    A = rs.randint(-2, 3, size=(n + 1, n)).astype(float) + np.eye(n + 1, n)
    model = cuqi.model.LinearModel(A)
    x = cuqi.distribution.LMRF(0, 0.5, geometry=n, name="x")
    y = cuqi.distribution.Gaussian(model(x), 0.25, name="y")
    ydata = A @ np.array([0.0, 1, 1, 0][:n]) + 0.05
    return cuqi.distribution.JointDistribution(x, y)(y=ydata)


def regularized_posterior(n=3):
    import cuqi
    rs = np.random.RandomState(7)
    A = rs.randint(-2, 3, size=(n + 1, n)).astype(float) + np.eye(n + 1, n)
    model = cuqi.model.LinearModel(A)
    x = cuqi.implicitprior.RegularizedGaussian(np.zeros(n), 1.0, constraint="nonnegativity", name="x")
    y = cuqi.distribution.Gaussian(model(x), 0.25, name="y")
    ydata = A @ np.array([0.5, 0.0, 1.0][:n]) + 0.05
    return cuqi.distribution.JointDistribution(x, y)(y=ydata)


def conjugate_posterior():
    import cuqi
    y = cuqi.distribution.Gaussian(np.zeros(3), lambda s: 1 / s, name="y")
    s = cuqi.distribution.Gamma(2, 1.5, name="s")
    return cuqi.distribution.JointDistribution(y, s)(y=np.array([0.5, -1.0, 0.25]))


def conjugate_approx_posterior():
    import cuqi
    x = cuqi.distribution.LMRF(0, lambda s: 1 / s, geometry=4, name="x")
    s = cuqi.distribution.Gamma(2, 1.5, name="s")
    return cuqi.distribution.Posterior(x.to_likelihood(np.array([0.0, 1.0, 0.5, -0.5])), s)


def hier_joint(n=3):
    """d ~ Gamma, x | d ~ Gaussian(0, 1/d), s ~ Gamma, y | x, s ~ Gaussian(Ax, 1/s); data on y."""
    import cuqi
    rs = np.random.RandomState(8)
    A = rs.randint(-2, 3, size=(n + 1, n)).astype(float) + np.eye(n + 1, n)
    model = cuqi.model.LinearModel(A)
    d = cuqi.distribution.Gamma(2, 1.0, name="d")
    s = cuqi.distribution.Gamma(3, 0.5, name="s")
    x = cuqi.distribution.Gaussian(np.zeros(n), lambda d: 1 / d, name="x")
    y = cuqi.distribution.Gaussian(model(x), lambda s: 1 / s, name="y")
    ydata = A @ np.array([1.0, -0.5, 0.5][:n]) + 0.1
    return cuqi.distribution.JointDistribution(d, s, x, y)(y=ydata)


def stateful_factories():
    """name -> factory(callback=None) for cuqi.experimental.mcmc samplers."""
    import cuqi
    M = cuqi.experimental.mcmc
    post = lin_gauss_posterior()
    f = {}
    f["MH"] = lambda callback=None: M.MH(post, scale=0.3, initial_point=np.array([0.5, 0.2, -0.1]), callback=callback)
    f["CWMH"] = lambda callback=None: M.CWMH(post, scale=0.3, initial_point=np.array([0.5, 0.2, -0.1]), callback=callback)
    f["PCN"] = lambda callback=None: M.PCN(post, scale=0.3, initial_point=np.array([0.5, 0.2, -0.1]), callback=callback)
    f["ULA"] = lambda callback=None: M.ULA(post, scale=0.01, initial_point=np.array([0.5, 0.2, -0.1]), callback=callback)
    f["MALA"] = lambda callback=None: M.MALA(post, scale=0.05, initial_point=np.array([0.5, 0.2, -0.1]), callback=callback)
    f["NUTS"] = lambda callback=None: M.NUTS(post, max_depth=3, initial_point=np.array([0.5, 0.2, -0.1]), callback=callback)
    f["LinearRTO"] = lambda callback=None: M.LinearRTO(post, maxit=50, callback=callback)
    rpost = regularized_posterior()
    f["RegularizedLinearRTO"] = lambda callback=None: M.RegularizedLinearRTO(rpost, maxit=30, stepsize=0.005, callback=callback)
    lpost = lmrf_posterior()
    f["UGLA"] = lambda callback=None: M.UGLA(lpost, callback=callback)
    cpost = conjugate_posterior()

    def conj(callback=None):
        s = M.Conjugate(cpost)
        s.callback = callback
        return s
    f["Conjugate"] = conj
    capost = conjugate_approx_posterior()

    def conja(callback=None):
        s = M.ConjugateApprox(capost)
        s.callback = callback
        return s
    f["ConjugateApprox"] = conja
    g = cuqi.distribution.Gaussian(np.array([1.0, -1.0]), np.array([[2.0, 0.5], [0.5, 1.0]]))

    def direct(callback=None):
        s = M.Direct(g)
        s.callback = callback
        return s
    f["Direct"] = direct
    return f


def hybrid_gibbs_factories():
    import cuqi
    M = cuqi.experimental.mcmc
    joint = hier_joint()
    f = {}

    def conj_rto():
        with quiet():
            return M.HybridGibbs(joint, {"d": M.Conjugate(), "s": M.Conjugate(), "x": M.LinearRTO(maxit=30)})
    f["HybridGibbs[Conj,Conj,RTO]"] = conj_rto

    def conj_mh():
        with quiet():
            return M.HybridGibbs(joint, {"d": M.Conjugate(), "s": M.Conjugate(), "x": M.MH(scale=0.2)},
                                 num_sampling_steps={"x": 2})
    f["HybridGibbs[Conj,Conj,MHx2]"] = conj_mh

    def conj_nuts():
        with quiet():
            return M.HybridGibbs(joint, {"d": M.Conjugate(), "s": M.Conjugate(), "x": M.NUTS(max_depth=2)})
    f["HybridGibbs[Conj,Conj,NUTS]"] = conj_nuts
    return f


def legacy_factories():
    """name -> factory(callback=None) for cuqi.sampler samplers (stateless interface)."""
    import cuqi
    S = cuqi.sampler
    post = lin_gauss_posterior()
    x0 = np.array([0.5, 0.2, -0.1])
    f = {}
    f["MH"] = lambda callback=None: S.MH(post, scale=0.3, x0=x0.copy(), callback=callback)
    f["CWMH"] = lambda callback=None: S.CWMH(post, scale=0.3, x0=x0.copy(), callback=callback)
    f["pCN"] = lambda callback=None: S.pCN(post, scale=0.3, x0=x0.copy(), callback=callback)
    f["ULA"] = lambda callback=None: S.ULA(post, scale=0.01, x0=x0.copy(), callback=callback)
    f["MALA"] = lambda callback=None: S.MALA(post, scale=0.05, x0=x0.copy(), callback=callback)
    f["NUTS"] = lambda callback=None: S.NUTS(post, max_depth=3, x0=x0.copy(), callback=callback)
    # documented non-default options: a fixed step size / no adaptation (burn-in is then plain burn-in)
    f["NUTS.fixedstep"] = lambda callback=None: S.NUTS(post, max_depth=3, adapt_step_size=0.05, x0=x0.copy(), callback=callback)
    f["NUTS.noadapt"] = lambda callback=None: S.NUTS(post, max_depth=3, adapt_step_size=False, x0=x0.copy(), callback=callback)
    f["MH.vecscale"] = lambda callback=None: S.MH(post, scale=0.2, x0=x0.copy(), callback=callback)
    f["LinearRTO"] = lambda callback=None: S.LinearRTO(post, maxit=50, x0=x0.copy(), callback=callback)
    rpost = regularized_posterior()
    f["RegularizedLinearRTO"] = lambda callback=None: S.RegularizedLinearRTO(rpost, maxit=30, stepsize=0.005, callback=callback)
    lpost = lmrf_posterior()
    f["UGLA"] = lambda callback=None: S.UGLA(lpost, callback=callback)
    return f


def legacy_gibbs_factory():
    import cuqi
    joint = hier_joint()

    def make():
        return cuqi.sampler.Gibbs(joint, {"d": cuqi.sampler.Conjugate, "s": cuqi.sampler.Conjugate,
                                          "x": cuqi.sampler.LinearRTO})
    return make
