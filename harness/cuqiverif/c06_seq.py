"""C06, ONE Linear RTO / UGLA sampler object used in a sequence (helpers of props/c06.py).

Spec: specs/LinGaussSeq.tla (instantiates LinGauss twice).  TLC enumerates PAIRS of configurations with the same number of
unknowns, checks on the abstract sampler object (target installed / target the stacked operator and data were precomputed
from / reinitialised since the last assignment / current state) that every transition made after `target = other posterior;
reinitialize(); set_state(previous state)` - what HybridGibbs does in every sweep - is the exact draw of the posterior
installed NOW, refutes the named deviation ReinitKeepsOperator, and emits both complete cases of every pair.

Replay on ONE real object per pair and interface:
  experimental LinearRTO / UGLA: constructed with a solver setting that does NOT converge (maxit = 1, tol = 0.1), then
      `maxit` / `tol` assigned (public attributes) -> exact draws of posterior 1 from several current states -> target 2
      installed with the HybridGibbs sequence -> exact draws of posterior 2 (affine read-off: offset = mu_post, T T^T =
      Lambda^-1) -> maxit lowered and raised again -> back to posterior 1.
  legacy LinearRTO / UGLA (stateless: every sample() call starts from x0): maxit / tol / x0 (/ beta) reassigned between
      sample() calls on one object; the 5-tuple form: the arrays of the tuple are not modified and the tuple can be used again.
What a sampler does when its target is assigned WITHOUT reinitialising (experimental) or at all (legacy) is documented
nowhere: recorded as an observation (follows the old / the new posterior / neither).
"""
import numpy as np

LOOSE = {"maxit": 1, "tol": 1e-1}


def _c06():
    from cuqiverif.props import c06
    return c06


def _L():
    from cuqiverif import lingauss_common as L
    return L


def _obs(ctx, key, tag):
    d = ctx.observations.setdefault(key, {})
    d[tag] = d.get(tag, 0) + 1


def _pair_sig(kind, iface, what, c1, c2, stage):
    c06 = _c06()
    return "seq/%s/stage=%s/first=%s/second=%s" % (kind, stage, c06._sig(c1, iface, what).split("/", 1)[1], c06._sig(c2, iface, "x").split("/", 3)[3])


# ======================================================================================================================
def start_tlc(ctx):
    import concurrent.futures
    pool = concurrent.futures.ThreadPoolExecutor(max_workers=3)
    kw = dict(workers=4, timeout=1500, extra_modules=["LinGauss.tla"])
    # explicit, distinct work directories: the default name (spec, pid, millisecond) collides for runs started together
    jobs = {"rto": pool.submit(ctx.tlc, "LinGaussSeq", cfg="LinGaussSeq.rto.%s.cfg" % ctx.tier, workdir=_wd("rto"), **kw),
            "ugla": pool.submit(ctx.tlc, "LinGaussSeq", cfg="LinGaussSeq.ugla.%s.cfg" % ctx.tier, workdir=_wd("ugla"), **kw),
            "dev": pool.submit(ctx.tlc, "LinGaussSeq", cfg="LinGaussSeq.dev_ReinitKeepsOperator.cfg", workers=1, timeout=600,
                               extra_modules=["LinGauss.tla"], expect_violation=True, workdir=_wd("dev"))}
    pool.shutdown(wait=False)
    return jobs


def _wd(label):
    import os
    from cuqiverif import tlc
    return os.path.join(tlc.WORK, "LinGaussSeq-c06-%s-%d" % (label, os.getpid()))


def discard_tlc(jobs):
    """wait for the background runs and remove their work directories (used when the check stops early)"""
    from cuqiverif import tlc
    for f in jobs.values():
        try:
            tlc.cleanup(f.result())
        except BaseException:      # noqa: BLE001
            pass
    for label in ("rto", "ugla", "dev"):
        tlc.cleanup(_wd(label))


def collect_tlc(ctx, jobs):
    from cuqiverif import tlc
    from cuqiverif.core import MachineryError
    out, err = {}, None
    for k, f in jobs.items():
        try:
            out[k] = f.result()
        except BaseException as e:      # noqa: BLE001
            err = err or e
    if err is not None:
        for r in out.values():
            tlc.cleanup(r)
        for label in ("rto", "ugla", "dev"):
            tlc.cleanup(_wd(label))
        raise err
    ctx.model_must_hold(out["rto"], "LinGaussSeq.rto")
    ctx.model_must_hold(out["ugla"], "LinGaussSeq.ugla")
    rto = [c for c in out["rto"].cases if c.get("kind") == "rtoseq"]
    ugla = [c for c in out["ugla"].cases if c.get("kind") == "uglaseq"]
    dev = out["dev"]
    for r in out.values():
        tlc.cleanup(r)
    if dev.ok or dev.violated != "SeqDrawIsTargetDraw":
        raise MachineryError("deviation ReinitKeepsOperator: expected TLC to violate SeqDrawIsTargetDraw, got %r (vacuous invariant?)" % dev.violated)
    ctx.observations.setdefault("deviations_refuted_by_tlc", {})["ReinitKeepsOperator"] = "SeqDrawIsTargetDraw"
    if not rto or not ugla:
        raise MachineryError("LinGaussSeq emitted no pairs (rto %d, ugla %d)" % (len(rto), len(ugla)))
    return rto, ugla


# ======================================================================================================================
# experimental interface: one stateful object
# ======================================================================================================================
def _hybrid_gibbs_switch(s, target):
    """what cuqi.experimental.mcmc.HybridGibbs does with a block sampler in every sweep"""
    s.target = target
    st = s.get_state()
    s.reinitialize()
    s.set_state(st)


def _follows(L, off, T, cands):
    """which of the candidate Gaussians (name -> (mu, cov)) an observed affine map draws from"""
    for name, (mu, cov) in cands.items():
        if L.rel_err(off, mu) <= 1e-8 and L.rel_err(T @ T.T, cov, scale=1e-3) <= 1e-8:
            return name
    return "neither"


def _readoff(ctx, case, kind, iface, draw, mu, cov, sig, carry, what):
    """affine read-off of one transition; returns (offset, T) or None"""
    L = _L()
    try:
        off, T, N = L.affine_readoff(draw)
    except L.ScriptError as e:
        ctx.mismatch(sig("draws"), carry, "transition does not consume exactly one standard-normal vector: %s" % e)
        return None
    ctx.case((kind, iface, sig("")), facet="seq/%s/%s" % (kind, iface))
    if L.rel_err(off, mu) > 1e-8:
        ctx.mismatch(sig("offset"), carry, "%s: next state for perturbation 0 is not the mean of the Gaussian the step must draw from" % what,
                     expected=mu, observed=off)
    if L.rel_err(T @ T.T, cov, scale=1e-3) > 1e-8:
        ctx.mismatch(sig("cov"), carry, "%s: linear part T of the step does not reproduce the covariance (T T^T != Lambda^-1)" % what,
                     expected=cov, observed=T @ T.T)
    return off, T


def check_rto_pair(ctx, pair):
    import cuqi
    c06, L = _c06(), _L()
    c1, c2 = pair["first"], pair["second"]
    carry = dict(pair)
    n = c1["n"]
    exp = {1: (L.qnp(c1["mu_q"]), L.qnp(c1["LamInv_q"])), 2: (L.qnp(c2["mu_q"]), L.qnp(c2["LamInv_q"]))}
    try:
        posts = {1: L.build_rto_posterior(c1), 2: L.build_rto_posterior(c2)}
    except Exception as e:      # noqa: BLE001  (each member is built and judged by the main part)
        _obs(ctx, "seq_construction_failed", "rto:%r" % type(e).__name__)
        return
    states = c06._states(n)
    # ---------------- experimental: ONE object through the whole sequence
    iface = "experimental"
    sg = lambda stage: (lambda what: _pair_sig("rto", iface, what, c1, c2, stage))       # noqa: E731
    try:
        s = cuqi.experimental.mcmc.LinearRTO(posts[1], initial_point=np.array(states[1][1], dtype=float), **LOOSE)
        s.initialize()
        s.maxit, s.tol = c06.MAXIT, c06.TOL                 # public attributes, assigned after the sampler exists
        got = _readoff(ctx, c1, "rto", iface, c06._exp_draw(s, states[1][1]), *exp[1], sg("maxit_tol_assigned"), carry,
                       "after maxit / tol were assigned on the initialised sampler")
        # several transitions of the one object from wherever it is (no reset of the state)
        if got is not None:
            off, T = got
            draw = c06._exp_draw(s, states[0][1])
            for q in range(min(3, T.shape[1])):
                nxt = draw([L.Unit(q)], reset=False)
                if L.rel_err(nxt, off + T[:, q]) > c06.RTOL:
                    ctx.mismatch(sg("successive")("state"), carry, "transition %d of successive transitions of one sampler object depends on "
                                 "the states before" % (q + 1), expected=off + T[:, q], observed=nxt)
        # target assigned WITHOUT reinitialising: undocumented, observation only
        s.target = posts[2]
        try:
            o2, T2, _ = L.affine_readoff(c06._exp_draw(s, states[0][1]))
            _obs(ctx, "seq_draw_after_target_assignment_without_reinitialize", "experimental.LinearRTO:" + _follows(L, o2, T2, {"old": exp[1], "new": exp[2]}))
        except Exception as e:      # noqa: BLE001
            _obs(ctx, "seq_draw_after_target_assignment_without_reinitialize", "experimental.LinearRTO:raises")
        # the HybridGibbs sequence: the transitions are draws of the posterior installed NOW, from every current state
        _hybrid_gibbs_switch(s, posts[2])
        for tag, x0 in states:
            _readoff(ctx, c2, "rto", iface, c06._exp_draw(s, x0), *exp[2], sg("switched/" + tag), carry,
                     "after target = second posterior, reinitialize(), set_state()")
        c06._check_stacked_operator(ctx, dict(c2, kind="rto"), "experimental", s)
        # solver setting lowered and raised again between transitions
        s.maxit = 1
        c06._exp_draw(s, states[1][1])([L.Unit(0)])
        s.maxit = c06.MAXIT
        _readoff(ctx, c2, "rto", iface, c06._exp_draw(s, states[1][1]), *exp[2], sg("maxit_raised_again"), carry,
                 "after maxit was lowered to 1 and raised again")
        _hybrid_gibbs_switch(s, posts[1])
        _readoff(ctx, c1, "rto", iface, c06._exp_draw(s, states[0][1]), *exp[1], sg("switched_back"), carry,
                 "after the first posterior was installed again")
    except L.MachineryError:
        raise
    except Exception as e:      # noqa: BLE001
        ctx.mismatch(sg("error")("error"), carry, "sampler refuses / crashes in a documented sequence of operations: %r" % (e,))
    # ---------------- legacy: stateless object, attributes reassigned between sample() calls
    iface = "legacy"
    sg = lambda stage: (lambda what: _pair_sig("rto", iface, what, c1, c2, stage))       # noqa: E731
    try:
        s = cuqi.sampler.LinearRTO(posts[1], x0=np.array(states[0][1], dtype=float), **LOOSE)
        s.maxit, s.tol = c06.MAXIT, c06.TOL
        for tag, x0 in states:        # _legacy_draw assigns x0 before every sample() call on the SAME object
            _readoff(ctx, c1, "rto", iface, c06._legacy_draw(s, x0), *exp[1], sg("maxit_tol_assigned/" + tag), carry,
                     "after maxit / tol / x0 were assigned on the existing sampler")
        try:
            s.target = posts[2]
            o2, T2, _ = L.affine_readoff(c06._legacy_draw(s, states[0][1]))
            _obs(ctx, "seq_draw_after_target_assignment_without_reinitialize", "legacy.LinearRTO:" + _follows(L, o2, T2, {"old": exp[1], "new": exp[2]}))
        except Exception:      # noqa: BLE001
            _obs(ctx, "seq_draw_after_target_assignment_without_reinitialize", "legacy.LinearRTO:raises")
    except L.MachineryError:
        raise
    except Exception as e:      # noqa: BLE001
        ctx.mismatch(sg("error")("error"), carry, "sampler refuses / crashes in a documented sequence of operations: %r" % (e,))
    # ---------------- legacy 5-tuple: the tuple is an INPUT (not modified) and can be used again
    for which, c in ((1, c1), (2, c2)):
        pr = c["prior"]
        if c["nl"] != 1 or pr["kind"] in ("gmrf", "joint"):
            continue
        iface = "legacy5"
        sg = lambda stage: (lambda what: _pair_sig("rto", iface, what, c1, c2, stage + "/member=%d" % which))       # noqa: E731
        A = L.inp(c["A"][0])
        mdl = A if c["mdl"] == "matrix" else L.linear_model(A, "func")
        tup = (L.inp(c["y"][0]), mdl, L.inp(c["Ln"][0]), L.inp(pr["blocks"][0]["mu"]), L.inp(pr["blocks"][0]["L"]))
        before = [np.array(t, copy=True) if isinstance(t, np.ndarray) else None for t in tup]
        try:
            for use in (1, 2):
                s = cuqi.sampler.LinearRTO(tup, x0=np.array(states[0][1], dtype=float), **LOOSE)
                s.maxit, s.tol = c06.MAXIT, c06.TOL
                _readoff(ctx, c, "rto", iface, c06._legacy_draw(s, states[use - 1][1]), *exp[which], sg("tuple_use_%d" % use), carry,
                         "5-tuple used for the %s time" % ("first" if use == 1 else "second"))
                for t, b in zip(tup, before):
                    if b is not None and not np.array_equal(t, b):
                        ctx.mismatch(sg("tuple_mutated")("input"), carry, "constructing / sampling modified an array of the 5-tuple handed in",
                                     expected=b, observed=t)
        except L.MachineryError:
            raise
        except Exception as e:      # noqa: BLE001
            ctx.mismatch(sg("error")("error"), carry, "sampler refuses / crashes when the 5-tuple is used again: %r" % (e,))
    ctx.traces += 1


# ======================================================================================================================
def _ugla_post(case):
    import cuqi
    L = _L()
    n = case["n"]
    scale = float(L.qval(case["scale_q"]))
    loc = {"zero": 0.0, "scalar": float(case["loc"][0]), "vec": L.inp(case["loc"])}[case["lk"]]
    x = cuqi.distribution.LMRF(loc, scale, bc_type="zero", geometry=n, name="x")
    model = L.linear_model(case["A"], "matrix" if (case["u"] + case["si"]) % 2 else "func")
    y = cuqi.distribution.Gaussian(model(x), name="y", **L.gauss_kwargs(case["noise"]))
    return cuqi.distribution.JointDistribution(x, y)(y=L.inp(case["y"]))


def check_ugla_pair(ctx, pair):
    import cuqi
    c06, L = _c06(), _L()
    c1, c2 = pair["first"], pair["second"]
    carry = dict(pair)
    n = c1["n"]
    exp = {1: (L.qnp(c1["mu_q"]), L.qnp(c1["LamInv_q"])), 2: (L.qnp(c2["mu_q"]), L.qnp(c2["LamInv_q"]))}
    xk = {1: L.inp(c1["xk"]), 2: L.inp(c2["xk"])}
    beta = {1: float(L.qval(c1["beta_q"])), 2: float(L.qval(c2["beta_q"]))}
    try:
        posts = {1: _ugla_post(c1), 2: _ugla_post(c2)}
    except Exception as e:      # noqa: BLE001
        _obs(ctx, "seq_construction_failed", "ugla:%r" % type(e).__name__)
        return
    x_init = xk[1] + np.arange(1.0, n + 1.0)
    iface = "experimental"
    sg = lambda stage: (lambda what: _pair_sig("ugla", iface, what, c1, c2, stage))       # noqa: E731
    try:
        s = cuqi.experimental.mcmc.UGLA(posts[1], initial_point=x_init, beta=beta[1], **LOOSE)
        s.initialize()
        s.maxit, s.tol = c06.MAXIT, c06.TOL
        _readoff(ctx, c1, "ugla", iface, c06._exp_draw(s, xk[1]), *exp[1], sg("maxit_tol_assigned"), carry,
                 "after maxit / tol were assigned on the initialised sampler")
        # round 11: `beta` (documented parameter, plain public attribute) assigned on the INITIALISED sampler: the step is the exact
        # draw of the documented local Gaussian for the beta the sampler REPORTS (as the legacy stage below asserts for the legacy class)
        sb = cuqi.experimental.mcmc.UGLA(posts[1], initial_point=x_init, beta=beta[2] if beta[2] != beta[1] else 2 * beta[1], **LOOSE)
        sb.initialize()
        sb.maxit, sb.tol = c06.MAXIT, c06.TOL
        sb.beta = beta[1]
        if sb.beta == beta[1]:
            _readoff(ctx, c1, "ugla", iface, c06._exp_draw(sb, xk[1]), *exp[1], sg("beta_assigned"), carry,
                     "after beta was assigned on the initialised sampler (constructed and initialised with another beta)")
        s.target = posts[2]
        s.beta = beta[2]
        try:
            o2, T2, _ = L.affine_readoff(c06._exp_draw(s, xk[2]))
            _obs(ctx, "seq_draw_after_target_assignment_without_reinitialize", "experimental.UGLA:" + _follows(L, o2, T2, {"new": exp[2]}))
        except Exception:      # noqa: BLE001
            _obs(ctx, "seq_draw_after_target_assignment_without_reinitialize", "experimental.UGLA:raises")
        _hybrid_gibbs_switch(s, posts[2])
        _readoff(ctx, c2, "ugla", iface, c06._exp_draw(s, xk[2]), *exp[2], sg("switched"), carry,
                 "after target = second posterior (and beta), reinitialize(), set_state()")
        s.beta = beta[1]
        _hybrid_gibbs_switch(s, posts[1])
        _readoff(ctx, c1, "ugla", iface, c06._exp_draw(s, xk[1]), *exp[1], sg("switched_back"), carry,
                 "after the first posterior (and beta) was installed again")
    except L.MachineryError:
        raise
    except Exception as e:      # noqa: BLE001
        ctx.mismatch(sg("error")("error"), carry, "UGLA refuses / crashes in a documented sequence of operations: %r" % (e,))
    iface = "legacy"
    sg = lambda stage: (lambda what: _pair_sig("ugla", iface, what, c1, c2, stage))       # noqa: E731
    try:
        s = cuqi.sampler.UGLA(posts[1], x0=x_init.copy(), beta=beta[2] if beta[2] != beta[1] else 2 * beta[1], **LOOSE)
        s.maxit, s.tol, s.beta = c06.MAXIT, c06.TOL, beta[1]
        _readoff(ctx, c1, "ugla", iface, c06._legacy_draw(s, xk[1]), *exp[1], sg("maxit_tol_beta_assigned"), carry,
                 "after maxit / tol / beta / x0 were assigned on the existing sampler")
        _readoff(ctx, c1, "ugla", iface, c06._legacy_draw(s, xk[1]), *exp[1], sg("second_call"), carry, "second sample() call on the same object")
        try:
            s.target = posts[2]
            s.beta = beta[2]
            o2, T2, _ = L.affine_readoff(c06._legacy_draw(s, xk[2]))
            _obs(ctx, "seq_draw_after_target_assignment_without_reinitialize", "legacy.UGLA:" + _follows(L, o2, T2, {"new": exp[2]}))
        except Exception:      # noqa: BLE001
            _obs(ctx, "seq_draw_after_target_assignment_without_reinitialize", "legacy.UGLA:raises")
    except L.MachineryError:
        raise
    except Exception as e:      # noqa: BLE001
        ctx.mismatch(sg("error")("error"), carry, "UGLA refuses / crashes in a documented sequence of operations: %r" % (e,))
    ctx.traces += 1


# ======================================================================================================================
def run(ctx, jobs):
    from cuqiverif.core import MachineryError
    rto, ugla = collect_tlc(ctx, jobs)
    for pr in sorted(rto, key=lambda q: (_c06()._sig(q["first"], "", ""), _c06()._sig(q["second"], "", ""))):
        check_rto_pair(ctx, pr)
    # UGLA: the point where the weights are evaluated (variant wv) is the one the main part observed
    seen = ctx.observations.get("ugla_weights_evaluated_at", {})
    wv = 0 if list(seen) == ["x_k"] else 1 if list(seen) == ["x_k - location"] else None
    done = 0
    for pr in sorted(ugla, key=lambda q: (_c06()._sig(q["first"], "", ""), _c06()._sig(q["second"], "", ""), q["first"]["wv"], q["second"]["wv"])):
        if wv is None or any(c["lk"] != "zero" and c["wv"] != wv for c in (pr["first"], pr["second"])):
            continue
        check_ugla_pair(ctx, pr)
        done += 1
    ctx.observations["seq_pairs"] = {"rto": len(rto), "ugla_emitted": len(ugla), "ugla_replayed": done}
    if done == 0 and not ctx.violations:
        raise MachineryError("no UGLA pair of the weight variant the implementation follows (%r): sequence facet vacuous" % (seen,))
    if rto:
        pr = rto[0]
        ctx.sample({"kind": "rtoseq", "first": {k: pr["first"][k] for k in ("n", "nl", "m", "mu_q", "LamInv_q")},
                    "second": {k: pr["second"][k] for k in ("n", "nl", "m", "mu_q", "LamInv_q")}})


def replay(ctx, case):
    if case["kind"] == "rtoseq":
        return check_rto_pair(ctx, case)
    return check_ugla_pair(ctx, case)
