"""Realisation of the abstract models / geometries of specs/ModelGeom.tla as real cuqi objects (used by c07.py, c12.py).

The numbers (core operators, geometry matrices, inputs, expected outputs) all come from the TLC cases; this module only
turns them into cuqi.geometry / cuqi.model objects.  Function values are C-order vectors in the spec; `to_fun` /
`from_fun` convert between that vector and the shape the real geometry uses (images for Image2D / Continuous2D).
"""
import functools
import warnings
from fractions import Fraction

import numpy as np

from .tlc import MachineryError


# ----------------------------------------------------------------------------------------------------------------------
# construction of a model is a step of its own (round 9, specs/ModelGeomConstruct.tla): every configuration the replay builds
# is WELL-FORMED by the specification, so a constructor of the library that refuses it is a violation of the property
# ("every linear model the library constructs or accepts", "for every domain and range geometry the model is given"),
# not a failure of the machinery.
# ----------------------------------------------------------------------------------------------------------------------
class ConstructionRefused(Exception):
    """The library refused to construct a model / test problem that the specification calls well-formed."""

    def __init__(self, key, err):
        super().__init__("%s: %r" % (key, err))
        self.key, self.err = key, err


def construct(key, f):
    """Run the ONE library constructor call `f`; a library exception becomes ConstructionRefused(key, exception)."""
    try:
        with warnings.catch_warnings():
            warnings.simplefilter("ignore")
            return f()
    except MachineryError:
        raise
    except Exception as e:  # noqa: BLE001 - any refusal of the real constructor is data
        raise ConstructionRefused(key, e) from e


def report_refusal(ctx, case, prefix, r):
    ctx.mismatch("%s/%s/construction_refused" % (prefix, r.key), case,
                 "the library refused to construct a model the specification calls well-formed (matrix / function pair acting on the FUNCTION "
                 "values of the given geometries; invariant WellFormedAccepted of ModelGeomConstruct.tla)", "accepted", repr(r.err))


def refusal_is_violation(prefix):
    """Decorator for per-case replay functions f(ctx, case, ...): a ConstructionRefused raised anywhere inside is reported as the
    mismatch <prefix>/<key>/construction_refused (exit 1) and the case ends."""
    def deco(f):
        @functools.wraps(f)
        def g(ctx, case, *a, **k):
            try:
                return f(ctx, case, *a, **k)
            except ConstructionRefused as r:
                report_refusal(ctx, case, prefix, r)
                return None
        return g
    return deco


def mkey(mk, dom, rng):
    return "mk=%s/dom=%s/rng=%s" % (mk, gkey(dom.g), gkey(rng.g))


# ----------------------------------------------------------------------------------------------------------------------
# TLC values -> numpy
# ----------------------------------------------------------------------------------------------------------------------
def rat(v):
    """<<n, d>> -> float (exact Fraction first)."""
    return float(Fraction(int(v[0]), int(v[1])))


def rvec(v):
    return np.array([rat(e) for e in v], dtype=float)


def rmat(M, ncols=None):
    if len(M) == 0:
        return np.zeros((0, ncols or 0))
    return np.array([[rat(e) for e in row] for row in M], dtype=float)


def ivec(v):
    return np.array(v, dtype=float)


def imat(M):
    return np.array(M, dtype=float)


def close(a, b, tol=1e-10):
    a = np.asarray(a, dtype=float)
    b = np.asarray(b, dtype=float)
    return a.shape == b.shape and bool(np.allclose(a, b, rtol=tol, atol=tol))


def gkey(g):
    k = g["kind"]
    if k == "step":
        return "step_%s_k%d" % (g["proj"], g["k"])
    return k


# ----------------------------------------------------------------------------------------------------------------------
# the polynomial map of the spec (Tri / TriInv / JGT) - literal transcription, checked against the emitted `fs`
# ----------------------------------------------------------------------------------------------------------------------
def tri(p):
    p = np.asarray(p, dtype=float)
    f = p.copy()
    f[0] = p[0] + 1
    f[1:] = p[1:] + p[0] ** 2
    return f


def tri_inv(f):
    f = np.asarray(f, dtype=float)
    p = f.copy()
    p[0] = f[0] - 1
    p[1:] = f[1:] - (f[0] - 1) ** 2
    return p


def tri_jt(p, d):
    d = np.asarray(d, dtype=float)
    out = d.copy()
    out[0] = d[0] + 2 * p[0] * d[1:].sum()
    return out


# ----------------------------------------------------------------------------------------------------------------------
# user geometries
# ----------------------------------------------------------------------------------------------------------------------
def _user_classes():
    import cuqi

    class LinExpGeometry(cuqi.geometry.Geometry):
        """User geometry: linear expansion par2fun = G p, fun2par = Gp f (abstract KL-like expansion of the spec)."""

        def __init__(self, G, Gp):
            self.G = np.asarray(G, dtype=float)
            self.Gp = np.asarray(Gp, dtype=float)

        @property
        def par_shape(self):
            return (self.G.shape[1],)

        @property
        def fun_shape(self):
            return (self.G.shape[0],)

        def par2fun(self, p):
            return self.G @ np.asarray(p)

        def fun2par(self, f):
            return self.Gp @ np.asarray(f)

        def _plot(self, *a, **k):
            raise NotImplementedError

    class LinGradGeometry(LinExpGeometry):
        """User geometry that also provides `gradient` (transposed Jacobian of par2fun applied to the direction)."""

        def gradient(self, direction, wrt):
            return self.G.T @ np.asarray(direction)

    class TriGradGeometry(cuqi.geometry.Geometry):
        """User geometry with the polynomial par2fun of the spec and its `gradient`."""

        def __init__(self, n):
            self.n = n

        @property
        def par_shape(self):
            return (self.n,)

        @property
        def fun_shape(self):
            return (self.n,)

        def par2fun(self, p):
            return tri(np.asarray(p))

        def fun2par(self, f):
            return tri_inv(np.asarray(f))

        def gradient(self, direction, wrt):
            return tri_jt(np.asarray(wrt, dtype=float), np.asarray(direction, dtype=float))

        def _plot(self, *a, **k):
            raise NotImplementedError

    class TriGradNoInvGeometry(TriGradGeometry):
        """Same, but fun2par is not implemented (function values cannot be turned into parameters)."""

        def fun2par(self, f):
            raise NotImplementedError("fun2par is not implemented for this user geometry")

    return LinExpGeometry, LinGradGeometry, TriGradGeometry, TriGradNoInvGeometry


class RealGeom:
    """A realised geometry: the cuqi object (or an int for the default geometry), the shape of its function values."""

    def __init__(self, g, obj, fun_shape, G=None, Gp=None, numeric=False):
        self.g = g
        self.obj = obj                # what is handed to the model constructor
        self.fun_shape = fun_shape
        self.G = G                    # numeric matrices of par2fun / fun2par when linear
        self.Gp = Gp
        self.numeric = numeric        # True: matrices read off the real geometry (KLExpansion), not from the spec

    def geometry(self, model_geometry=None):
        return model_geometry if isinstance(self.obj, int) else self.obj

    def to_fun(self, fvec):
        """C-order function vector -> the array the geometry / core callables work with."""
        return np.asarray(fvec, dtype=float).reshape(self.fun_shape)

    @staticmethod
    def from_fun(f):
        return np.asarray(f, dtype=float).ravel()


def build_geometry(g, G=None, Gp=None, variant=None):
    """g: geometry record of the spec; G, Gp: numeric par2fun / fun2par matrices emitted by TLC (None if non-linear).
    variant='kl': realise the abstract expansion by the real cuqi.geometry.KLExpansion (matrices read off the object)."""
    import cuqi
    LinExp, LinGrad, TriGrad, TriGradNoInv = _user_classes()
    kind, n, k = g["kind"], g["n"], g["k"]
    shape2 = (g["r"], g["q"])
    if kind == "cont1d":
        return RealGeom(g, cuqi.geometry.Continuous1D(n), (n,), G, Gp)
    if kind == "default1d":
        return RealGeom(g, n, (n,), G, Gp)
    if kind == "discrete":
        return RealGeom(g, cuqi.geometry.Discrete(n), (n,), G, Gp)
    if kind == "imgC":
        return RealGeom(g, cuqi.geometry.Image2D(shape2, order="C"), shape2, G, Gp)
    if kind == "imgF":
        return RealGeom(g, cuqi.geometry.Image2D(shape2, order="F"), shape2, G, Gp)
    if kind == "visual":
        return RealGeom(g, cuqi.geometry.Image2D(shape2, visual_only=True), (n,), G, Gp)
    if kind == "cont2d":
        return RealGeom(g, cuqi.geometry.Continuous2D(shape2), shape2, G, Gp)
    if kind == "step":
        geom = cuqi.geometry.StepExpansion(np.arange(n, dtype=float), n_steps=k, fun2par_projection=g["proj"])
        # the node -> step assignment assumed by the spec must be the one of this grid (C13 decides the geometry itself)
        got = np.asarray(geom.par2fun(np.arange(1, k + 1, dtype=float)))
        if not np.array_equal(got, np.array(g["asg"], dtype=float)):
            raise MachineryError("StepExpansion realisation does not have the node->step assignment of the spec: %r vs %r"
                                 % (got.tolist(), g["asg"]))
        return RealGeom(g, geom, (n,), G, Gp)
    if kind == "mapped":
        M, Mi = np.array(G), np.array(Gp)
        geom = cuqi.geometry.MappedGeometry(cuqi.geometry.Continuous1D(n), map=lambda f: M @ f, imap=lambda f: Mi @ f)
        return RealGeom(g, geom, (n,), G, Gp)
    if kind == "linexp":
        if variant == "kl":
            geom = cuqi.geometry.KLExpansion(np.linspace(0, 1, n), decay_rate=1.5, normalizer=2.0, num_modes=k)
            with warnings.catch_warnings():
                warnings.simplefilter("ignore")
                Gn = np.column_stack([np.asarray(geom.par2fun(e)) for e in np.eye(k)])
                Gpn = np.column_stack([np.asarray(geom.fun2par(e)) for e in np.eye(n)])
            return RealGeom(dict(g, kind="kl"), geom, (n,), Gn, Gpn, numeric=True)
        return RealGeom(g, LinExp(G, Gp), (n,), G, Gp)
    if kind == "ugradlin":
        return RealGeom(g, LinGrad(G, Gp), (n,), G, Gp)
    if kind == "ugradtri":
        return RealGeom(g, TriGrad(n), (n,))
    if kind == "ugradnoinv":
        return RealGeom(g, TriGradNoInv(n), (n,))
    if kind == "mappednl":
        return RealGeom(g, cuqi.geometry.MappedGeometry(cuqi.geometry.Continuous1D(n), map=tri, imap=tri_inv), (n,))
    if kind == "noinv":
        return RealGeom(g, cuqi.geometry.MappedGeometry(cuqi.geometry.Continuous1D(n), map=tri), (n,))
    raise MachineryError("unknown geometry kind %r" % kind)


# ----------------------------------------------------------------------------------------------------------------------
# models
# ----------------------------------------------------------------------------------------------------------------------
def build_linear_model(mk, F, dom, rng):
    """mk in dense / sparse / func; F: core operator on C-order function vectors."""
    import cuqi
    import scipy.sparse as sp
    F = np.asarray(F, dtype=float)
    key = mkey(mk, dom, rng)
    if mk == "dense":
        M = F.copy()
        return construct(key, lambda: cuqi.model.LinearModel(M, range_geometry=rng.obj, domain_geometry=dom.obj))
    if mk == "sparse":
        M = sp.csc_matrix(F)
        return construct(key, lambda: cuqi.model.LinearModel(M, range_geometry=rng.obj, domain_geometry=dom.obj))
    if mk == "func":
        def fwd(X):
            return (F @ np.asarray(X).ravel()).reshape(rng.fun_shape)

        def adj(Y):
            return (F.T @ np.asarray(Y).ravel()).reshape(dom.fun_shape)

        return construct(key, lambda: cuqi.model.LinearModel(fwd, adj, range_geometry=rng.obj, domain_geometry=dom.obj))
    raise MachineryError("unknown linear model kind %r" % mk)


def _pde_classes():
    import cuqi

    class _UnipotentBase(cuqi.pde.SteadyStateLinearPDE):
        POS = [(0, 1), (0, 2), (0, 3), (1, 2), (1, 3), (2, 3)]

        def __init__(self, b):
            self._b = np.asarray(b, dtype=float)
            super().__init__(self._form)

        def _A(self, u):
            A = np.eye(4)
            for p, (i, j) in enumerate(self.POS):
                A[i, j] = u[p]
            return A

        def _form(self, u):
            return self._A(np.asarray(u, dtype=float)), self._b

        def _jac(self, u):
            A = self._A(np.asarray(u, dtype=float))
            s = np.linalg.solve(A, self._b)
            J = np.zeros((4, 6))
            for p, (i, j) in enumerate(self.POS):
                e = np.zeros(4)
                e[i] = s[j]
                J[:, p] = -np.linalg.solve(A, e)
            return J

    class PdeWithGradient(_UnipotentBase):
        def gradient_wrt_parameter(self, direction, wrt):
            return np.asarray(direction) @ self._jac(wrt)

    class PdeWithJacobian(_UnipotentBase):
        def jacobian_wrt_parameter(self, wrt):
            return self._jac(wrt)

    return PdeWithGradient, PdeWithJacobian


def build_general_model(case, dom, rng):
    """C12 model kinds.  Returns the cuqi model."""
    import cuqi
    import scipy.sparse as sp
    mk = case["mk"]
    A = imat(case["A"])
    B = imat(case["B"]) if len(case["B"]) else np.zeros_like(A)

    def fv(u):
        u = np.asarray(u, dtype=float).ravel()
        return (A @ u + B @ (u * u)).reshape(rng.fun_shape)

    def jac(u):
        u = np.asarray(u, dtype=float).ravel()
        return A + 2 * B * u[None, :]

    key = mkey(mk, dom, rng)
    if mk == "gen_nograd":
        return construct(key, lambda: cuqi.model.Model(lambda x: fv(x), rng.obj, dom.obj))
    if mk == "gen_jac":
        return construct(key, lambda: cuqi.model.Model(lambda x: fv(x), rng.obj, dom.obj, jacobian=lambda x: jac(x)))
    if mk == "gen_grad":
        def grad(direction, wrt):
            return (np.asarray(direction, dtype=float).ravel() @ jac(wrt)).reshape(dom.fun_shape)
        return construct(key, lambda: cuqi.model.Model(lambda x: fv(x), rng.obj, dom.obj, gradient=grad))
    if mk == "lin_dense":
        M = A.copy()
        return construct(key, lambda: cuqi.model.LinearModel(M, range_geometry=rng.obj, domain_geometry=dom.obj))
    if mk == "lin_sparse":
        M = sp.csc_matrix(A)
        return construct(key, lambda: cuqi.model.LinearModel(M, range_geometry=rng.obj, domain_geometry=dom.obj))
    if mk == "lin_func":
        return construct(key, lambda: cuqi.model.LinearModel(lambda x: (A @ np.asarray(x).ravel()).reshape(rng.fun_shape),
                                                             lambda y: (A.T @ np.asarray(y).ravel()).reshape(dom.fun_shape),
                                                             range_geometry=rng.obj, domain_geometry=dom.obj))
    if mk in ("pde_grad", "pde_jac"):
        WithG, WithJ = _pde_classes()
        pde = (WithG if mk == "pde_grad" else WithJ)(ivec(case["pde_b"]))
        return construct(key, lambda: cuqi.model.PDEModel(pde, rng.obj, dom.obj))
    raise MachineryError("unknown model kind %r" % mk)
