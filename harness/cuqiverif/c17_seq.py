"""C17, facet seq: sequences of public operations on ONE test-problem object (specs/TestProblemsSeq.tla).

Every maximal behaviour emitted by TLC (option combination x route x sequence of Fetch / SetData / SetPrior / Refused) is
replayed into ONE real object.  The expected state after every action comes from the spec (current data version, current
prior version, what must be the same object, standardised residual vectors and prior quadratic forms per version); the
numbers of the versions come from the spec where it knows them exactly and otherwise from an UNTOUCHED TWIN of the problem
(built from the same arguments under the same scripted draws, never reassigned).

Routes (how the data are replaced):
  newlik   problem.likelihood = <data distribution>.to_likelihood(CUQIarray(d, geometry=range geometry))
  likdata  problem.likelihood.data = d                       (plain ndarray, in place)
  setdata  BayesianProblem(<data distribution>, <prior>).set_data(y=d)   (generic problem from the twin's densities)
Refused forms: problem.set_data(y=d) on a problem whose data are set (newlik, setdata), problem.data = d (likdata).
An assignment that raises is recorded as an observation (and the rest of the behaviour is not replayed when the spec
expected it to be accepted); a wrong VALUE handed out afterwards is a violation (signature seq/...).
"""
import math
import numpy as np

from cuqiverif.props.c17 import (build_problem, _quiet, _q, _qv, _pkey, _argkey, _dense, _is_default_geom, _resolve, LOG2PI)

SEQ_DEVIATIONS = [("TestProblemsSeq.dev_StaleCacheAfterSetData.cfg", "SeqSameData"),
                  ("TestProblemsSeq.dev_StaleCacheAfterSetPrior.cfg", "SeqSamePrior")]
EXTRA = ("TestProblems.tla", "Conv.tla")
RTOL = 1e-9          # log-densities (as in check_problem)
VTOL = 1e-12         # values that were handed in / built twice by the same deterministic code


def ops_key(c):
    return ".".join(o["a"] + (str(o["v"]) if o["a"] != "F" else "") for o in c["ops"])


def seq_key(c):
    return "%s/route=%s/ops=%s" % (_pkey(c), c["route"], ops_key(c))


def slim_case(c, cfg):
    d = {k: c[k] for k in ("kind", "problem", "n", "m", "bc", "orient", "noise", "zpat", "wform", "args", "route", "ops", "steps")}
    d["cfg"] = cfg
    return d


def _vals(o):
    return np.asarray(o, dtype=float).ravel()


def _close(a, b, tol=VTOL):
    a, b = _vals(a), _vals(b)
    return a.shape == b.shape and np.allclose(a, b, rtol=tol, atol=tol)


def _same_geom(a, b):
    """same geometry: identical object, or same class / parameter and function shapes / grid.  The library's == is not used:
    it also compares the internal variable name a geometry picks up when a named distribution on it is evaluated (here the
    twin's geometry is shared with the second prior), and it is not symmetric"""
    if a is b:
        return True
    if a is None or b is None or type(a) is not type(b):
        return False
    try:
        if tuple(a.par_shape) != tuple(b.par_shape) or tuple(a.fun_shape) != tuple(b.fun_shape):
            return False
        if getattr(a, "order", None) != getattr(b, "order", None):
            return False
        ga, gb = getattr(a, "grid", None), getattr(b, "grid", None)
        if ga is None and gb is None:
            return True
        if ga is None or gb is None:
            return False
        if isinstance(ga, tuple) or isinstance(gb, tuple):
            return len(ga) == len(gb) and all(np.array_equal(np.asarray(u), np.asarray(w)) for u, w in zip(ga, gb))
        return np.array_equal(np.asarray(ga), np.asarray(gb))
    except Exception:       # noqa: BLE001
        return False


def _geoms_compatible(gs):
    """library convention: a default geometry is compatible with anything of the same size; others must be the same"""
    real = [g for g in gs if g is not None and not _is_default_geom(g)]
    ok = all(_same_geom(real[0], g) for g in real[1:]) if real else True
    dims = {g.par_dim for g in gs if g is not None}
    return ok and len(dims) <= 1


def _noise_svec(c, st, yex):
    """standard deviations of the stated noise (as in check_problem): constant / level * |exactData| / the one scalar sigma
    of the SNR option read from the arguments of the scripted draw"""
    sc = c["scale"]
    v = _q(sc["v"])
    if c["problem"] == "WangCubic":
        return np.array([v])
    if sc["kind"] == "const":
        return np.full(len(yex), v)
    if sc["kind"] == "absdata":
        return v * np.abs(yex)
    normals = [l for l in st.log if l[1] == "normal"]
    if not normals:
        return None
    args = normals[0][3] or {}
    s = args.get("scale", np.nan)
    if np.size(s) != 1:
        return None
    return np.full(len(yex), float(np.asarray(s).ravel()[0]))


class _Abort(Exception):
    pass


def check_seq(ctx, c, cfg, legacy_match, stats):
    """replay one behaviour; returns True when it was replayed (False: legacy orientation variant that does not apply)"""
    import cuqi
    from cuqiverif.script_rng import ScriptError
    p, route = c["problem"], c["route"]
    key = seq_key(c)
    case = slim_case(c, cfg)
    wang = p == "WangCubic"
    sig = lambda what, k: "seq/%s/%s/step=%d" % (what, key, k)
    # ---- the untouched twin (expected values, densities handed to the object) and the object under test
    try:
        ref, st_ref, _ = build_problem(c)
        tp = None if route == "setdata" else build_problem(c)[0]
    except ScriptError:
        raise
    except Exception as e:      # noqa: BLE001
        ctx.mismatch("seq/construct/" + _pkey(c), case, "test problem cannot be constructed for a documented option combination: %r" % (e,))
        return True
    conforms = True
    if c["numeric"]:
        with _quiet():
            A_obs = _dense(ref.model.get_matrix())
        A_spec = np.array(c["A"], dtype=float)
        conforms = A_obs.shape == A_spec.shape and np.allclose(A_obs, A_spec, atol=1e-9)
        # (a non-conforming operator - e.g. the transposed legacy matrix, finding C17-F3 - is reported by the construction
        #  facet; here the numbers of the untouched twin are used then, nothing cascades)
    known = (wang or (c["dknown"] and conforms))
    # ---- the two versions of the data and of the prior
    yex = None if wang else _vals(ref.exactData).copy()
    xex = None if wang else _vals(ref.exactSolution).copy()
    svec = _noise_svec(c, st_ref, yex)
    if svec is None or not np.all(svec > 0):
        ctx.observations.setdefault("seq_not_replayed_noise_scale_unknown", {})[_pkey(c)] = True
        return True
    d1 = _vals(ref.data).copy()
    spec_res = {1: None, 2: None}
    if wang:
        d2 = np.array([_q(c["dtab"][1]["vals"][0])])
    elif known:
        d2 = _qv(c["dtab"][1]["vals"])
    else:
        d2 = yex + svec * np.array(c["dtab"][1]["Z"], dtype=float)
    if known:
        spec_d1 = np.array([_q(c["dtab"][0]["vals"][0])]) if wang else _qv(c["dtab"][0]["vals"])
        if _close(d1, spec_d1, 1e-10):       # (otherwise the construction facet reports it; nothing cascades here)
            spec_res[1] = [_qv(r) for r in c["dtab"][0]["res"]]
        spec_res[2] = [_qv(r) for r in c["dtab"][1]["res"]]
    dvals = {1: d1, 2: d2}
    pm = {v: np.array(c["ptab"][v - 1]["mean"], dtype=float) for v in (1, 2)}
    pv = {v: _q(c["ptab"][v - 1]["var"]) for v in (1, 2)}
    pq_spec = {v: [_q(q) for q in c["ptab"][v - 1]["priorq"]] for v in (1, 2)}
    if p in ("Heat1D", "Poisson1D", "Abel1D"):      # (positive points: Poisson1D takes a conductivity)
        n = c["domdim"]
        pts = [(np.ones(n), None), (np.arange(1.0, n + 1), None), (1.0 + (np.arange(n) % 2), None)]
    else:
        pts = [(np.array(x, dtype=float), i) for i, x in enumerate(c["pts"])]
    if stats.get("few_points"):
        pts = pts[1:3]
    with _quiet():
        ddist = ref.likelihood.distribution
        dname = ref.likelihood.name
        prior_objs = {1: ref.prior,
                      2: cuqi.distribution.Gaussian(pm[2].copy(), pv[2], geometry=ref.model.domain_geometry, name=ref.prior.name)}
        mu_ref = [_vals(ref.model.forward(x0)) for x0, _ in pts]
    given = []                # (array handed in, pristine copy)

    def make_data(v, plain):
        a = dvals[v].copy()
        if not plain:
            a = cuqi.array.CUQIarray(a, geometry=ref.model.range_geometry)
        given.append((a, dvals[v].copy()))
        return a

    if route == "setdata":
        with _quiet():
            obj = cuqi.problem.BayesianProblem(ddist, ref.prior)
    else:
        obj = tp
    # ---- replay
    override_d = None         # version of an assignment the spec models as refused but the library accepted
    model_by_identity = ref.model if route == "setdata" else None
    last = None               # (posterior, expected data version) of the previous Fetch
    completed = True
    for k, (op, rec) in enumerate(zip(c["ops"], c["steps"]), 1):
        a, v = op["a"], op["v"]
        try:
            if a == "D":
                stats["D"] = stats.get("D", 0) + 1
                try:
                    with _quiet():
                        if route == "newlik":
                            obj.likelihood = ddist.to_likelihood(make_data(v, plain=False))
                            model_by_identity = ref.model
                        elif route == "likdata":
                            obj.likelihood.data = make_data(v, plain=True)
                        else:
                            obj.set_data(**{dname: make_data(v, plain=True)})
                except ScriptError:
                    raise
                except Exception as e:      # noqa: BLE001  (a refused assignment is acceptable: observation, stop here)
                    ctx.observations.setdefault("seq_assignment_refused", {})["%s/D/%s" % (route, p)] = type(e).__name__
                    raise _Abort()
                override_d = None
                stats["D_ok"] = stats.get("D_ok", 0) + 1
            elif a == "P":
                stats["P"] = stats.get("P", 0) + 1
                try:
                    with _quiet():
                        obj.prior = prior_objs[v]
                except ScriptError:
                    raise
                except Exception as e:      # noqa: BLE001
                    ctx.observations.setdefault("seq_assignment_refused", {})["%s/P/%s" % (route, p)] = type(e).__name__
                    raise _Abort()
                stats["P_ok"] = stats.get("P_ok", 0) + 1
            elif a == "X":
                stats["X"] = stats.get("X", 0) + 1
                form = "data_attribute" if route == "likdata" else "set_data"
                try:
                    with _quiet():
                        if route == "likdata":
                            obj.data = make_data(v, plain=True)
                        else:
                            obj.set_data(**{dname: make_data(v, plain=True)})
                    # accepted: then it must have taken effect (recorded; the spec's tables of that version apply)
                    override_d = v
                    ctx.observations.setdefault("seq_assignment_accepted_that_the_spec_models_as_refused", {})["%s/%s" % (form, p)] = True
                except ScriptError:
                    raise
                except Exception as e:      # noqa: BLE001
                    stats["X_refused"] = stats.get("X_refused", 0) + 1
                    ctx.observations.setdefault("seq_assignment_refused", {})["%s/%s" % (form, p)] = type(e).__name__
            else:
                exp_d = override_d if override_d is not None else rec["dver"]
                exp_p = rec["pver"]
                stats["F"] = stats.get("F", 0) + 1
                post = _fetch_and_check(ctx, c, obj, ref, route, k, sig, case, key, exp_d, exp_p, dvals, svec, pm, pv, pq_spec,
                                        spec_res, pts, mu_ref, xex, yex, model_by_identity, given)
                if last is not None and last[1] != exp_d and post is not None:
                    # documentation is silent on objects handed out BEFORE a reassignment: observation only
                    try:
                        follows = _close(last[0].data, dvals[exp_d])
                    except Exception:       # noqa: BLE001
                        follows = None
                    ctx.observations.setdefault("seq_posterior_fetched_before_set_data_follows_new_data", {})[route] = follows
                last = (post, exp_d)
        except _Abort:
            completed = False
            stats["aborted"] = stats.get("aborted", 0) + 1
            break
    if completed:
        stats.setdefault("routes", {})[route] = stats.setdefault("routes", {}).get(route, 0) + 1
        stats.setdefault("problems", {})[p] = stats.setdefault("problems", {}).get(p, 0) + 1
    return True


def _fetch_and_check(ctx, c, obj, ref, route, k, sig, case, key, exp_d, exp_p, dvals, svec, pm, pv, pq_spec, spec_res, pts,
                     mu_ref, xex, yex, model_by_identity, given):
    """the action Fetch: everything is handed out, then compared with the spec's record after this action"""
    from cuqiverif.core import MachineryError
    p = c["problem"]
    wang = p == "WangCubic"
    facet = "seq/" + route
    grp = lambda what: ("seq", what, key, k)
    try:
        with _quiet():
            comps = obj.get_components()
            post, lik, pri, dat, mod = obj.posterior, obj.likelihood, obj.prior, obj.data, obj.model
    except Exception as e:      # noqa: BLE001
        ctx.case(grp("fetch"), facet=facet)
        ctx.mismatch(sig("fetch", k), case, "components / posterior cannot be fetched after the operations so far: %r" % (e,))
        return None
    info = comps[2]
    have_exact = c["info"]["exactSolution"]
    snap = {"data": np.array(_vals(dat), copy=True)}
    if have_exact:
        snap["exactSolution"] = np.array(_vals(obj.exactSolution), copy=True)
        snap["exactData"] = np.array(_vals(obj.exactData), copy=True)
    # ---- the references listed by the spec (SeqSameModel / SeqSameData / SeqSamePrior among the things handed out now)
    ctx.case(grp("same"), facet=facet)
    for a, b in c["same"]:
        oa, ob = _resolve(obj, comps, a), _resolve(obj, comps, b)
        if oa is ob:
            continue
        if a.endswith(".data") and b.endswith(".data"):
            try:
                same_val = np.array_equal(_vals(oa), _vals(ob)) and _same_geom(getattr(oa, "geometry", None), getattr(ob, "geometry", None))
            except Exception:       # noqa: BLE001
                same_val = False
            if same_val:
                ctx.observations.setdefault("data_handed_out_as_equal_copy", {})["%s=%s" % (a, b)] = True
                continue
        ctx.mismatch(sig("same/%s=%s" % (a, b), k), case, "%s and %s are not the same object" % (a, b))
    # ---- the same model (by value: the operator and the geometries of the untouched twin; identity where it is known)
    ctx.case(grp("model"), facet=facet)
    if model_by_identity is not None and mod is not model_by_identity:
        ctx.observations.setdefault("seq_model_handed_out_is_not_the_object_assigned", {})[route] = True
    with _quiet():
        try:
            mu_obj = [_vals(mod.forward(x0)) for x0, _ in pts]
        except Exception as e:      # noqa: BLE001
            mu_obj = None
            ctx.mismatch(sig("model", k), case, "the model handed out cannot be applied: %r" % (e,))
    if mu_obj is not None and not all(_close(u, w) for u, w in zip(mu_obj, mu_ref)):
        ctx.mismatch(sig("model", k), case, "the model handed out after the operations is not the problem's model (forward differs)",
                     [w.tolist() for w in mu_ref], [u.tolist() for u in mu_obj])
    # ---- the CURRENT data everywhere
    ctx.case(grp("data"), facet=facet)
    want = dvals[exp_d]
    for path, o in (("problem.data", dat), ("likelihood.data", lik.data), ("posterior.data", post.data), ("components.data", comps[1])):
        try:
            ok = _close(o, want)
        except Exception:       # noqa: BLE001
            ok = False
        if not ok:
            ctx.mismatch(sig("data/" + path, k), case, "%s is not the CURRENT data (version %d of the behaviour)" % (path, exp_d),
                         want, _vals(o) if o is not None else None)
    # ---- geometries
    ctx.case(grp("geometry"), facet=facet)
    dom = [mod.domain_geometry, ref.model.domain_geometry, getattr(pri, "geometry", None), getattr(post, "geometry", None),
           getattr(lik, "geometry", None)]
    rng = [mod.range_geometry, ref.model.range_geometry, getattr(dat, "geometry", None), getattr(lik.distribution, "geometry", None)]
    if have_exact:
        dom.append(getattr(obj.exactSolution, "geometry", None))
        rng.append(getattr(obj.exactData, "geometry", None))
    if not _geoms_compatible(dom):
        ctx.mismatch(sig("geometry/domain", k), case, "domain-side geometries (model, prior, posterior, likelihood, exactSolution) are inconsistent", None, [repr(g) for g in dom])
    if not _geoms_compatible(rng):
        ctx.mismatch(sig("geometry/range", k), case, "range-side geometries (model, data, data distribution, exactData) are inconsistent", None, [repr(g) for g in rng])
    # ---- info record / exact values
    ctx.case(grp("info"), facet=facet)
    for fld in ("exactSolution", "exactData"):
        have = getattr(info, fld, None) is not None
        if have != c["info"][fld]:
            ctx.mismatch(sig("info/" + fld, k), case, "get_components() info.%s set=%s, expected %s" % (fld, have, c["info"][fld]))
        elif have and not _close(getattr(info, fld), xex if fld == "exactSolution" else yex):
            ctx.mismatch(sig("info/" + fld, k), case, "get_components() info.%s is not the %s of the problem as constructed" % (fld, fld),
                         xex if fld == "exactSolution" else yex, _vals(getattr(info, fld)))
    # ---- SeqPosteriorIsLikPlusPrior: independent Gaussian formulas at the CURRENT data and the CURRENT prior
    ctx.case(grp("logd"), facet=facet)
    for (x0, ip), mu in zip(pts, mu_ref):
        res = (want - mu) / svec
        rs = spec_res[exp_d]
        if ip is not None and rs is not None:
            if not np.allclose(res, rs[ip], rtol=1e-9, atol=1e-9):
                raise MachineryError("seq: standardised residual of the harness differs from the specification (%s, version %d)" % (key, exp_d))
            res = rs[ip]
        pq = float(np.sum((x0 - pm[exp_p]) ** 2) / pv[exp_p])
        if ip is not None and abs(pq - pq_spec[exp_p][ip]) > 1e-12 * max(1.0, abs(pq)):
            raise MachineryError("seq: prior quadratic form of the harness differs from the specification")
        loglik = -0.5 * float(np.sum(res ** 2)) - float(np.sum(np.log(svec))) - 0.5 * len(svec) * LOG2PI
        logprior = -0.5 * pq - 0.5 * len(x0) * (LOG2PI + math.log(pv[exp_p]))
        exp = loglik + logprior
        try:
            with _quiet():
                got = float(np.asarray(post.logd(x0)).ravel()[0])
                gl = float(np.asarray(lik.logd(x0)).ravel()[0])
                gp = float(np.asarray(pri.logd(x0)).ravel()[0])
        except Exception as e:      # noqa: BLE001
            ctx.mismatch(sig("logd", k), dict(case, x0=x0.tolist()), "log-density cannot be evaluated after the operations so far: %r" % (e,))
            break
        if not np.isfinite(got) or abs(got - exp) > RTOL * max(1.0, abs(exp)):
            what = []
            if abs(gl - loglik) > RTOL * max(1.0, abs(loglik)):
                what.append("likelihood term (data version %d)" % exp_d)
            if abs(gp - logprior) > RTOL * max(1.0, abs(logprior)):
                what.append("prior term (prior version %d)" % exp_p)
            ctx.mismatch(sig("logd", k), dict(case, x0=x0.tolist()),
                         "posterior.logd(x) is not Gaussian log-likelihood of the stated noise at the CURRENT data + log-density of the "
                         "CURRENT prior" + ("; off: " + ", ".join(what) if what else ""), exp, got)
            break
        if abs(gl - loglik) > RTOL * max(1.0, abs(loglik)) or abs(gp - logprior) > RTOL * max(1.0, abs(logprior)):
            ctx.mismatch(sig("logd_parts", k), dict(case, x0=x0.tolist()),
                         "problem.likelihood.logd / problem.prior.logd differ from the Gaussian formulas for the current data / prior",
                         [loglik, logprior], [gl, gp])
            break
    # ---- fetching and evaluating changes nothing: data / exact values bit-identical, arrays handed in untouched
    ctx.case(grp("mutated"), facet=facet)
    try:
        with _quiet():
            comps2 = obj.get_components()
            again = {"data": _vals(obj.data)}
            if have_exact:
                again["exactSolution"] = _vals(obj.exactSolution)
                again["exactData"] = _vals(obj.exactData)
        for nm, before in snap.items():
            if not np.array_equal(before, again[nm]):
                ctx.mismatch(sig("mutated/" + nm, k), case, "problem.%s changed by fetching the components / evaluating the log-density" % nm,
                             before, again[nm])
        if not np.array_equal(_vals(comps2[1]), snap["data"]):
            ctx.mismatch(sig("mutated/components.data", k), case, "get_components() hands out different data the second time", snap["data"], _vals(comps2[1]))
    except Exception as e:      # noqa: BLE001
        ctx.mismatch(sig("fetch", k), case, "components cannot be fetched a second time: %r" % (e,))
    for arr, pristine in given:
        if not np.array_equal(_vals(arr), pristine):
            ctx.mismatch(sig("mutated/argument", k), case, "an array handed to the problem was modified in place", pristine, _vals(arr))
            break
    if have_exact and (not _close(snap["exactSolution"], xex) or not _close(snap["exactData"], yex)):
        ctx.mismatch(sig("exact", k), case, "exactSolution / exactData of the problem changed by the operations so far",
                     [xex, yex], [snap["exactSolution"], snap["exactData"]])
    return post


def run_seq(ctx, tier):
    """model-check TestProblemsSeq, demonstrate its deviations, replay every emitted behaviour.  Returns behaviours replayed."""
    from cuqiverif import tlc as _tlc
    from cuqiverif.core import MachineryError
    cfg = "TestProblemsSeq.%s.cfg" % tier
    rs = ctx.tlc("TestProblemsSeq", cfg=cfg, workers=4, timeout=1500, extra_modules=EXTRA)
    ctx.model_must_hold(rs, "TestProblemsSeq")
    _tlc.cleanup(rs)
    for dcfg, inv in (SEQ_DEVIATIONS if tier == "thorough" else SEQ_DEVIATIONS[:1]):
        rd = ctx.tlc("TestProblemsSeq", cfg=dcfg, workers=2, timeout=600, extra_modules=EXTRA, expect_violation=True)
        if rd.ok or rd.violated != inv:
            raise MachineryError("deviation run %s did not violate %s (violated=%r): invariant vacuous" % (dcfg, inv, rd.violated))
        _tlc.cleanup(rd)
    cases = [c for c in rs.cases if c.get("kind") == "seq"]
    if not cases:
        raise MachineryError("TestProblemsSeq emitted no behaviour")
    return replay_seq(ctx, cases, cfg)


def replay_seq(ctx, cases, cfg, guard=True):
    from cuqiverif.core import MachineryError
    legacy_match, stats = {}, {}
    done = 0
    for c in cases:
        if check_seq(ctx, c, cfg, legacy_match, stats):
            done += 1
    for lk, ok in sorted(legacy_match.items()):
        if not ok:
            ctx.observations.setdefault("seq_legacy_orientation_unmatched", {})["n=%d/psf=%s" % lk] = True
    ctx.observe("seq_behaviours", {k: v for k, v in stats.items() if k not in ("few_points",)})
    if guard and not ctx.violations:
        for r in ("newlik", "likdata", "setdata"):
            if not stats.get("routes", {}).get(r):
                raise MachineryError("seq: no behaviour of route %s was replayed to the end (%r)" % (r, stats))
        for pr in ("Deconvolution1D", "Deconvolution1D_legacy", "Deconvolution2D", "Heat1D", "Poisson1D", "Abel1D", "WangCubic"):
            if not stats.get("problems", {}).get(pr):
                raise MachineryError("seq: no behaviour of %s was replayed to the end (%r)" % (pr, stats))
        for a in ("F", "D_ok", "P_ok", "X"):
            if not stats.get(a):
                raise MachineryError("seq: action %s never replayed (%r)" % (a, stats))
    return done


_CACHE = {}


def replay_case(ctx, case):
    """re-execute one stored behaviour: re-emit from TLC with the same configuration and replay the matching behaviour"""
    from cuqiverif import tlc as _tlc
    cfg = case.get("cfg", "TestProblemsSeq.thorough.cfg")
    if cfg not in _CACHE:
        r = ctx.tlc("TestProblemsSeq", cfg=cfg, workers=4, timeout=1500, extra_modules=EXTRA)
        ctx.model_must_hold(r, "TestProblemsSeq")
        _CACHE[cfg] = [c for c in r.cases if c.get("kind") == "seq"]
        _tlc.cleanup(r)
    for c in _CACHE[cfg]:
        if _pkey(c) == _pkey(case) and c["route"] == case["route"] and ops_key(c) == ops_key(case):
            check_seq(ctx, c, cfg, {}, {})
