"""C12, facet `inplace`: ONE INPUT OBJECT that is used, modified in place and used again (specs/ModelGeomSeq12.tla, part X12).

TLC enumerates every behaviour  Use, Edit, Use [, Edit, Use]  of the state machine over one input object
    rep    CUQIarray of parameters / of function values (with the model's domain geometry), plain ndarray of parameters / of
           function values, Samples of parameters / of function values
    Use    x.funvals | x.parameters | model(x) / model.forward(x) | model.gradient(direction, x)
    Edit   every in-place route numpy offers on the object itself (augmented assignment, ufunc out=, setitem, fill, sort, put,
           copyto, place, putmask, flat[i] = v, itemset, .real = v, setfield) or through a view of its buffer (x.view(),
           x.view(np.ndarray), np.asarray(x), x.to_numpy(), the array it was constructed from, x[:]; Samples: s.samples, the array
           given to the constructor, a view, rebinding s.samples)
checks X12SeesCurrent / X12UseKeepsContent / X12Exact on the intended design (three named deviations must violate) and emits
  * `x12`     one case per behaviour: after every action the exact CONTENT of the object (rationals) and, for a Use, the content
              `basis` its answer is computed from (= the content at that moment on the intended design),
  * `x12val`  for every distinct (configuration, parameter- / function-typed, column): the exact funvals / parameters / forward
              output / gradient and the refusal flags,
  * `x12data` the vectors / constants the edits use,  `c12` the configuration (core operator, geometry matrices).
The replay builds the real model and the real input object, performs every action on them and compares after EVERY action:
the content of the object with the spec's content, the answer of a Use with the spec's exact value for the current content.

Oracle discipline: "the value of an array argument is its content at call time".  The expected value of a Use is the spec's exact
value for the content the object has at that moment; the content itself is tracked by the spec (every edit is an exact
transformation of a dyadic-rational vector).  Not asserted (observations): a route that the real object refuses (raises); a
"view" that turns out to be a copy (then only: editing it leaves the object alone); x.parameters of function values whose
geometry has no fun2par; the gradient w.r.t. function values that do not determine the parameters (non-bijective par2fun).
The KLExpansion realisation of the abstract expansion is numeric: its expected values are the spec's core operator composed
with the matrices read off the ORIGINAL geometry object at construction (parameter-typed representations only).
"""
import json
import os
import warnings

import numpy as np

SPEC = "ModelGeomSeq12"
DEVIATIONS = [("FunvalsCachedAcrossInPlaceEdit", "X12SeesCurrent"), ("ModelMemoByInputIdentity", "X12SeesCurrent"),
              ("UseConvertsInPlace", "X12UseKeepsContent")]
PAR_REPS = ("arr_par", "nd_par", "samples")
SAMPLES_REPS = ("samples", "samples_fun")
MAX_STORED = 40          # mismatches of one run that carry their full replay case


def _try(f):
    try:
        with warnings.catch_warnings():
            warnings.simplefilter("ignore")
            return f(), None
    except Exception as e:  # noqa: BLE001 - a refusal of the real code is data for the comparison
        return None, e


def cfg_key(c):
    return json.dumps([c["mk"], c["dg"], c["rg"], c["fi"]], sort_keys=True)


def col_key(col):
    return tuple((int(e[0]), int(e[1])) for e in col)


class Values:
    """x12val cases of one TLC run: (configuration, par?, column) -> exact numbers"""

    def __init__(self, vals=()):
        self.raw = {}
        for v in vals:
            self.add(v)

    def add(self, v):
        self.raw[(cfg_key(v), bool(v["par"]), col_key(v["col"]))] = v

    def get(self, ck, par, col):
        from cuqiverif.tlc import MachineryError
        k = (ck, par, col_key(col))
        if k not in self.raw:
            raise MachineryError("ModelGeomSeq12 (X12) emitted no value case for a content that a behaviour reaches: %r" % (k[1:],))
        return self.raw[k]


def beh_path(steps, upto=None):
    out = []
    for st in steps[:upto]:
        out.append("U:" + st["kind"] if st["a"] == "U" else "%s:%s:%s" % (st["a"], st["via"], st["op"]))
    return ",".join(out)


def beh_key(b):
    return (b["mk"], b["dg"]["kind"], b["dg"]["k"], b["rg"]["kind"], b["fi"], b["rep"], beh_path(b["steps"]))


def _rv(col):
    """<<n, d>> entries -> float vector (true division of two ints is correctly rounded, as float(Fraction(n, d)) is)"""
    return np.array([e[0] / e[1] for e in col], dtype=float)


def _vec(cols):
    return [_rv(c) for c in cols]


class Realised:
    """real geometry objects of one configuration: built once per TLC run and shared by the behaviours of that configuration (a user
    holds ONE geometry object for many arrays); the model and the input object are built per behaviour"""

    def __init__(self):
        self.cache = {}

    def get(self, ck, case, variant):
        from cuqiverif.modelgeom_real import build_geometry, rmat
        k = (ck, variant)
        if k not in self.cache:
            Gd, Gpd, Hr, Hpr = (rmat(case[m]) if len(case[m]) else None for m in ("Gd", "Gpd", "Hr", "Hpr"))
            self.cache[k] = (build_geometry(case["dg"], Gd, Gpd, variant=variant), build_geometry(case["rg"], Hr, Hpr))
        return self.cache[k]


class Oracle:
    """expected value of a Use for a given content"""

    def __init__(self, beh, ck, values, case, dom, rng):
        self.ck, self.values, self.case, self.dom, self.rng = ck, values, case, dom, rng
        self.par = beh["rep"] in PAR_REPS
        self.numeric = bool(dom.numeric)
        if self.numeric:
            from cuqiverif.props.c12 import _core_numeric
            self.fv, self.jft = _core_numeric(case)

    def flags(self, col):
        v = self.values.get(self.ck, self.par, col)
        return {"par_defined": bool(v["par_defined"]), "grad_asserted": bool(v["grad_asserted"]), "refused": bool(v["refused"])}

    def value(self, kind, col):
        """exact value (numpy vector) or None where the spec defines none"""
        rvec = _rv
        v = self.values.get(self.ck, self.par, col)
        if not self.numeric:
            if kind == "parameters" and not v["par_defined"]:
                return None
            if kind == "grad" and not v["grad_asserted"]:
                return None
            return rvec(v[kind])
        # KLExpansion: the spec's core operator composed with the matrices read off the original geometry object
        p = rvec(col)
        G, Hp = np.asarray(self.dom.G), np.asarray(self.rng.Gp)
        if kind == "parameters":
            return p
        if kind == "funvals":
            return G @ p
        if kind == "fwd":
            return Hp @ self.fv(G @ p)
        if kind == "grad":
            if not v["grad_asserted"]:
                return None
            return G.T @ self.jft(G @ p, Hp.T @ rvec(v["dir"]))
        return None


def check_behaviour(ctx, beh, case, values, data, variant=None, stored=None, realised=None):
    """Drive one real input object through the behaviour; compare after every action."""
    import cuqi  # noqa: F401
    from cuqi.array import CUQIarray
    from cuqi.samples import Samples
    from cuqiverif.modelgeom_real import build_general_model, close, gkey, ivec
    from cuqiverif.tlc import MachineryError
    rep, steps = beh["rep"], beh["steps"]
    ck = cfg_key(beh)
    dom, rng = (realised or Realised()).get(ck, case, variant)
    model = build_general_model(case, dom, rng)
    dgeom = model.domain_geometry
    orc = Oracle(beh, ck, values, case, dom, rng)
    par = rep in PAR_REPS
    is_samples = rep in SAMPLES_REPS
    C = data["consts"]
    key = "mk=%s/dom=%s/rng=%s/rep=%s" % (beh["mk"], gkey(dom.g), gkey(rng.g), rep)
    kept = []

    def rcase():
        if not kept:
            kept.append(stored if stored is not None else replay_case_of(beh, case, values, data, variant))
        if ctx.observations.setdefault("inplace_mismatch_cases_stored", 0) >= MAX_STORED:
            return {"kind": "x12", "omitted": "replay case stored with the first %d mismatches only" % MAX_STORED, "beh": beh_key(beh)}
        ctx.observations["inplace_mismatch_cases_stored"] += 1
        return kept[0]

    def sig(n, what):
        st = steps[n]
        act = ("U/" + st["kind"]) if st["a"] == "U" else "%s/%s:%s" % (st["a"], st["via"], st["op"])
        return "inplace/%s/%s/after=%s/%s" % (act, key, beh_path(steps, n) or "new", what)

    def done(n):
        return "after " + (beh_path(steps, n) or "construction")

    def shape_of(col):
        """array shape the object uses for a column of the spec"""
        return (len(col),) if par else tuple(dom.fun_shape)

    # ---- the object -------------------------------------------------------------------------------------------------------------
    cols0 = _vec(beh["cols0"])
    if is_samples:
        if not par and len(dom.fun_shape) != 1:
            raise MachineryError("samples_fun is specified for 1-D function values only")
        base = np.column_stack(cols0).astype(float)
        x = Samples(base, geometry=dgeom) if par else Samples(base, geometry=dgeom, is_par=False, is_vec=True)
    else:
        base = np.array(cols0[0], dtype=float).reshape(shape_of(cols0[0]))
        if rep == "arr_par":
            x = CUQIarray(base, is_par=True, geometry=dgeom)
        elif rep == "arr_fun":
            x = CUQIarray(base, is_par=False, geometry=dgeom)
        elif rep in ("nd_par", "nd_fun"):
            x = base
        else:
            raise MachineryError("unknown representation %r" % rep)
    meta0 = (getattr(x, "is_par", None), id(getattr(x, "geometry", None)))

    def content():
        a = np.asarray(x.samples if is_samples else x, dtype=float)
        if is_samples:
            return [a[..., j].ravel() for j in range(a.shape[-1])]
        return [a.ravel()]

    def content_is(cols):
        got = content()
        return len(got) == len(cols) and all(g.shape == w.shape and bool(np.array_equal(g, w)) for g, w in zip(got, cols))

    def check_content(n, cols, what, text):
        ok = content_is(cols)
        if not ok:
            ctx.mismatch(sig(n, what), rcase(), "%s [%s]" % (text, done(n + 1)), cols, content())
        if (getattr(x, "is_par", None), id(getattr(x, "geometry", None))) != meta0:
            ctx.mismatch(sig(n, "flags"), rcase(), "is_par / geometry of the input object changed [%s]" % done(n + 1), None, None)
            ok = False
        return ok

    if not content_is(cols0):
        raise MachineryError("the constructed input object does not hold the content of the specification (%s)" % key)

    # ---- Use ----------------------------------------------------------------------------------------------------------------------
    def columns_of(out, kind):
        """the answer as a list of C-order vectors (one per column of the content)"""
        if is_samples:
            if not isinstance(out, Samples):
                return None
            a = np.asarray(out.samples, dtype=float)
            return [a[..., j].ravel() for j in range(a.shape[-1])]
        if isinstance(out, Samples):
            return None
        return [np.asarray(out, dtype=float).ravel()]

    def use(n, st):
        kind = st["kind"]
        basis = st["basis"]
        want = [orc.value(kind, col) for col in basis]
        fl = orc.flags(basis[0])
        alt = (n // 2) % 2 == 1
        if kind == "funvals":
            call = lambda: x.funvals                                                        # noqa: E731
        elif kind == "parameters":
            call = lambda: x.parameters                                                     # noqa: E731
        elif kind == "fwd":
            if par or rep == "arr_fun" or rep == "samples_fun":
                call = (lambda: model.forward(x)) if alt else (lambda: model(x))
            else:
                call = (lambda: model.forward(x, is_par=False)) if alt else (lambda: model(x, is_par=False))
        elif kind == "grad":
            dvec = _rv(values.get(ck, par, basis[0])["dir"])
            call = (lambda: model.gradient(dvec, x)) if (par or rep == "arr_fun") else (lambda: model.gradient(dvec, x, is_wrt_par=False))
        else:
            raise MachineryError("unknown kind of use %r" % kind)
        out, err = _try(call)
        if kind == "parameters" and not fl["par_defined"]:
            o = ctx.observations.setdefault("inplace_parameters_without_fun2par", {})
            o["refused" if err is not None else "returned"] = o.get("refused" if err is not None else "returned", 0) + 1
            return
        if kind == "grad":
            if not fl["grad_asserted"]:
                o = ctx.observations.setdefault("inplace_gradient_not_asserted", {})
                o["refused" if err is not None else "returned"] = o.get("refused" if err is not None else "returned", 0) + 1
                return
            if fl["refused"]:
                if err is None:
                    got = columns_of(out, kind)
                    if got is None or not close(got[0], want[0]):
                        ctx.mismatch(sig(n, "not_refused"), rcase(), "gradient that cannot be formed correctly is not refused and is not the "
                                     "derivative of the parameter-to-parameter map at the CURRENT content of wrt [%s]" % done(n), want[0],
                                     None if got is None else got[0])
                return
        if err is not None:
            ctx.mismatch(sig(n, "raised"), rcase(), "%s raised on an input object that was modified in place [%s]" % (kind, done(n)),
                         want, repr(err))
            return
        got = columns_of(out, kind)
        if got is None:
            ctx.mismatch(sig(n, "type"), rcase(), "%s returned a %s [%s]" % (kind, type(out).__name__, done(n)), "array / Samples", type(out).__name__)
            return
        if len(got) != len(want) or not all(close(g, w) for g, w in zip(got, want)):
            ctx.mismatch(sig(n, "value"), rcase(), "%s is not the exact value for the content the input object has NOW (the value of an array "
                         "argument is its content at call time) [%s]" % ({"funvals": "x.funvals", "parameters": "x.parameters",
                                                                          "fwd": "model(x)", "grad": "model.gradient(d, x)"}[kind], done(n)),
                         want, got)

    # ---- Edit ---------------------------------------------------------------------------------------------------------------------
    def vecs(n_):
        d = data["vecs"][n_ - 1]
        return ivec(d["delta"]), ivec(d["new"]), ivec(d["new2"])

    def edit_array(y, op):
        n_ = y.size
        shp = y.shape
        d, v2, _ = vecs(n_)
        d, v2 = d.reshape(shp), v2.reshape(shp)
        if op == "imul2":
            y *= 2
        elif op == "iadd":
            y += d
        elif op == "isub":
            y -= d
        elif op == "idiv2":
            y /= 2
        elif op == "ipow2":
            y **= 2
        elif op == "uf_mul":
            np.multiply(y, 2, out=y)
        elif op == "uf_neg":
            np.negative(y, out=y)
        elif op == "uf_add":
            np.add(y, d, out=y)
        elif op == "uf_clip":
            np.clip(y, C["clip_lo"], C["clip_hi"], out=y)
        elif op == "set_all":
            y[...] = v2
        elif op == "set_i":
            y[np.unravel_index(1, shp)] = C["set"]
        elif op == "set_slice":
            if y.ndim == 1:
                y[1:3] = C["set"]
            else:
                y[0:1] = C["set"]
        elif op == "fill":
            y.fill(C["set"])
        elif op == "sort":
            y.sort()
        elif op == "put":
            y.put([0, n_ - 1], [C["put_first"], C["put_last"]])
        elif op == "np_put":
            np.put(y, [0, n_ - 1], [C["put_first"], C["put_last"]])
        elif op == "copyto":
            np.copyto(y, v2)
        elif op == "place":
            np.place(y, y > 0, [C["place"]])
        elif op == "putmask":
            np.putmask(y, y < 0, C["mask"])
        elif op == "flat_i":
            y.flat[n_ - 2] = C["flat"]
        elif op == "itemset":
            y.itemset(1, C["set"])
        elif op == "real":
            y.real = v2
        elif op == "setfield":
            y.setfield(v2, y.dtype)
        else:
            raise MachineryError("unknown in-place route %r" % op)

    def edit_samples(via, op, bound):
        """returns the array edited (None for the attribute itself)"""
        k_ = x.samples.shape[0]
        d, v2, v3 = vecs(k_)
        V = np.column_stack([v2, v3]).astype(float)
        if via == "attr":
            if op == "imul2":
                x.samples *= 2
            elif op == "col_imul2":
                x.samples[:, 1] *= 2
            elif op == "set_all":
                x.samples[...] = V
            elif op == "set_col":
                x.samples[:, 0] = v2
            elif op == "set_elem":
                x.samples[1, 1] = C["set"]
            elif op == "fill":
                x.samples.fill(C["set"])
            elif op == "uf_neg":
                np.negative(x.samples, out=x.samples)
            elif op == "iadd":
                x.samples += d[:, None]
            elif op == "copyto":
                np.copyto(x.samples, V)
            elif op == "rebind":
                x.samples = V.copy()
            else:
                raise MachineryError("unknown in-place route %r" % op)
            return None
        y = base if via == "orig" else x.samples.view()
        if op == "imul2":
            y *= 2
        elif op == "set_col":
            y[:, 0] = v2
        elif op == "set_all":
            y[...] = V
        else:
            raise MachineryError("unknown in-place route %r" % op)
        return y

    def view_of(via):
        if via == "x":
            return x
        if via == "view":
            return x.view()
        if via == "view_nd":
            return x.view(np.ndarray)
        if via == "asarray":
            return np.asarray(x)
        if via == "to_numpy":
            return x.to_numpy()
        if via == "base":
            return base
        if via == "slice":
            return x[:]
        raise MachineryError("unknown view %r" % via)

    bound = True
    prev = cols0
    for n, st in enumerate(steps):
        a = st["a"]
        now = _vec(st["cols"])
        ctx.case("x12/%s/%s/%s" % (key, variant or "", beh_path(steps, n + 1)), facet="inplace/" + a)
        if a == "U":
            use(n, st)
            if not check_content(n, now, "input_mutated", "a use (%s) changed the content of the caller's input object" % st["kind"]):
                return
        else:
            via, op = st["via"], st["op"]
            o = ctx.observations.setdefault("inplace_routes", {})
            tag = "%s:%s:%s" % ("samples" if is_samples else ("arr" if rep.startswith("arr") else "nd"), via, op)
            if is_samples:
                shares = True
                if via == "orig":
                    shares = x.samples is base or bool(np.shares_memory(x.samples, base))
                    if not bound:
                        shares = True          # (after s.samples = V the spec expects the edit of the old array to be invisible)
                y, err = _try(lambda: edit_samples(via, op, bound))
                if op == "rebind":
                    bound = False
            else:
                y, err = _try(lambda: view_of(via))
                shares = err is None and (via == "x" or bool(np.shares_memory(y, x)))
                if err is None:
                    _, err = _try(lambda: edit_array(y, op))
            if err is not None:
                # refused by the real object: not asserted; the rest of the behaviour assumes the edit
                o[tag] = "refused: " + repr(err)[:80]
                return
            if not isinstance(o.get(tag), str):
                o[tag] = o.get(tag, 0) + 1
            if not shares:
                # the "view" is a copy: editing it must leave the object alone; the rest of the behaviour assumes a view
                c_ = ctx.observations.setdefault("inplace_view_is_a_copy", {})
                c_[via] = c_.get(via, 0) + 1
                check_content(n, prev, "copy_edit_reached_input", "editing a COPY of the input object changed the object")
                return
            if not check_content(n, now, "content", "the content of the input object after the in-place edit is not what numpy specifies "
                                 "for %s via %s" % (op, via)):
                return
        prev = now


def replay_case_of(beh, case, values, data, variant):
    ck = cfg_key(beh)
    par = beh["rep"] in PAR_REPS
    need = {col_key(c) for c in beh["cols0"]}
    for st in beh["steps"]:
        need.update(col_key(c) for c in st["cols"])
        need.update(col_key(c) for c in st["basis"])
    vals = [values.raw[(ck, par, k)] for k in sorted(need) if (ck, par, k) in values.raw]
    return {"kind": "x12", "beh": beh, "cfg": {k: v for k, v in case.items() if k != "rename"}, "vals": vals, "data": data,
            "variant": variant}


def check_x12_case(ctx, case):
    # construction refused = violation inplace/construct/<key>/construction_refused (modelgeom_real.construct), not a machinery failure
    from cuqiverif.modelgeom_real import refusal_is_violation
    return refusal_is_violation("inplace/construct")(_check_x12_case_body)(ctx, case)


def _check_x12_case_body(ctx, case):
    """--replay entry: one stored behaviour with the numbers it needs"""
    check_behaviour(ctx, case["beh"], case["cfg"], Values(case["vals"]), case["data"], variant=case.get("variant"), stored=case)


def _mains(tier):
    if tier == "quick":
        return ["ModelGeomSeq12.inplace.quick.cfg"]
    return ["ModelGeomSeq12.inplace.full.thorough.cfg", "ModelGeomSeq12.inplace.wide.thorough.cfg", "ModelGeomSeq12.inplace.deep.thorough.cfg"]


def start(ctx):
    """start the TLC runs of this facet (deciding configuration(s) of the tier + the three deviations) in the background"""
    from concurrent.futures import ThreadPoolExecutor
    from cuqiverif import tlc
    extra = ("ModelGeom.tla",)
    tag = "%d-%d" % (os.getpid(), id(ctx) % 100000)

    def wd(name):
        return os.path.join(tlc.WORK, "%s-X12-%s-%s" % (SPEC, tag, name))

    jobs = [("dev", dev, inv, dict(cfg="ModelGeomSeq12.%s.deviation.cfg" % dev, workers=1, expect_violation=True, timeout=600,
                                   extra_modules=extra, workdir=wd(dev), heap="1g")) for dev, inv in DEVIATIONS]
    jobs += [("main", cfg, None, dict(cfg=cfg, workers=6, timeout=1700, extra_modules=extra, workdir=wd(cfg.replace(".cfg", ""))))
             for cfg in _mains(ctx.tier)]
    ex = ThreadPoolExecutor(max_workers=len(jobs))
    futs = [ex.submit(lambda kw=kw: ctx.tlc(SPEC, **kw)) for _, _, _, kw in jobs]
    return {"jobs": jobs, "futs": futs, "ex": ex}


def abandon(handle):
    """the check failed elsewhere: wait for the background runs and drop their results"""
    from cuqiverif import tlc
    for f in handle["futs"]:
        try:
            tlc.cleanup(f.result())
        except Exception:  # noqa: BLE001 - the original error is the one reported
            pass
    handle["ex"].shutdown(wait=True)


def finish(ctx, handle):
    """collect the TLC runs started by `start`, replay every behaviour.  Returns the number of behaviours replayed."""
    from cuqiverif import tlc
    from cuqiverif.core import MachineryError
    from cuqiverif.modelgeom_real import rvec, close
    jobs = handle["jobs"]
    results = []
    err = None
    for f in handle["futs"]:
        try:
            results.append(f.result())
        except Exception as e:  # noqa: BLE001 - re-raised below, after every run was collected
            results.append(None)
            err = err or e
    handle["ex"].shutdown(wait=True)
    if err is not None:
        for res in results:
            if res is not None:
                tlc.cleanup(res)
        raise err
    total = 0
    seen = set()
    try:
        for (kind, name, inv, _), res in zip(jobs, results):
            if kind == "dev":
                if res.violated != inv:
                    raise MachineryError("deviation %s did not violate %s on the model (violated=%r)" % (name, inv, res.violated))
                ctx.observations.setdefault("deviation_counterexamples", {})[name] = inv
                continue
            ctx.model_must_hold(res, "ModelGeomSeq12/" + name)
            behs = [c for c in res.cases if c.get("kind") == "x12"]
            vals = [c for c in res.cases if c.get("kind") == "x12val"]
            cfgs = {cfg_key(c): c for c in res.cases if c.get("kind") == "c12"}
            datas = [c for c in res.cases if c.get("kind") == "x12data"]
            if not res.ok:
                continue
            if not behs or not vals or not cfgs or not datas:
                raise MachineryError("ModelGeomSeq12 X12 (%s) emitted behaviours=%d values=%d configurations=%d data=%d"
                                     % (name, len(behs), len(vals), len(cfgs), len(datas)))
            values = Values(vals)
            data = datas[0]
            # the numbers of this part must be the ones of ModelGeom's C12Eval (same configuration, input vs[2])
            for ck, c in cfgs.items():
                k = (ck, True, tuple((int(e), 1) for e in c["vs"][1]))
                if k in values.raw:
                    v = values.raw[k]
                    if not close(rvec(v["fwd"]), rvec(c["outs"][1])) or not close(rvec(v["funvals"]), rvec(c["fs"][1])):
                        raise MachineryError("X12Val disagrees with C12Eval of ModelGeom for %s" % ck)
            behs.sort(key=beh_key)                      # TLC's workers emit in arbitrary order: replay in a fixed order
            nkl = 0
            realised = Realised()
            for b in behs:
                ck = cfg_key(b)
                if ck not in cfgs:
                    raise MachineryError("ModelGeomSeq12 X12 emitted no configuration case for %s" % ck)
                check_behaviour(ctx, b, cfgs[ck], values, data, realised=realised)
                if b["dg"]["kind"] == "linexp" and b["rep"] in PAR_REPS and len(cfgs[ck]["Hpr"]):
                    check_behaviour(ctx, b, cfgs[ck], values, data, variant="kl", realised=realised)
                    nkl += 1
                seen.update((st["a"], st["kind"] or st["op"]) for st in b["steps"])
            total += len(behs) + nkl
            ctx.observations.setdefault("inplace_behaviours", {})[name] = {
                "behaviours": len(behs), "with_KLExpansion": nkl, "contents": len(vals), "configurations": len(cfgs), "depth": data["depth"]}
            mid = behs[len(behs) // 2]
            ctx.sample({"case": {"kind": "x12", "mk": mid["mk"], "dg": mid["dg"]["kind"], "rg": mid["rg"]["kind"], "rep": mid["rep"],
                                 "cols0": mid["cols0"], "steps": mid["steps"]}})
    finally:
        for res in results:
            tlc.cleanup(res)
    missing = {("U", "fwd"), ("U", "funvals"), ("U", "parameters"), ("U", "grad"), ("E", "imul2"), ("E", "uf_neg"), ("E", "set_all"),
               ("E", "fill"), ("E", "sort"), ("V", "imul2"), ("V", "set_all")} - seen
    if missing and not ctx.violations:
        raise MachineryError("vacuous in-place replay: %s never replayed" % sorted(missing))
    ctx.assumptions += ["in-place edits of an input object: dyadic-rational contents (denominator <= 16) so that every comparison of the "
                        "content is exact; %s" % ("Use, Edit, Use" if ctx.tier == "quick" else
                                                  "Use, Edit, Use (lean lattice x all routes, wide lattice x one route per effect) and "
                                                  "Use, Edit, Use, Edit, Use (3 configurations)")]
    return total
