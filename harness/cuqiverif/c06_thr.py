"""C06, round 7: both sides of the dense / sparse switch of cuqi.distribution.Gaussian, and the data layout of the inputs.

Spec: specs/LinGaussThr.tla (EXTENDS LinGauss).  A case is a configuration of LinGauss part rto / ugla plus a CHOICE
  thr  value of the public cuqi.config.MIN_DIM_SPARSE while the problem is built AND sampled from (75 = untouched),
  rep  number of block-diagonal replications of the base configuration (rep = 26 / 38: dimensions 52 .. 114, i.e. across
       the REAL threshold 75 with the configuration value untouched),
  lay  data layout / type of every array handed to the library (same numbers).
The expectations are those of the base configuration (TLC: ThrWhitening, ThrDrawIsPosteriorDraw, ThrCovariance hold for the
factor held on either side), replicated by the law TLC checks with two copies (ThrReplication): Lambda_big = I (x) Lambda,
mu_big = tile(mu), cov_big = I (x) Lambda^-1.  The replay is c06.check_rto / c06.check_ugla unchanged - every interface, two
current states, successive draws, the stacked operator the sampler holds - executed inside `sparse_threshold(thr)`.
"""
import copy
import os

import numpy as np

DEFAULT_THR = 75
LABELS = ("rto", "ugla", "dev_rto_t", "dev_rto_d", "dev_ugla")


def _wd(label):
    from cuqiverif import tlc
    return os.path.join(tlc.WORK, "LinGaussThr-c06-%s-%d" % (label, os.getpid()))


def start_tlc(ctx):
    import concurrent.futures
    pool = concurrent.futures.ThreadPoolExecutor(max_workers=5)
    kw = dict(timeout=1500, extra_modules=["LinGauss.tla"])
    jobs = {"rto": pool.submit(ctx.tlc, "LinGaussThr", cfg="LinGaussThr.rto.%s.cfg" % ctx.tier, workers=4, workdir=_wd("rto"), **kw),
            "ugla": pool.submit(ctx.tlc, "LinGaussThr", cfg="LinGaussThr.ugla.%s.cfg" % ctx.tier, workers=2, workdir=_wd("ugla"), **kw),
            "dev_rto_t": pool.submit(ctx.tlc, "LinGaussThr", cfg="LinGaussThr.dev_rto_AboveFactorNotTransposed.cfg", workers=1,
                                     expect_violation=True, workdir=_wd("dev_rto_t"), **kw),
            "dev_rto_d": pool.submit(ctx.tlc, "LinGaussThr", cfg="LinGaussThr.dev_rto_AboveDiagNotRooted.cfg", workers=1,
                                     expect_violation=True, workdir=_wd("dev_rto_d"), **kw),
            "dev_ugla": pool.submit(ctx.tlc, "LinGaussThr", cfg="LinGaussThr.dev_ugla_AboveFactorNotTransposed.cfg", workers=1,
                                    expect_violation=True, workdir=_wd("dev_ugla"), **kw)}
    pool.shutdown(wait=False)
    return jobs


def discard_tlc(jobs):
    from cuqiverif import tlc
    for f in jobs.values():
        try:
            tlc.cleanup(f.result())
        except BaseException:      # noqa: BLE001
            pass
    for label in LABELS:
        tlc.cleanup(_wd(label))


def collect_tlc(ctx, jobs):
    from cuqiverif import tlc
    from cuqiverif.core import MachineryError
    out, err = {}, None
    for key, f in jobs.items():
        try:
            out[key] = f.result()
        except BaseException as e:      # noqa: BLE001
            err = err or e
    if err is not None:
        for r in out.values():
            tlc.cleanup(r)
        for label in LABELS:
            tlc.cleanup(_wd(label))
        raise err
    ctx.model_must_hold(out["rto"], "LinGaussThr.rto")
    ctx.model_must_hold(out["ugla"], "LinGaussThr.ugla")
    for key, name, inv in (("dev_rto_t", "thr/rto/AboveFactorNotTransposed", "ThrWhitening"), ("dev_rto_d", "thr/rto/AboveDiagNotRooted", "ThrWhitening"),
                           ("dev_ugla", "thr/ugla/AboveFactorNotTransposed", "ThrUglaWhitening")):
        if out[key].ok or out[key].violated != inv:
            raise MachineryError("deviation %s: expected TLC to violate %s, got %r (vacuous invariant?)" % (name, inv, out[key].violated))
        ctx.observations.setdefault("deviations_refuted_by_tlc", {})[name] = inv
    rto = [c for c in out["rto"].cases if c.get("kind") == "rtothr"]
    ugla = [c for c in out["ugla"].cases if c.get("kind") == "uglathr"]
    for r in out.values():
        tlc.cleanup(r)
    if not rto or not ugla:
        raise MachineryError("no cases emitted by LinGaussThr (rto %d, ugla %d)" % (len(rto), len(ugla)))
    return rto, ugla


# ----- replication (law checked by TLC with two copies: ThrReplication) ------------------------------------------------
def _kron_i(r, M):
    rows, cols = len(M), len(M[0])
    zero = [0, 1] if isinstance(M[0][0], list) else 0
    return [[(M[i % rows][j % cols] if i // rows == j // cols else zero) for j in range(cols * r)] for i in range(rows * r)]


def _tile(r, v):
    return [v[i % len(v)] for i in range(len(v) * r)]


def _rep_gauss(spec, r):
    s = dict(spec)
    if spec["shape"] == "vector":
        s["param_q"] = _tile(r, spec["param_q"])
    elif spec["shape"] == "matrix":
        s["param_q"] = _kron_i(r, spec["param_q"])
    return s


def replicate(case, r):
    """The base case repeated r times block-diagonally; expectations by the replication law."""
    from cuqiverif.core import MachineryError
    if case["prior"]["kind"] in ("gmrf", "joint"):
        raise MachineryError("replication is defined for Gaussian priors only")
    c = copy.deepcopy(case)
    c["n"] = case["n"] * r
    c["m"] = [m * r for m in case["m"]]
    c["A"] = [_kron_i(r, A) for A in case["A"]]
    c["y"] = [_tile(r, y) for y in case["y"]]
    c["Ln"] = [_kron_i(r, L) for L in case["Ln"]]
    c["noise"] = [_rep_gauss(s, r) for s in case["noise"]]
    pr = _rep_gauss(case["prior"], r)
    pr["blocks"] = [{"L": _kron_i(r, b["L"]), "mu": _tile(r, b["mu"])} for b in case["prior"]["blocks"]]
    c["prior"] = pr
    c["Lam"], c["rhs"] = _kron_i(r, case["Lam"]), _tile(r, case["rhs"])
    c["mu_q"], c["LamInv_q"] = _tile(r, case["mu_q"]), _kron_i(r, case["LamInv_q"])
    for key in ("M", "bt"):
        c.pop(key, None)
    return c


def materialise(tc):
    """TLC case of LinGaussThr -> the case dict c06.check_rto / check_ugla understand (+ thr, rep, lay)."""
    base = dict(tc["base"])
    rep = int(tc.get("rep", 1))
    if rep > 1:
        base = replicate(base, rep)
    base["thr"], base["rep"], base["lay"] = int(tc["thr"]), rep, tc.get("lay", "f64c")
    if "sides" in tc:
        base["sides"] = tc["sides"]
    return base


def _threshold(thr):
    from cuqiverif import families_common as fc
    return fc.sparse_threshold(None if int(thr) == DEFAULT_THR else int(thr))


def _switch_guard(ctx):
    """Machinery guard: the public switch exists and moves a Gaussian to the sparse side (otherwise this part is vacuous)."""
    import cuqi
    import scipy.sparse as sp
    from cuqiverif.core import MachineryError
    if not hasattr(cuqi.config, "MIN_DIM_SPARSE"):
        raise MachineryError("cuqi.config.MIN_DIM_SPARSE no longer exists: the dense / sparse switch cannot be exercised")
    old = cuqi.config.MIN_DIM_SPARSE
    with _threshold(1):
        hi = cuqi.distribution.Gaussian(np.zeros(3), cov=np.array([1.0, 4.0, 1.0]))
        hi_sparse = sp.issparse(hi.sqrtprec)
    lo = cuqi.distribution.Gaussian(np.zeros(3), cov=np.array([1.0, 4.0, 1.0]))
    if cuqi.config.MIN_DIM_SPARSE != old:
        raise MachineryError("cuqi.config.MIN_DIM_SPARSE was not restored")
    ctx.observations["thr_switch"] = {"default": int(old), "sparse_above": bool(hi_sparse), "dense_below": not sp.issparse(lo.sqrtprec)}
    if not hi_sparse or sp.issparse(lo.sqrtprec):
        raise MachineryError("lowering cuqi.config.MIN_DIM_SPARSE does not move a Gaussian to the sparse side (vacuous): %r" % (ctx.observations["thr_switch"],))


def run(ctx, jobs):
    from cuqiverif.props import c06
    rto, ugla = collect_tlc(ctx, jobs)
    _switch_guard(ctx)
    seen = {"thr": set(), "rep": set(), "lay": set(), "above": set()}
    for tc in rto:
        case = materialise(tc)
        seen["thr"].add(case["thr"]); seen["rep"].add(case["rep"]); seen["lay"].add(case["lay"])
        for q, ab in enumerate(tc["sides"]["noise"]):
            if ab:
                seen["above"].add(("noise", case["noise"][q]["kind"], case["noise"][q]["form"]))
        if tc["sides"]["prior"]:
            seen["above"].add(("prior", case["prior"]["kind"], case["prior"]["form"]))
        with _threshold(case["thr"]):
            c06.check_rto(ctx, case)
    groups = {}
    for tc in ugla:
        case = materialise(tc)
        groups.setdefault((c06._ugla_key(case), case["thr"]), []).append(case)
    for key in sorted(groups):
        vs = sorted(groups[key], key=lambda c: c["wv"])
        with _threshold(vs[0]["thr"]):
            c06.check_ugla(ctx, vs)
    from cuqiverif.core import MachineryError
    if len(seen["above"]) < 32:
        raise MachineryError("vacuous: only %d of the 32 (role, kind, input form) combinations were put on the sparse side" % len(seen["above"]))
    ctx.observations["thr_coverage"] = {"thresholds": sorted(seen["thr"]), "replications": sorted(seen["rep"]), "layouts": sorted(seen["lay"]),
                                        "gaussians_on_sparse_side": len(seen["above"]), "rto_cases": len(rto), "ugla_groups": len(groups)}
    ctx.traces += len(rto) + len(groups)
    big = [tc for tc in rto if tc["rep"] > 1]
    for tc in (rto[0], big[0] if big else rto[-1]):
        b = tc["base"]
        ctx.sample({"case": {"kind": "rtothr", "thr": tc["thr"], "rep": tc["rep"], "lay": tc["lay"], "sides": tc["sides"],
                             "base": {k: b[k] for k in ("n", "m", "A", "y", "noise", "prior", "mu_q", "LamInv_q")}}})
    ctx.assumptions += ["LinGaussThr: cuqi.config.MIN_DIM_SPARSE is a public, documented module-level setting ('global modifiable configuration settings'); it is "
                        "lowered (and restored in a finally block) while the problem is built and sampled from; rep > 1: block-diagonal replication, "
                        "expectations by the replication law checked by TLC with two copies",
                        "layouts: integer dtype only where every entry is an integer; float32 for the model matrix, data and means (dyadic numbers: exact), "
                        "never for the parameters of a Gaussian; python lists are not documented inputs and are not used"]


def replay(ctx, case):
    from cuqiverif.props import c06
    if case.get("kind") in ("rtothr", "uglathr"):
        case = materialise(case)
    with _threshold(case.get("thr", DEFAULT_THR)):
        if case["kind"] == "rto":
            return c06.check_rto(ctx, case)
        return c06.check_ugla(ctx, [case])
