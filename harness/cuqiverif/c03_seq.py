"""C03, sequences of public operations on ONE object (helpers of props/c03.py).

Two spec parts supply the expectations:

* Families.tla, part `Reassign` (Families.reassign.<tier>.cfg): ONE distribution whose parameters are replaced one after
  another through the public attributes / property setters; per behaviour the start case and, after every assignment, the
  complete expected case of the mixed configuration (gradient included).
* FamiliesSeq.tla (FamiliesSeq.<tier>.cfg): ONE likelihood / posterior / multiple-likelihood posterior; abstract state =
  version (1 | 2) of noise parameter, data, prior mean, domain geometry of the model + finite-difference flags; per base
  configuration and version vector the exact log-densities and gradients.  The replay walks through that state graph on
  one real object per base configuration (every operation in both directions, plus seeded walks) and compares after every
  operation.

Judgement (property text): a RETURNED gradient must be the derivative of the log-density the object has NOW (the spec's
vector of the current configuration; finite-difference accuracy while an FD flag is on); a raised exception is accepted
(observation); an assignment that is REFUSED is accepted (observation) - the object must then still answer like the state
before.  An in-place modification of the data array handed out by the object is not documented: only the consistency
`gradient = derivative of the log-density the same object reports` is required there.
"""
import math
import random

import numpy as np

LTOL = 1e-10


def _c03():
    from cuqiverif.props import c03
    return c03


def _fc():
    from cuqiverif import families_common as fc
    return fc


def _obs(ctx, key, tag):
    d = ctx.observations.setdefault(key, {})
    d[tag] = d.get(tag, 0) + 1


# ======================================================================================================================
# TLC
# ======================================================================================================================
def start_tlc(ctx):
    """The two extra TLC runs (and the named deviation of FamiliesSeq) in background threads; returns the futures."""
    import concurrent.futures
    fc = _fc()
    pool = concurrent.futures.ThreadPoolExecutor(max_workers=3)
    # explicit, distinct work directories: the default name (spec, pid, millisecond) collides for runs started together
    jobs = {"reassign": pool.submit(fc.run_families, ctx, None, None, 4, "reassign"),
            "seq": pool.submit(ctx.tlc, "FamiliesSeq", cfg="FamiliesSeq.%s.cfg" % ctx.tier, workers=4, timeout=1700,
                               extra_modules=["Families.tla", "DiffOps.tla"], workdir=_wd("seq")),
            "dev": pool.submit(ctx.tlc, "FamiliesSeq", cfg="FamiliesSeq.stale.deviation.cfg", workers=1, timeout=900,
                               extra_modules=["Families.tla", "DiffOps.tla"], expect_violation=True, workdir=_wd("dev"))}
    pool.shutdown(wait=False)
    return jobs


def _wd(label):
    import os
    from cuqiverif import tlc
    return os.path.join(tlc.WORK, "FamiliesSeq-c03-%s-%d" % (label, os.getpid()))


def discard_tlc(jobs):
    """wait for the background runs and remove their work directories (used when the check stops early)"""
    from cuqiverif import tlc
    for f in jobs.values():
        try:
            tlc.cleanup(f.result())
        except BaseException:      # noqa: BLE001
            pass
    for label in ("seq", "dev"):
        tlc.cleanup(_wd(label))


def collect_tlc(ctx, jobs):
    """-> (reassign cases, seqlik cases); model violations are reported, a deviation that is not refuted is a machinery error."""
    from cuqiverif import tlc
    from cuqiverif.core import MachineryError
    out, err = {}, None
    for k, f in jobs.items():
        try:
            out[k] = f.result()
        except BaseException as e:      # noqa: BLE001   all JVMs must have ended before the error is reported
            err = err or e
    if err is not None:
        for r in out.values():
            tlc.cleanup(r)
        for label in ("seq", "dev"):
            tlc.cleanup(_wd(label))
        raise err
    ctx.model_must_hold(out["reassign"], "Families.reassign")
    ctx.model_must_hold(out["seq"], "FamiliesSeq")
    dev = out["dev"]
    re_cases = [c for c in out["reassign"].cases if c.get("kind") == "reassign"]
    sq_cases = [c for c in out["seq"].cases if c.get("kind") == "seqlik"]
    for r in out.values():
        tlc.cleanup(r)
    if dev.ok or dev.violated != "SeqIsFresh":
        raise MachineryError("deviation DevStaleAfterAssign did not violate SeqIsFresh (got %r): vacuous invariant" % dev.violated)
    ctx.observations.setdefault("deviations_refuted_by_tlc", {})["DevStaleAfterAssign"] = "SeqIsFresh"
    if not re_cases or not sq_cases:
        raise MachineryError("no sequence cases emitted (reassign %d, seqlik %d)" % (len(re_cases), len(sq_cases)))
    return re_cases, sq_cases


# ======================================================================================================================
# part A: ONE distribution, parameters reassigned (Families.Reassign)
# ======================================================================================================================
_HOWS = {"scalar": ["scalar"], "vector": ["ndarray"], "diag": ["ndarray"], "dense": ["ndarray"], "sparse": ["csr"]}


def _gauss_choice(case, idx):
    """(form, shape, how) available in the start case and after every assignment (the shape of the matrix input - scalar /
    vector / ... - has to exist for both versions of the matrix)."""
    def keys(cs):
        return {(i["form"], i["shape"]) for i in cs["inputs"] if not (i["shape"] == "sparse" and cs["dim"] == 1)}
    common = keys(case["from"])
    for st in case["trail"]:
        common &= keys(st["expect"])
    common = sorted(common)
    if not common:
        return None
    form, shape = common[idx % len(common)]
    return form, shape, _HOWS[shape][0]


def _gauss_data(cs, form, shape):
    return [i for i in cs["inputs"] if i["form"] == form and i["shape"] == shape][0]["data"]


def _build_dist(case, idx):
    """-> (dist, gauss_choice) for the start configuration, parameters passed as ndarrays."""
    import cuqi
    fc = _fc()
    frm, fam = case["from"], case["fam"]
    if fam == "Gaussian":
        ch = _gauss_choice(case, idx)
        if ch is None:
            return None, None
        form, shape, how = ch
        return cuqi.distribution.Gaussian(fc.vec(frm["par"]["mean"]), **{form: fc.gaussian_param(shape, _gauss_data(frm, form, shape), how)}), ch
    if fam in ("GMRF", "LMRF", "CMRF"):
        way, b = next(iter(fc.mrf_variants(frm, callable_way=False)))
    else:
        way, b = next(iter(fc.family_variants(frm, callable_way=False)))
    return b(), None


def _assign(dist, case, step, gch):
    """carry out one assignment unit through the public attributes"""
    fc = _fc()
    fam, exp = case["fam"], step["expect"]
    for name in step["assign"]:
        if fam == "Gaussian":
            if name == "mean":
                dist.mean = fc.vec(exp["par"]["mean"])
            else:
                form, shape, how = gch
                setattr(dist, form, fc.gaussian_param(shape, _gauss_data(exp, form, shape), how))
            continue
        vals = fc._param_values(exp) if fam not in ("GMRF", "LMRF", "CMRF") else {k: fc.vec(v) for k, v in exp["par"].items()}
        v = vals[name]
        setattr(dist, name, float(v[0]) if (fam, name) in fc._SCALAR_ONLY else np.array(v))


def check_reassign(ctx, table, case, idx):
    """One behaviour of Families.Reassign on ONE distribution object.  idx selects the variant: 0 cold (assign first,
    evaluate later), 1 warm (evaluate before and after every assignment), 2 warm with enable_FD() before the first
    evaluation and disable_FD() at the end."""
    c03, fc = _c03(), _fc()
    fam, frm = case["fam"], case["from"]
    variant = ("cold", "warm", "fd")[idx % 3]
    mrf = fam in ("GMRF", "LMRF", "CMRF")
    if mrf and not fc.mrf_operator_matches(frm):
        return False
    carry = dict(case, kind="reassign_seq", idx=idx)
    st, built, _ = fc.call(lambda: _build_dist(case, idx))
    if st == "raise" or built[0] is None:
        _obs(ctx, "seq_construction_failed", fam)
        return False
    dist, gch = built
    d = frm["dim"]
    extra = "/%s" % variant + ("/pd=%d/bc=%s/order=%d" % (frm["mrf"]["pd"], frm["mrf"]["bc"], frm["mrf"]["order"]) if mrf else "")
    if gch:
        extra += "/form=%s:%s" % (gch[0], gch[1])
    fd = False

    def evaluate(cs, stepno, unit):
        x = fc.vec(cs["x"])
        x0 = x.copy()
        gexp = fc.expected_grad(cs)
        fd_ok = cs.get("smooth", True) or gexp is None
        if fd and not fd_ok:
            return
        logf = fc.expected_logpdf(cs)
        logf = 0.0 if not math.isfinite(logf) else logf
        ctx.case(("seq/reassign", fc.case_id(frm), tuple(case["order"]), variant, stepno, gch), facet="seq/reassign/%s" % variant)
        sig = "seq/reassign/%s/unit=%s/step=%d/dim=%d/support=%s%s" % (fam, unit, stepno, d, fc.support_tag(cs), extra)
        c03.judge(ctx, carry, sig, c03._outcome(table, fam, False, "identity", fd), fc.call(lambda: dist.gradient(x)), gexp, d,
                  fd=fd, logf=logf, tag="seq/%s/%s" % (fam, variant))
        if not np.array_equal(x, x0):
            ctx.mismatch(sig + "/argument_mutated", carry, "gradient() modified the array it was called with", x0, x)

    if variant == "fd":
        if fc.call(lambda: dist.enable_FD())[0] == "value":
            fd = True
    if variant != "cold":
        evaluate(frm, 0, "none")
    prev = frm
    for n, step in enumerate(case["trail"], 1):
        unit = "+".join(step["assign"])
        r = fc.call(lambda: _assign(dist, case, step, gch))
        if r[0] == "raise":
            _obs(ctx, "seq_assignment_refused", "%s.%s" % (fam, unit))
            if len(step["assign"]) == 1 and variant != "cold":
                evaluate(prev, n, unit + ":refused")       # a refused assignment must leave the object as it was
            return True
        if variant != "cold" or n == len(case["trail"]):
            evaluate(step["expect"], n, unit)
        prev = step["expect"]
    if fd:
        if fc.call(lambda: dist.disable_FD())[0] == "value":
            fd = False
            evaluate(prev, len(case["trail"]) + 1, "disable_FD")
    return True


# ======================================================================================================================
# part B: ONE likelihood / posterior / multiple-likelihood posterior (FamiliesSeq)
# ======================================================================================================================
FIELDS = ("noise", "data", "pmean", "geom")


def group_bases(cases):
    """{base key: {version tuple: case}}"""
    out = {}
    for c in cases:
        b = c["base"]
        key = (b["n"], b["a"], b["mk"], b["pk"], b["x"])
        out.setdefault(key, {})[tuple(c["ver"][f] for f in FIELDS)] = c
    return out


def _noise_value(case, form_idx):
    """(attribute, value) of the noise parameter of the state `case`; the input FORM (attribute and container) is fixed per
    base configuration, only the value changes with the version."""
    fc = _fc()
    lam = fc.vec(case["lam"])
    forms = [("cov", 1 / lam ** 2), ("sqrtcov", 1 / lam), ("prec", np.diag(lam ** 2)), ("cov", np.diag(1 / lam ** 2))]
    name, val = forms[form_idx % len(forms)]
    return name, val, "%s:%s" % (name, "vector" if np.ndim(val) == 1 else "matrix")


def _geometries(n):
    import cuqi

    class SquareGeometry(cuqi.geometry.Continuous1D):          # par2fun(p) = p.p, supplies its own derivative (kind geomgrad)
        def par2fun(self, p):
            return p * p

        def gradient(self, direction, wrt):
            return 2 * wrt * direction
    return {1: lambda: cuqi.geometry.Continuous1D(n), 2: lambda: SquareGeometry(n)}


class Walker:
    """ONE real object of kind `who` (lik | post | multi) of one base configuration + the mirror of the abstract state."""

    def __init__(self, ctx, key, states, who, form_idx):
        import cuqi
        c03, fc = _c03(), _fc()
        self.ctx, self.key, self.states, self.who = ctx, key, states, who
        self.ver = {f: 1 for f in FIELDS}
        self.fd = {"lik": False, "post": False}
        c0 = states[(1, 1, 1, 1)]
        self.c0, self.n, self.form_idx = c0, c0["dim"], form_idx
        self.x = fc.vec(c0["x"])
        self.geoms = _geometries(self.n)
        self.fields = [f["name"] for f in c0["fields"] if f["ok"] and (f["name"] != "pmean" or who != "lik")]
        pseudo = dict(c0, mk=c0["mk0"])
        model = c03._model(pseudo)
        name, val, self.ntag = _noise_value(c0, form_idx)
        pr = c0["prior"]

        def mkprior(nm=None):
            kwn = {"name": nm} if nm else {}
            if pr["kind"] == "Gaussian":
                return cuqi.distribution.Gaussian(fc.vec(pr["mean"]), cov=4.0, **kwn)
            with fc.quiet():
                return cuqi.distribution.GMRF(fc.vec(pr["mean"]), 1.0, bc_type="zero", order=1, geometry=self.n, **kwn)
        data = fc.vec(c0["logy"])
        if who == "lik":
            self.obj = cuqi.distribution.Gaussian(model, **{name: val}).to_likelihood(np.array(data))
            self.lik = lambda: self.obj
            self.prior = lambda: None
        elif who == "post":
            self.obj = cuqi.distribution.Posterior(cuqi.distribution.Gaussian(model, **{name: val}).to_likelihood(np.array(data)), mkprior())
            self.lik = lambda: self.obj.likelihood
            self.prior = lambda: self.obj.prior
        else:
            xx = mkprior("x")
            y1 = cuqi.distribution.Gaussian(model, name="y1", **{name: val})
            y2 = cuqi.distribution.Gaussian(c03._jac_model(pseudo), cov=1.0, name="y2")
            self.obj = cuqi.distribution.JointDistribution(xx, y1, y2)(y1=np.array(data), y2=fc.vec(c0["y2"]))
            if type(self.obj).__name__ != "MultipleLikelihoodPosterior":
                from cuqiverif.core import MachineryError
                raise MachineryError("joint with two data sets did not reduce to a MultipleLikelihoodPosterior")
            self.lik = lambda: [q for q in self.obj.likelihoods if q.name == "y1"][0]
            self.prior = lambda: self.obj.prior
        self.base_sig = "%s/model=%s/noise=%s/prior=%s/dim=%d" % (who, c0["mk0"], self.ntag, pr["kind"] if who != "lik" else "none", self.n)

    # ---- abstract state ----------------------------------------------------------------------------------------------
    def case(self, ver=None):
        v = ver or self.ver
        return self.states[tuple(v[f] for f in FIELDS)]

    def expected(self, cs):
        fc = _fc()
        if self.who == "lik":
            return fc.sl_float(cs["loglik"]), fc.vec(cs["gradlik"])
        if self.who == "post":
            return fc.sl_float(cs["logpost"]), fc.vec(cs["gradpost"])
        return fc.sl_float(cs["logpost"]) + fc.sl_float(cs["loglik2"]), fc.vec(cs["gradpost"]) + fc.vec(cs["gradlik2"])

    def fd_on(self):
        if self.who == "lik":
            return self.fd["lik"]
        if self.who == "post":
            return self.fd["lik"] or self.fd["post"]
        return self.fd["lik"]

    # ---- operations --------------------------------------------------------------------------------------------------
    def apply(self, op):
        """carry out `op` on the real object; returns 'ok' | 'refused'"""
        fc = _fc()
        if op in FIELDS:
            new = dict(self.ver)
            new[op] = 3 - new[op]
            cs = self.case(new)
            if op == "noise":
                name, val, _ = _noise_value(cs, self.form_idx)
                f = lambda: setattr(self.lik().distribution, name, val)             # noqa: E731
            elif op == "data":
                f = lambda: setattr(self.lik(), "data", fc.vec(cs["logy"]))        # noqa: E731
            elif op == "pmean":
                f = lambda: setattr(self.prior(), "mean", fc.vec(cs["prior"]["mean"]))   # noqa: E731
            else:
                f = lambda: setattr(self.lik().model, "domain_geometry", self.geoms[new["geom"]]())   # noqa: E731
            if fc.call(f)[0] == "raise":
                return "refused"
            self.ver = new
            return "ok"
        which, on = op.split(":")[1], op.startswith("fd_on")
        target = self.lik() if which == "lik" else self.obj
        if fc.call((lambda: target.enable_FD()) if on else (lambda: target.disable_FD()))[0] == "raise":
            return "refused"
        self.fd[which] = on
        return "ok"

    def evaluate(self, carry, op, stepno):
        """log-density and gradient of the object NOW against the spec's values of the current abstract state"""
        c03, fc, ctx = _c03(), _fc(), self.ctx
        cs = self.case()
        lexp, gexp = self.expected(cs)
        x = self.x.copy()
        data_before = np.array(self.lik().data, dtype=float, copy=True)
        sig = "seq/%s/op=%s" % (self.base_sig, op.replace(":", "_"))
        ctx.case(("seq", self.key, self.who, self.form_idx, tuple(carry["ops"][:stepno + 1])), facet="seq/%s" % self.who)
        r = fc.call(lambda: self.obj.logd(x))
        got = fc.scalar_of(r[1]) if r[0] == "value" else None
        if r[0] == "raise":
            _obs(ctx, "seq_logd_refused", "%s/%s" % (self.who, op))
        elif got is None or not fc.close(got, lexp, LTOL, LTOL):
            ctx.mismatch(sig + "/logd", carry, "log-density after the sequence of operations is not that of the current configuration "
                         "(step %d, versions %r)" % (stepno, self.ver), lexp, r[1])
        fd = self.fd_on()
        c03.judge(ctx, carry, sig + "/gradient", "ValueFD" if fd else "Value", fc.call(lambda: self.obj.gradient(x)), gexp, self.n,
                  fd=fd, logf=lexp, tag="seq/%s/%s" % (self.who, op.split(":")[0]))
        if not np.array_equal(x, self.x):
            ctx.mismatch(sig + "/argument_mutated", carry, "logd() / gradient() modified the array they were called with", self.x, x)
        if not np.array_equal(np.asarray(self.lik().data, dtype=float), data_before):
            ctx.mismatch(sig + "/data_mutated", carry, "logd() / gradient() modified the data of the likelihood", data_before,
                         np.asarray(self.lik().data, dtype=float))

    def inplace_data(self, carry, stepno):
        """the data array handed out by the object is overwritten in place (undocumented whether the object follows): the
        gradient must be the derivative of the log-density the object reports afterwards - old data for both, or new for both"""
        fc, ctx = _fc(), self.ctx
        new = dict(self.ver)
        new["data"] = 3 - new["data"]
        arr = self.lik().data
        try:
            arr[...] = fc.vec(self.case(new)["logy"])
        except Exception:      # noqa: BLE001
            _obs(ctx, "seq_inplace_data_refused", self.who)
            return
        x = self.x.copy()
        r, g = fc.call(lambda: self.obj.logd(x)), fc.call(lambda: self.obj.gradient(x))
        got = fc.scalar_of(r[1]) if r[0] == "value" else None
        sig = "seq/%s/op=inplace_data" % self.base_sig
        if got is None:
            # no log-density to compare with: put the object back into a known state through the public attribute
            _obs(ctx, "seq_logd_refused", "%s/inplace_data" % self.who)
            fc.call(lambda: setattr(self.lik(), "data", fc.vec(self.case()["logy"])))
            return
        ctx.case(("seq/inplace", self.key, self.who, self.form_idx, tuple(carry["ops"][:stepno + 1])), facet="seq/inplace_data")
        for v in (new, self.ver):
            lexp, gexp = self.expected(self.case(v))
            if fc.close(got, lexp, LTOL, LTOL):
                fd = self.fd_on()
                _c03().judge(ctx, carry, sig + "/inconsistent", "ValueFD" if fd else "Value", g, gexp, self.n, fd=fd, logf=lexp,
                             tag="seq/%s/inplace_data" % self.who)
                _obs(ctx, "seq_inplace_data_followed", "%s:%s" % (self.who, "yes" if v is new else "no"))
                self.ver = dict(v)
                return
        ctx.mismatch(sig + "/logd", carry, "after an in-place modification of the data the log-density is neither that of the old "
                     "nor that of the new data", [self.expected(self.case(v))[0] for v in (self.ver, new)], r[1])
        fc.call(lambda: setattr(self.lik(), "data", fc.vec(self.case()["logy"])))


def walks_for(who, fields, rot, seed, n_random, length):
    """operation sequences: W0 = every assignment forth and back (rotated order) with the FD flags toggled in between,
    then seeded random walks; `E` = evaluate without operation (cold / warm variants)."""
    fs = list(fields)
    fs = fs[rot % len(fs):] + fs[:rot % len(fs)]
    fds = ["lik"] + (["post"] if who == "post" else [])
    w0 = ["E"] + fs + ["fd_on:%s" % fds[rot % len(fds)]] + fs + ["fd_off:%s" % fds[rot % len(fds)]]
    cold = fs + fs[:1]                                 # assign everything BEFORE the first evaluation
    out = [("edges", w0, None), ("cold", cold, {len(cold) - 2, len(cold) - 1})]
    rng = random.Random(seed)
    for q in range(n_random):
        w, fd = [], {k: False for k in fds}
        for _ in range(length):
            u = rng.random()
            if u < 0.7:
                w.append(rng.choice(fs))
            elif u < 0.85:
                k = rng.choice(fds)
                w.append(("fd_off:%s" if fd[k] else "fd_on:%s") % k)
                fd[k] = not fd[k]
            elif who != "multi":
                w.append("inplace_data")
            else:
                w.append("E")
        out.append(("random%d" % q, w, {i for i in range(len(w)) if rng.random() < 0.7} | {len(w) - 1}))
    return out


def run_walk(ctx, key, states, who, form_idx, label, ops, eval_at):
    fc = _fc()
    carry = {"kind": "seqwalk", "key": list(key), "who": who, "form_idx": form_idx, "label": label, "ops": list(ops),
             "eval_at": sorted(eval_at) if eval_at is not None else None,
             "states": [states[k] for k in sorted(states)]}
    st, w, _ = fc.call(lambda: Walker(ctx, key, states, who, form_idx))
    if st == "raise":
        from cuqiverif.core import MachineryError
        if isinstance(w, MachineryError):
            raise w
        ctx.mismatch("seq/construct/%s/model=%s" % (who, key[2]), carry, "object of a documented configuration cannot be built: %r" % (w,))
        return
    for i, op in enumerate(ops):
        if op == "E":
            w.evaluate(carry, op, i)
            continue
        if op == "inplace_data":
            w.inplace_data(carry, i)
            continue
        if op.split(":")[0] not in FIELDS + ("fd_on", "fd_off") or (op in FIELDS and op not in w.fields):
            continue
        res = w.apply(op)
        if res == "refused":
            _obs(ctx, "seq_assignment_refused", "%s.%s" % (who, op))
        if eval_at is None or i in eval_at or res == "refused":
            w.evaluate(carry, op if res == "ok" else op + ":refused", i)
    ctx.traces += 1


def check_walks(ctx, groups):
    n_random, length = (1, 6) if ctx.tier == "quick" else (4, 10)
    nb = 0
    for bi, key in enumerate(sorted(groups)):
        states = groups[key]
        need = 16 if key[2] == "matrix" else 8
        if len(states) != need:
            from cuqiverif.core import MachineryError
            raise MachineryError("FamiliesSeq: base %r emitted %d of %d version vectors" % (key, len(states), need))
        c0 = states[(1, 1, 1, 1)]
        allf = [f["name"] for f in c0["fields"] if f["ok"]]
        for wi, who in enumerate(("lik", "post", "multi")):
            fields = [f for f in allf if not (who == "lik" and f == "pmean")]
            for label, ops, eval_at in walks_for(who, fields, bi + wi, (ctx.seed, bi, wi).__hash__() & 0xFFFFFF, n_random, length):
                run_walk(ctx, key, states, who, bi + wi + (0 if label == "edges" else 1), label, ops, eval_at)
        nb += 1
    ctx.observations["seq_bases_walked"] = nb


# ======================================================================================================================
def run(ctx, table, jobs):
    re_cases, sq_cases = collect_tlc(ctx, jobs)
    fc = _fc()
    re_cases = sorted(re_cases, key=lambda c: (fc.case_id({"cfg": c["cfg"]}), tuple(c["order"])))
    n = 0
    for i, c in enumerate(re_cases):
        if check_reassign(ctx, table, c, i):
            n += 1
    ctx.traces += n
    ctx.observations["seq_reassign_behaviours"] = n
    groups = group_bases(sq_cases)
    check_walks(ctx, groups)
    from cuqiverif.core import MachineryError
    if not ctx.facets.get("seq/reassign/warm") or not ctx.facets.get("seq/post") or not ctx.facets.get("seq/multi"):
        raise MachineryError("sequence facets were not exercised (%r)" % {k: v for k, v in ctx.facets.items() if k.startswith("seq/")})
    c = re_cases[len(re_cases) // 2]
    ctx.sample({"kind": "reassign_seq", "fam": c["fam"], "order": c["order"], "from": {k: c["from"][k] for k in ("par", "x", "grad")},
                "after": [{"assign": s["assign"], "x": s["expect"]["x"], "grad": s["expect"]["grad"]} for s in c["trail"]]})
    return re_cases          # the pairs of configurations of the Siblings facet (c03_round5)


def replay(ctx, table, case):
    if case["kind"] == "reassign_seq":
        check_reassign(ctx, table, case, case["idx"])
        return
    states = {tuple(c["ver"][f] for f in FIELDS): c for c in case["states"]}
    run_walk(ctx, tuple(case["key"]), states, case["who"], case["form_idx"], case["label"], case["ops"],
             set(case["eval_at"]) if case["eval_at"] is not None else None)
