"""C08: a NUTS transition that aborts - the target raises at the k-th evaluation of the transition.

Spec: specs/NutsAbort.tla (EXTENDS NutsSeq).  TLC enumerates, on the lattice of NutsSeq, every state in which a leaf is about
to be built (every leaf of every behaviour: every k) x the evaluation that raises (log-density | gradient of that leaf),
checks AbortCoherent / AbortPointDecided on the triple STORED on the sampler object (st = [p, lp, g]) and emits every abort
state: the draws made so far, the leaves built so far, the failing leaf t, the stored triple, the allowed points
{start, candidate selected so far} and the orbit ShiftId(orb, st.p) seen from the stored point.  Deviations StoreLate = {g} /
{lp} / {p} (an attribute written once after the doubling loop) are refuted; StoreLate = {p, lp, g} (everything written after
the loop = the aborted transition is rolled back) satisfies the invariants: both designs are valid.

Replay (experimental, stateful): fresh sampler on the table target - optionally ONE completed transition first (flat
tables; the abort then happens in the second transition of the object, in the frame of the shifted orbit) - then sample(1)
with the scripted draws of the abort state while the table raises at the first evaluation `ev` at the position of leaf t.
Afterwards
  (1) the leaves built before the failure are the spec's (otherwise the abort is not the modelled one),
  (2) current_point is on the table and is one of the allowed points,
  (3) current_target_logd / current_target_grad are the TABLE values at current_point (the specification's tables are the
      oracle of the coherence claim),
  (4) the NEXT transition of the same object, sample(1) again, is the behaviour of Nuts for the orbit seen from the stored
      point (ShiftLemma; same orbit for c = 0) with freshly scripted draws: leaves, sub-trees, selected point, caches,
      acceptance flag, statistic, step size - c08_seq.exp_transition.  A stale cached gradient / log-density changes the
      first leapfrog step / the slice of that transition.
Replay (legacy, stateless): the chain state lives in local variables of _sample and is lost with the exception; what
survives is the object (x0, max_depth, step size option, diagnostics).  Asserted: sample(3) on the SAME object after an
aborted sample(3) is the behaviour of a fresh sampler (c08_seq.legacy_call: first transition = behaviour of the orbit,
second = probe of the caches as used).  Nothing is asserted about the diagnostic lists of the aborted call.
How the exception surfaces is an observation.
"""
import json
import random

import numpy as np


class InjectedFailure(RuntimeError):
    """raised by an armed table target"""


def _mods():
    from cuqiverif import nuts_real as NR, c08_seq as SQ
    return NR, SQ


def _okey(orb):
    return json.dumps(orb)


DEVIATIONS = (("GradStoredAtEnd", "AbortCoherent"), ("LogdStoredAtEnd", "AbortCoherent"), ("PointStoredAtEnd", "AbortCoherent"))


def start_tlc(ctx):
    import concurrent.futures, os
    from cuqiverif import tlc as _tlc
    pool = concurrent.futures.ThreadPoolExecutor(max_workers=5)
    wd = lambda label: os.path.join(_tlc.WORK, "NutsAbort-c08-%s-%d" % (label, os.getpid()))      # noqa: E731
    kw = dict(timeout=1500, extra_modules=["NutsSeq.tla", "Nuts.tla"])
    jobs = {"abort": pool.submit(ctx.tlc, "NutsAbort", cfg="NutsAbort.%s.cfg" % ctx.tier, workers=4, workdir=wd("abort"), **kw),
            "rollback": pool.submit(ctx.tlc, "NutsAbort", cfg="NutsAbort.rollback.cfg", workers=2, workdir=wd("rollback"), **kw)}
    for name, _ in DEVIATIONS:
        jobs["dev_" + name] = pool.submit(ctx.tlc, "NutsAbort", cfg="NutsAbort.%s.deviation.cfg" % name, workers=1,
                                          expect_violation=True, workdir=wd(name), **kw)
    pool.shutdown(wait=False)
    return jobs


def discard(jobs):
    from cuqiverif import tlc
    for f in jobs.values():
        try:
            tlc.cleanup(f.result())
        except BaseException:      # noqa: BLE001
            pass


def collect_tlc(ctx, jobs):
    from cuqiverif import tlc
    from cuqiverif.core import MachineryError
    out, err = {}, None
    for k, f in jobs.items():
        try:
            out[k] = f.result()
        except BaseException as e:      # noqa: BLE001
            err = err or e
    if err is not None:
        for r in out.values():
            tlc.cleanup(r)
        raise err
    ctx.model_must_hold(out["abort"], "NutsAbort")
    ctx.model_must_hold(out["rollback"], "NutsAbort/rollback (all three attributes stored after the loop)")
    cases = [c for c in out["abort"].cases if c.get("kind") == "nutsabort"]
    bad = [(n, out["dev_" + n].violated) for n, inv in DEVIATIONS if out["dev_" + n].ok or out["dev_" + n].violated != inv]
    for r in out.values():
        tlc.cleanup(r)
    if bad:
        raise MachineryError("NutsAbort deviations did not violate AbortCoherent: %r (vacuous invariant)" % (bad,))
    for n, inv in DEVIATIONS:
        ctx.observations.setdefault("deviations_refuted_by_tlc", {})["NutsAbort/" + n] = inv
    if not cases:
        raise MachineryError("NutsAbort emitted no abort state")
    return cases


def armed_view(orbit, x_off=0.0, lp_off=0.0):
    """c08_seq.View whose look-ups can be armed: the first evaluation `ev` at the position of leaf t raises, once"""
    _, SQ = _mods()

    class ArmedView(SQ.View):
        armed, fired = None, 0

        def arm(self, t, ev):
            self.armed, self.fired = (t, ev), 0

        def disarm(self):
            self.armed = None
            return self.fired > 0

        def _hit(self, xx, ev):
            a = self.armed
            if a is not None and a[1] == ev and self.t_of(xx) == a[0]:
                self.armed = None
                self.fired += 1
                raise InjectedFailure("injected failure of the target evaluation (%s at leaf %d)" % (ev, a[0]))

        def _logpdf(self, xx):
            self._hit(xx, "lp")
            return super()._logpdf(xx)

        def _grad(self, xx):
            self._hit(xx, "grad")
            return super()._grad(xx)
    return ArmedView(orbit, x_off, lp_off)


def _sig(impl, clause, case, eps):
    return "abort/%s/%s/k=%d/ev=%s/md=%d/eps=%s" % (impl, clause, case["nl"], case["ev"], case["md"], eps)


def _pick(lst, rng, want_move=True, reach=3):
    if not lst:
        return None
    if want_move:
        mv = [c for c in lst if c["cur"] != 0 and abs(c["cur"]) <= reach]
        if mv:
            return rng.choice(mv)
    return rng.choice(lst)


def _abort_call(fn, view, script, default, stats, who):
    """run fn() under the scripted stream while `view` is armed -> outcome | raises MachineryError"""
    NR, _ = _mods()
    from cuqiverif.core import MachineryError
    try:
        with NR.scripted(script, default=default):
            try:
                fn()
                outcome = "returned"
            except InjectedFailure:
                outcome = "propagated"
            except (NR.ScriptError, MachineryError):
                raise
            except Exception as ex:      # noqa: BLE001
                if not view.fired:
                    raise
                outcome = "propagated_as_" + type(ex).__name__
    except NR.ScriptError as ex:
        raise MachineryError("%s asked for random draws the binding does not script: %s" % (who, str(ex)[:200]))
    d = stats["outcome"]
    d["%s: %s" % (who, outcome)] = d.get("%s: %s" % (who, outcome), 0) + 1
    return outcome


def replay_experimental(ctx, case, L, dirmap, rng, stats, pre=False, corrupt=None):
    """L: c08_seq.Lattice (orbits, behaviours, shift table of NutsSeq).  pre: one completed transition before the aborted one.
    corrupt (binding self-test only): name of the attribute made stale after the abort.  -> True when the abort was driven"""
    import cuqi
    from cuqiverif import zoo
    from cuqiverif.core import MachineryError
    NR, SQ = _mods()
    key, md = _okey(case["orb"]), case["md"]
    orbit = L.orbits.get(key)
    if orbit is None:
        raise MachineryError("NutsAbort emitted an abort state of an orbit NutsSeq did not emit: %s" % key)
    carry = dict(case, impl="experimental", pre=bool(pre), seed=ctx.seed)
    cls = NR.nuts_classes()["experimental"]
    a0 = 0                          # offset of the frame of the abort state in the frame of the object's table
    real = None
    with zoo.quiet():
        if pre:
            # a first, completed transition on an orbit whose continuation from the selected leaf is THIS orbit
            src = [(k0, c0) for k0, row in L.shift.items() for c0, (o2, ok) in row.items()
                   if ok and c0 != 0 and _okey(o2) == key and k0 in L.flat and (k0, md) in L.beh
                   and any(b["cur"] == c0 for b in L.beh[(k0, md)])]
            if not src:
                return False
            k0, c0 = rng.choice(sorted(src))
            first = rng.choice([b for b in L.beh[(k0, md)] if b["cur"] == c0])
            real = armed_view(L.orbits[k0])
            S = cuqi.experimental.mcmc.NUTS(real.distribution(), step_size=real.eps, max_depth=md, initial_point=np.array([real.x[0]]))
            out = SQ.exp_transition(S, first, real, real, dirmap)
            if out.mismatch:
                mm = out.mismatch
                ctx.mismatch(_sig("experimental", "before/" + mm[0], case, real.eps), dict(carry, first=first), "completed transition before "
                             "the aborted one: " + mm[1], mm[2], mm[3])
                return False
            # the object keeps its target `real`; `view` is the same table in the frame of the current point
            view = armed_view(orbit, real.x[c0])
            if not view.agrees_with(real, c0):
                raise MachineryError("ShiftLemma does not hold on the floats for %s shifted by %d" % (k0, c0))
            a0 = c0
            arm_t = case["t"] + c0
        else:
            real = armed_view(orbit)
            view, arm_t = real, case["t"]
            S = cuqi.experimental.mcmc.NUTS(real.distribution(), step_size=real.eps, max_depth=md, initial_point=np.array([real.x[0]]))
    eps = real.eps
    script = NR.build_script(case, dirmap)
    default = {"normal": lambda sh: np.full(sh, view.r[0]), "exponential": lambda sh: 1.0, "uniform": lambda sh: 1e-9}
    with NR.Tap(cls) as tap, zoo.quiet():
        real.off, real.watch = [], True
        real.arm(arm_t, case["ev"])
        try:
            outcome = _abort_call(lambda: S.sample(1), real, script, default, stats, "experimental.NUTS.sample")
        except MachineryError:
            raise
        except Exception as ex:      # noqa: BLE001
            ctx.mismatch(_sig("experimental", "error", case, eps), carry, "sample(1) raised %s: %s" % (type(ex).__name__, str(ex)[:160]))
            return False
        finally:
            fired = real.disarm()
            real.watch = False
        lf = list(tap.lf)
    built = [view.t_of(q["x1"]) for q in lf]
    if not fired or built != case["leaves"] or real.off:
        ctx.mismatch(_sig("experimental", "leaves", case, eps), carry,
                     "the transition did not build the leaves of the specification before the evaluation that raises (%s at leaf %d%s)" % (
                         case["ev"], case["t"], "" if fired else "; that evaluation was never made"),
                     expected=case["leaves"] + [case["t"]], observed=built)
        return False
    stats["driven"] += 1
    k = "k=%d/%s" % (case["nl"], case["ev"])
    stats["by_k"][k] = stats["by_k"].get(k, 0) + 1
    if case["st"]["p"] != 0:
        stats["spec_selected"] += 1
    if corrupt == "grad":
        S.current_target_grad = np.asarray(S.current_target_grad, dtype=float) + 1.0
    elif corrupt == "logd":
        S.current_target_logd = S.current_target_logd + 1.0
    # (2) the stored point
    pt = NR._f(S.current_point)
    c = view.t_of(pt)
    alts = [view.x[a] for a in case["alt"]]
    if c is None or c not in case["alt"]:
        ctx.mismatch(_sig("experimental", "point", case, eps), carry,
                     "after the aborted transition (%s) current_point is neither the start of the transition nor the candidate selected "
                     "so far" % outcome, expected=alts, observed=pt)
        return True
    # (3) coherence: the cached values are the table values at the stored point
    lp, gr = NR._f(S.current_target_logd), NR._f(S.current_target_grad)
    if lp != view.lp[c]:
        ctx.mismatch(_sig("experimental", "cache_logd", case, eps), carry,
                     "after a transition that aborted at evaluation %d (%s of leaf %d; %s) the cached log-density does not belong to "
                     "current_point (leaf %d)" % (case["nl"], case["ev"], case["t"], outcome, c), expected=view.lp[c], observed=lp)
        return True
    if gr != view.g[c]:
        ctx.mismatch(_sig("experimental", "cache_grad", case, eps), carry,
                     "after a transition that aborted at evaluation %d (%s of leaf %d; %s) the cached gradient does not belong to "
                     "current_point (leaf %d)" % (case["nl"], case["ev"], case["t"], outcome, c), expected=view.g[c], observed=gr)
        return True
    if c != 0:
        stats["selected_before_abort"] += 1
    if c != case["st"]["p"]:
        stats["other_allowed_point"] += 1
    # (4) the next transition of the same object
    if c == 0:
        key2 = key
    else:
        nxt = L.shift.get(key, {}).get(c)
        key2 = _okey(nxt[0]) if (case["flat"] and nxt is not None and nxt[1] and _okey(nxt[0]) in L.orbits) else None
    lst = L.beh.get((key2, md)) if key2 is not None else None
    if abs(a0 + c) > SQ.AMAX:
        lst = None                  # the next transition could leave the table the object was built on
    if not lst:
        stats["no_continuation_in_the_instance"] += 1
        return True
    nxt_case = _pick(lst, rng)
    view2 = armed_view(L.orbits[key2], view.x[c])
    if not view2.agrees_with(view, c):
        raise MachineryError("ShiftLemma does not hold on the floats for %s shifted by %d" % (key, c))
    with zoo.quiet():
        out = SQ.exp_transition(S, nxt_case, view2, real, dirmap)
    if out.mismatch:
        mm = out.mismatch
        ctx.mismatch(_sig("experimental", "resume/" + mm[0], case, eps), dict(carry, resumed=nxt_case, orbit2=L.orbits[key2]),
                     "transition after an aborted one (stored point = leaf %d): %s" % (c, mm[1]), mm[2], mm[3])
        return True
    stats["resumed"] += 1
    if c != 0:
        stats["resumed_from_selected"] += 1
    return True


def replay_legacy(ctx, case, L, dirmap, rng, stats):
    import cuqi
    from cuqiverif import zoo
    from cuqiverif.core import MachineryError
    NR, SQ = _mods()
    key, md = _okey(case["orb"]), case["md"]
    orbit = L.orbits.get(key)
    if orbit is None:
        raise MachineryError("NutsAbort emitted an abort state of an orbit NutsSeq did not emit: %s" % key)
    carry = dict(case, impl="legacy", seed=ctx.seed)
    real = armed_view(orbit)
    eps = real.eps
    with zoo.quiet():
        S = cuqi.sampler.NUTS(real.distribution(), x0=np.array([real.x[0]]), max_depth=md, adapt_step_size=real.eps)
    script = NR.build_script(case, dirmap)
    default = {"normal": lambda sh: np.full(sh, real.r[0]), "exponential": lambda sh: 1.0, "uniform": lambda sh: 1e-9}
    cls = NR.nuts_classes()["legacy"]
    with NR.Tap(cls) as tap, zoo.quiet():
        real.arm(case["t"], case["ev"])
        try:
            outcome = _abort_call(lambda: S.sample(3), real, script, default, stats, "sampler.NUTS.sample")
        except MachineryError:
            raise
        except Exception as ex:      # noqa: BLE001
            ctx.mismatch(_sig("legacy", "error", case, eps), carry, "sample(3) raised %s: %s" % (type(ex).__name__, str(ex)[:160]))
            return False
        finally:
            fired = real.disarm()
        lf = list(tap.lf)
    built = [real.t_of(q["x1"]) for q in lf]
    if not fired or built != case["leaves"]:
        ctx.mismatch(_sig("legacy", "leaves", case, eps), carry,
                     "the transition did not build the leaves of the specification before the evaluation that raises (%s at leaf %d%s)" % (
                         case["ev"], case["t"], "" if fired else "; that evaluation was never made"),
                     expected=case["leaves"] + [case["t"]], observed=built)
        return False
    stats["driven_legacy"] += 1
    lst = L.beh.get((key, md))
    if not lst:
        return True
    nxt_case = _pick(lst, rng)
    with zoo.quiet():
        out, _ = SQ.legacy_call(S, nxt_case, real, real, dirmap)
    if out.mismatch:
        mm = out.mismatch
        ctx.mismatch(_sig("legacy", "resume/" + mm[0], case, eps), dict(carry, resumed=nxt_case),
                     "sample() on the same object after a sample() that aborted (%s): %s" % (outcome, mm[1]), mm[2], mm[3])
        return True
    stats["resumed_legacy"] += 1
    return True


def new_stats():
    return {"outcome": {}, "driven": 0, "by_k": {}, "selected_before_abort": 0, "other_allowed_point": 0, "resumed": 0,
            "resumed_from_selected": 0, "no_continuation_in_the_instance": 0, "driven_legacy": 0, "resumed_legacy": 0,
            "with_a_completed_transition_before": 0, "spec_selected": 0}


def _stratum(c):
    return (c["md"], c["nl"], c["ev"], c["st"]["p"] != 0, c["flat"], c["orb"][4])


def select(cases, rng, limit):
    if limit is None or len(cases) <= limit:
        return list(cases)
    order = list(range(len(cases)))
    rng.shuffle(order)
    seen, pick, rest = set(), [], []
    for i in order:
        q = _stratum(cases[i])
        if q not in seen:
            seen.add(q)
            pick.append(i)
        else:
            rest.append(i)
    pick += rest[:max(0, limit - len(pick))]
    return [cases[i] for i in sorted(pick)]


def run(ctx, jobs, orbits, beh, shift, dirmap, guard):
    from cuqiverif.core import MachineryError
    _, SQ = _mods()
    cases = collect_tlc(ctx, jobs)
    rng = random.Random(7 + 104729 * ctx.seed)
    L = SQ.Lattice(orbits, beh, shift, rng)
    limit = None if ctx.tier == "quick" else 12000
    chosen = select(cases, rng, limit)
    stats = new_stats()
    rs = np.random.get_state()
    import time
    t0 = time.time()
    try:
        for n, c in enumerate(chosen):
            for impl in ("experimental", "legacy"):
                if impl == "legacy" and n % 2:
                    continue
                pre = impl == "experimental" and c["flat"] and n % 3 == 0
                ctx.case(("abort", impl, _okey(c["orb"]), c["md"], c["ed"], c["nl"], c["ev"], pre,
                          tuple((d["k"], d["cls"]) for d in c["draws"])), nontrivial=c["nl"] > 1, facet="abort/" + impl)
                try:
                    with guard(60):
                        if impl == "experimental":
                            done = replay_experimental(ctx, c, L, dirmap[impl], rng, stats, pre=pre)
                            if pre and not done and not ctx.violations:
                                done = replay_experimental(ctx, c, L, dirmap[impl], rng, stats, pre=False)
                            elif pre and done:
                                stats["with_a_completed_transition_before"] += 1
                        else:
                            replay_legacy(ctx, c, L, dirmap[impl], rng, stats)
                    ctx.traces += 1
                except MachineryError:
                    raise
                except BaseException as ex:      # noqa: BLE001
                    if type(ex).__name__ == "_Hang":
                        ctx.mismatch(_sig(impl, "hang", c, float(1.0 / c["orb"][4])), dict(c, impl=impl),
                                     "an aborted transition and its continuation did not terminate within 60 s of CPU time")
                    else:
                        raise
        # binding self-test: a cache made stale through the public attribute after the abort must be reported
        tested = 0
        for attr, clause in (("grad", "/cache_grad/"), ("logd", "/cache_logd/")):
            c = next((q for q in chosen if q["st"]["p"] != 0), chosen[0])

            class Col:
                hits = []

                def mismatch(self, sig, *a, **k):
                    self.hits.append(sig)
                seed, violations = ctx.seed, 0
            col = Col()
            col.hits = []
            replay_experimental(col, c, L, dirmap["experimental"], random.Random(1), new_stats(), corrupt=attr)
            if not any(clause in h for h in col.hits) and not ctx.violations:
                raise MachineryError("binding self-test: a stale cached %s after an aborted transition was not reported (%r)" % (attr, col.hits))
            tested += 1
    finally:
        np.random.set_state(rs)
    ctx.observe("abort", {"abort_states_emitted": len(cases), "replayed": len(chosen), "experimental_aborts_driven": stats["driven"],
                          "by_evaluation": stats["by_k"], "aborts_after_a_candidate_was_selected": stats["spec_selected"],
                          "stored_point_is_a_candidate_selected_before_the_abort": stats["selected_before_abort"],
                          "real_state_is_the_other_allowed_point": stats["other_allowed_point"],
                          "continued_on_the_same_object": stats["resumed"], "of_these_from_a_selected_candidate": stats["resumed_from_selected"],
                          "aborted_in_the_second_transition_of_the_object": stats["with_a_completed_transition_before"],
                          "continuation_outside_the_instance": stats["no_continuation_in_the_instance"],
                          "legacy_aborts_driven": stats["driven_legacy"], "legacy_sample_again_on_the_same_object": stats["resumed_legacy"],
                          "binding_selftest": "%d stale caches planted after an abort were reported" % tested,
                          "wall_s": round(time.time() - t0, 1)})
    ctx.observe("exception_of_the_target_during_a_transition", stats["outcome"])
    if not ctx.violations:
        ks = {(c["nl"], c["ev"]) for c in cases}
        missing = [k for k in ks if not stats["by_k"].get("k=%d/%s" % k)]
        # (a sampler that rolls an aborted transition back is at the start of the transition instead of the selected candidate)
        if missing or not stats["spec_selected"] or not (stats["resumed_from_selected"] or stats["other_allowed_point"]) \
                or not stats["resumed"] or not stats["resumed_legacy"] or not stats["with_a_completed_transition_before"]:
            raise MachineryError("abort facet vacuous: %r (evaluations never aborted: %r)" % (stats, missing))
    return cases


def replay(ctx, case, orbits, beh, shift, dirmap, guard):
    _, SQ = _mods()
    rng = random.Random(7 + 104729 * case.get("seed", ctx.seed))
    L = SQ.Lattice(orbits, beh, shift, rng)
    with guard(60):
        if case["impl"] == "legacy":
            replay_legacy(ctx, case, L, dirmap["legacy"], rng, new_stats())
        else:
            replay_experimental(ctx, case, L, dirmap["experimental"], rng, new_stats(), pre=case.get("pre", False))
