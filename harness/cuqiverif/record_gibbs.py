"""Recorder for both Gibbs samplers (C09): one trace per HybridGibbs / legacy Gibbs object.

Events (logged after the wrapped call returned unless stated):
  init(order, kinds, steps, vals)            after HybridGibbs.__init__ / at the first legacy Gibbs.sample
  call(op, n)                                at the start of sample / warmup
  sweep_begin                                at the start of step()
  set_target(others={name: vid})             the keyword values ACTUALLY passed to joint._condition by the Gibbs sampler
  block_step(block, start, pid, cache_ok, tgt_ok)
                                             one transition of the block's sampler; both flags evaluated BEFORE the transition.
                                             cache_ok: cached log-density / gradient / likelihood equal a fresh evaluation at the
                                             sampler's current point under the sampler's CURRENT target
                                             tgt_ok: the target the block's sampler HOLDS has, between the sampler's point and a
                                             second point, the same log-density difference as the Gibbs sampler's own joint
                                             conditioned afresh on the current values of all other blocks (the conditioning
                                             call alone does not show that its result was handed to the sampler that makes
                                             the transition; additive constants play no role)
  sweep_end(vals)                            current_samples after the sweep
  store(vals)                                the tuple appended to the stored samples
"""
import numpy as np

from .record import Recorder, vid, all_subclasses

CACHED = {"MH", "CWMH", "PCN", "MALA", "ULA"}


def kind_of(sampler):
    n = type(sampler).__name__ if not isinstance(sampler, type) else sampler.__name__
    if n in CACHED:
        return "Cached"
    if n == "NUTS":
        return "Reinit"
    return "Exact"


def _close(a, b):
    try:
        a, b = np.asarray(a, dtype=float), np.asarray(b, dtype=float)
        return a.shape == b.shape and np.allclose(a, b, rtol=1e-9, atol=1e-12, equal_nan=True)
    except Exception:
        return False


def cache_ok(s):
    """cached evaluations of a stateful sampler belong to its current point and current target"""
    ok = True
    pt = getattr(s, "current_point", None)
    if pt is None:
        return True
    name = type(s).__name__
    if name == "PCN":
        if getattr(s, "current_likelihood_logd", None) is not None and hasattr(s, "_loglikelihood"):
            ok = ok and _close(s.current_likelihood_logd, s._loglikelihood(pt))
        return ok
    if getattr(s, "current_target_logd", None) is not None and name in CACHED | {"NUTS"}:
        ok = ok and _close(np.asarray(s.current_target_logd).reshape(-1)[0], np.asarray(s.target.logd(pt)).reshape(-1)[0])
    if getattr(s, "current_target_grad", None) is not None and name in CACHED | {"NUTS"}:
        ok = ok and _close(s.current_target_grad, s.target.gradient(pt))
    return bool(ok)


def target_ok(rec, g, block, held_target, pt, current):
    """held_target and g.target(**{other: current[other]}) have the same log-density difference between pt and a second
    point; True when that cannot be evaluated"""
    side = rec.side(g)
    try:
        others = {n: current[n] for n in g.par_names if n != block}
        side["probing"] = True
        try:
            fresh = g.target(**others)
        finally:
            side["probing"] = False
        if np.ndim(pt) == 0:
            pt = np.asarray(pt, dtype=float).reshape(1)       # scalar blocks (conjugate draws) as 1-vectors
        # the conditional LAW is what the property speaks of: compare log-density DIFFERENCES between two points, so that an
        # additive constant (how constants of the fixed variables are folded in) plays no role
        pt = np.asarray(pt, dtype=float)
        pt2 = pt + 0.125 * (np.abs(pt) + 1.0)          # stays inside a positive support
        f1, f2 = (np.asarray(fresh.logd(q), dtype=float).reshape(-1)[0] for q in (pt, pt2))
        h1, h2 = (np.asarray(held_target.logd(q), dtype=float).reshape(-1)[0] for q in (pt, pt2))
        if not all(np.isfinite(v) for v in (f1, f2, h1, h2)):
            rec.tgt_unknown = getattr(rec, "tgt_unknown", 0) + 1
            return True
        a, b = f2 - f1, h2 - h1
        return bool(abs(a - b) <= 1e-8 * max(1.0, abs(a), abs(b), abs(f1), abs(h1)))
    except Exception:
        rec.tgt_unknown = getattr(rec, "tgt_unknown", 0) + 1      # e.g. implicit priors without a log-density: no verdict
        return True


def install_gibbs(rec):
    import cuqi
    from cuqi.experimental.mcmc import HybridGibbs, Sampler
    from cuqi.sampler import Gibbs as LegacyGibbs
    from cuqi.sampler import Sampler as LegacySampler
    from cuqi.distribution import JointDistribution
    from cuqiverif.core import MachineryError
    for cls, names in ((HybridGibbs, ("step", "_set_target", "_store_samples", "sample", "warmup")),
                       (LegacyGibbs, ("step", "sample", "_store_samples", "_get_initial_points")),
                       (JointDistribution, ("_condition",)), (LegacySampler, ("step",))):
        for n in names:
            if n not in cls.__dict__:
                raise MachineryError("recorder target %s.%s is missing" % (cls.__name__, n))
    targets = {}          # id(joint copy held by a Gibbs sampler) -> (joint, gibbs)   (strong refs: ids stay unique)
    rec._gibbs_current_legacy = None
    rec.copies = {}       # trace key -> list of deep-copied post-sweep tuples (for value-level comparison)

    def vals_of(d, names):
        return {n: vid(d[n]) for n in names}

    # ---- HybridGibbs -------------------------------------------------------------------------------------
    def mk_init(orig):
        def wrapper(self, *a, **k):
            rec.side(self)["constructing"] = True
            # the step counts AS CONFIGURED by the caller (documented default: 1 for every block not listed), read before
            # the constructor runs - it fills the caller's dict in place; what the sampler then does is compared with these
            given = k.get("num_sampling_steps", a[2] if len(a) > 2 else None)
            try:
                given = dict(given) if given is not None else {}
            except Exception:
                given = None
            try:
                orig(self, *a, **k)
            finally:
                rec.side(self)["constructing"] = False
            targets[id(self.target)] = (self.target, self)
            for b, s in self.samplers.items():
                rec.side(s)["gibbs"] = (self, b)
            rec.emit(self, {"e": "init", "order": list(self.par_names),
                            "kinds": {b: kind_of(self.samplers[b]) for b in self.par_names},
                            "classes": {b: type(self.samplers[b]).__name__ for b in self.par_names},
                            "steps": {b: int(given.get(b, 1)) if given is not None else int(self.num_sampling_steps[b])
                                      for b in self.par_names},
                            "vals": vals_of(self.current_samples, self.par_names)}, iface="HybridGibbs")
        return wrapper
    rec.patch(HybridGibbs, "__init__", mk_init)

    def mk_call(op):
        def mk(orig):
            def wrapper(self, *a, **k):
                # the count may be passed by keyword (sample(Ns=..), warmup(Nb=..)): never change how a call binds
                n = a[0] if a else k.get("Ns", k.get("Nb", -1))
                try:
                    n = int(n)
                except Exception:
                    n = -1
                rec.emit(self, {"e": "call", "op": op, "n": n})
                return orig(self, *a, **k)
            return wrapper
        return mk
    rec.patch(HybridGibbs, "sample", mk_call("sample"))
    rec.patch(HybridGibbs, "warmup", mk_call("warmup"))

    def mk_hstep(orig):
        def wrapper(self):
            rec.emit(self, {"e": "sweep_begin"})
            ok = False
            try:
                out = orig(self)
                ok = True
                return out
            finally:
                if ok:
                    rec.emit(self, {"e": "sweep_end", "vals": vals_of(self.current_samples, self.par_names)})
                    rec.copies.setdefault(rec.key(self), []).append(
                        {n: np.array(self.current_samples[n], dtype=float, copy=True).reshape(-1) for n in self.par_names})
                else:
                    rec.close(self)
        return wrapper
    rec.patch(HybridGibbs, "step", mk_hstep)

    def mk_hstore(orig):
        def wrapper(self):
            orig(self)
            rec.emit(self, {"e": "store", "vals": {n: vid(self.samples[n][-1]) for n in self.par_names}})
        return wrapper
    rec.patch(HybridGibbs, "_store_samples", mk_hstore)

    # the conditioning call: what the Gibbs sampler really passes to the joint
    def mk_cond(orig):
        def wrapper(self, *args, **kwargs):
            out = orig(self, *args, **kwargs)
            ent = targets.get(id(self))
            if ent is not None and ent[0] is self and not args:
                g = ent[1]
                if not rec.side(g).get("constructing", False) and not rec.side(g).get("probing", False):
                    names = list(g.par_names)
                    if set(kwargs) <= set(names) and len(kwargs) == len(names) - 1:
                        rec.side(g)["curblock"] = [n for n in names if n not in kwargs][0]
                        rec.emit(g, {"e": "set_target", "others": {n: vid(v) for n, v in kwargs.items()}})
            return out
        return wrapper
    rec.patch(JointDistribution, "_condition", mk_cond)

    # block sampler transitions (stateful samplers inside HybridGibbs)
    def mk_sstep(orig):
        def wrapper(self, *a, **k):
            st = rec.side(self)
            tag = st.get("gibbs")
            if tag is None or st.get("in_gstep", 0):
                return orig(self, *a, **k)
            g, b = tag
            st["in_gstep"] = 1
            try:
                try:
                    ok = cache_ok(self)
                except Exception:
                    ok = True          # facet could not be evaluated: never an alarm
                tok = target_ok(rec, g, b, self.target, self.current_point, g.current_samples)
                start = vid(self.current_point)
                out = orig(self, *a, **k)
                rec.emit(g, {"e": "block_step", "block": b, "start": start, "pid": vid(self.current_point), "cache_ok": bool(ok),
                             "tgt_ok": bool(tok)})
                return out
            finally:
                st["in_gstep"] = 0
        return wrapper
    for cls in [Sampler] + all_subclasses(Sampler):
        if "step" in cls.__dict__ and not getattr(cls.__dict__["step"], "__isabstractmethod__", False):
            rec.patch(cls, "step", mk_sstep)

    # ---- legacy Gibbs ---------------------------------------------------------------------------------------
    def mk_lsample(orig):
        def wrapper(self, Ns, Nb=0):
            if id(self.target) not in targets:
                targets[id(self.target)] = (self.target, self)
                init = self._get_initial_points()
                rec.emit(self, {"e": "init", "order": list(self.par_names),
                                "kinds": {b: "Exact" for b in self.par_names},
                                "classes": {b: getattr(self.samplers[b], "__name__", str(self.samplers[b])) for b in self.par_names},
                                "steps": {b: 1 for b in self.par_names},
                                "vals": vals_of(init, self.par_names)}, iface="legacy.Gibbs")
            rec.emit(self, {"e": "call", "op": "sample", "n": int(Ns) + int(Nb)})
            return orig(self, Ns, Nb)
        return wrapper
    rec.patch(LegacyGibbs, "sample", mk_lsample)

    def mk_lstep(orig):
        def wrapper(self, current_samples):
            rec.emit(self, {"e": "sweep_begin"})
            rec.side(self)["cur"] = current_samples          # updated in place by the sweep: the current values of all blocks
            prev, rec._gibbs_current_legacy = rec._gibbs_current_legacy, self
            try:
                out = orig(self, current_samples)
            except BaseException:
                rec.close(self)
                raise
            finally:
                rec._gibbs_current_legacy = prev
            rec.emit(self, {"e": "sweep_end", "vals": vals_of(out, self.par_names)})
            rec.copies.setdefault(rec.key(self), []).append(
                {n: np.array(out[n], dtype=float, copy=True).reshape(-1) for n in self.par_names})
            return out
        return wrapper
    rec.patch(LegacyGibbs, "step", mk_lstep)

    def mk_lstore(orig):
        def wrapper(self, samples, current_samples, i):
            orig(self, samples, current_samples, i)
            rec.emit(self, {"e": "store", "vals": {n: vid(samples[n][:, i]) for n in self.par_names}})
        return wrapper
    rec.patch(LegacyGibbs, "_store_samples", mk_lstore)

    def mk_lsstep(orig):
        def wrapper(self, x):
            g = rec._gibbs_current_legacy
            if g is None:
                return orig(self, x)
            rec._gibbs_current_legacy = None      # nested sample() calls inside step are not Gibbs-level events
            try:
                blk = rec.side(g).get("curblock", "?")
                cur = rec.side(g).get("cur")
                tok = target_ok(rec, g, blk, self.target, x, cur) if cur is not None and blk in cur else True
                start = vid(x)
                out = orig(self, x)
            finally:
                rec._gibbs_current_legacy = g
            rec.emit(g, {"e": "block_step", "block": blk, "start": start, "pid": vid(out), "cache_ok": True, "tgt_ok": bool(tok)})
            return out
        return wrapper
    rec.patch(LegacySampler, "step", mk_lsstep)
    for cls in all_subclasses(LegacySampler):
        if "step" in cls.__dict__:
            rec.patch(cls, "step", mk_lsstep)
    # the legacy conjugate samplers are not subclasses of cuqi.sampler.Sampler
    for nm in ("Conjugate", "ConjugateApprox"):
        cls = getattr(cuqi.sampler, nm, None)
        if cls is not None and "step" in cls.__dict__ and not issubclass(cls, LegacySampler):
            def mk_cstep(orig):
                def wrapper(self, x=None):
                    g = rec._gibbs_current_legacy
                    tok = True
                    if g is not None:
                        blk = rec.side(g).get("curblock", "?")
                        cur = rec.side(g).get("cur")
                        if cur is not None and blk in cur:
                            tok = target_ok(rec, g, blk, self.target, x if x is not None else cur[blk], cur)
                    out = orig(self, x)
                    if g is not None:
                        rec.emit(g, {"e": "block_step", "block": rec.side(g).get("curblock", "?"), "start": vid(x),
                                     "pid": vid(out), "cache_ok": True, "tgt_ok": bool(tok)})
                    return out
                return wrapper
            rec.patch(cls, "step", mk_cstep)
    return rec
