"""Single source of truth for MANIFEST.json.

Each entry of PROPS describes one listed property.  `claimed=False` puts the
property under `not_applicable` with `reason`.  Run /verif/tools_gen_manifest.py
after editing.
"""
import json, os

ROOT = os.path.dirname(os.path.dirname(os.path.dirname(os.path.abspath(__file__))))
PY = "/venv/bin/python"

BASELINE_CMD = ("cd /repo && /venv/bin/python -m pytest -ra -q -p no:cacheprovider --timeout=900 "
                "--continue-on-collection-errors")

# id -> dict(claimed, engine, text, note, technique, design_ref, reason)
PROPS = {}


def prop(pid, **kw):
    PROPS[pid] = kw


_NOT_YET = "check not built yet in this round (work in progress; see DESIGN.md section 5)"
for _i in range(1, 21):
    prop("C%02d" % _i, claimed=False, reason=_NOT_YET)


# properties whose check has been integrated and verified by the integrator (others stay under not_applicable
# even if a props/<id>.py with META exists - it may be work in progress)
READY = {"C%02d" % i for i in range(1, 21)}


def _load_overrides():
    # property modules register themselves in props/<id>.py via META dicts
    import importlib
    for pid in list(PROPS):
        modname = "cuqiverif.props.%s" % pid.lower()
        path = os.path.join(ROOT, "harness", "cuqiverif", "props", pid.lower() + ".py")
        if not os.path.exists(path) or pid not in READY:
            continue
        # read META without importing heavy deps: META is a literal dict assigned at top of file
        src = open(path).read()
        import ast
        tree = ast.parse(src)
        for node in tree.body:
            if isinstance(node, ast.Assign) and any(getattr(t, "id", None) == "META" for t in node.targets):
                meta = ast.literal_eval(node.value)
                PROPS[pid] = dict(meta)
                break


def manifest():
    _load_overrides()
    checks, na = [], []
    for pid in sorted(PROPS):
        m = PROPS[pid]
        if not m.get("claimed"):
            na.append({"property_id": pid, "reason": m.get("reason", _NOT_YET)})
            continue
        checks.append({
            "property_id": pid,
            "quick_cmd": "%s check.py %s --tier quick" % (PY, pid),
            "thorough_cmd": "%s check.py %s --tier thorough" % (PY, pid),
            "evidence_file": "/verif/evidence/%s.json" % pid,
            "replay_cmd_template": "%s check.py %s --replay {path}" % (PY, pid),
            "engine": m["engine"],
            "level_claimed": {"category": "model_checking", "text": m["text"],
                              "design_ref": m.get("design_ref", "DESIGN.md section 5, " + pid)},
            "level_note": m["note"],
            "technique": m["technique"],
        })
    engines = {}
    for c in checks:
        engines.setdefault(c["engine"], []).append(c["property_id"])
    man = {
        "version": 1,
        "setup_cmd": "mkdir -p evidence replays .work",
        "hooks": {
            "guard": "CUQIPY_VERIF",
            "enable": ("no source hooks: checks import cuqi from /repo's working tree in a fresh process and install "
                       "harness-side wrappers / scripted numpy.random functions there (CUQIPY_VERIF=1 is set by check.py "
                       "for its own recorders only)"),
            "baseline_off_cmd": BASELINE_CMD,
            "source_commits": [],
            "add_only": True,
        },
        "engines": [{"name": e, "path": "/verif/specs", "serves_properties": ps,
                     "kind_free_text": "explicit TLA+ specification checked with TLC; behaviours/cases emitted by TLC are "
                                       "replayed into the real code and recorded executions are validated against the spec"}
                    for e, ps in sorted(engines.items())],
        "checks": checks,
        "not_applicable": na,
        "notes": ("All checks: /venv/bin/python check.py <ID> --tier quick|thorough. Exit 0 = held, 1 = VIOLATION line, "
                  "2 = machinery failure. Known findings: /verif/known_findings.json."),
    }
    return man


if __name__ == "__main__":
    print(json.dumps(manifest(), indent=1))
