"""C15, replay of specs/MapScale.tla.

kind scale  : linear-Gaussian problems in other physical units (operator x 2^a, unknown x 2^k, data / noise consistently): closed-form
              MAP and the direct Gaussian sampler against 2^k mu_post / 4^k Lambda^-1 of the spec (ScalingLaw); powers of two keep the
              real inputs exact in binary floating point, so the tolerances are those of the unscaled cases, relative to the units.
kind nograd : optimisation route WITHOUT exact gradient (forward model a plain function / prior without gradient), n = 3 .. 32, concave
              quadratic log-posterior with the constructed exact maximiser xs: the spec's optimality conditions at the returned point.
"""
import numpy as np

RTOL_DIRECT = 1e-7
GTOL = 1e-4             # 10 x the documented termination tolerance of scipy.optimize.minimize's default method (BFGS, gtol = 1e-5,
                        # max-norm of the - here finite-difference - gradient)
FD_STEP = 1.5e-8        # scipy's 2-point finite-difference step (sqrt of machine epsilon)


def _L():
    from cuqiverif import lingauss_common as L
    return L


def _outcome(ctx, key):
    d = ctx.observations.setdefault("outcomes", {})
    d[key] = d.get(key, 0) + 1


def _flagged(info):
    return isinstance(info, dict) and "success" in info and not bool(info["success"])


# ------------------------------------------------------------------------------------------------------------------
def _scale_key(c):
    return (str(c["A"]), c["nf"], c["pf"], c["mdl"], c["geo"])


def _scale_build(c, a, k):
    import cuqi
    L = _L()
    m, n = c["m"], c["n"]
    A = L.qnp(c["A"]) * 2.0 ** a
    y = L.qnp(c["y"]) * 2.0 ** (a + k)
    Ce = L.qnp(c["Ce_q"]) * 4.0 ** (a + k)
    C0 = L.qnp(c["C0_q"]) * 4.0 ** k
    mu0 = L.qnp(c["mu0"]) * 2.0 ** k
    geom = None
    if c["geo"] == "scale":
        geom = cuqi.geometry.MappedGeometry(cuqi.geometry.Continuous1D(n), map=lambda v: 2 * v, imap=lambda v: v / 2)
        E = np.array([np.asarray(geom.par2fun(e), dtype=float) for e in np.eye(n)]).T
        if not np.array_equal(E, L.qnp(c["E"])):
            raise L.MachineryError("par2fun of the mapped geometry is not the matrix E assumed by the spec")
    model = L.linear_model(A, c["mdl"], domain_geometry=geom)
    cov0 = float(C0[0, 0]) if c["pf"] == "scalar" else C0
    cove = float(Ce[0, 0]) if c["nf"] == "scalar" else Ce
    x = cuqi.distribution.Gaussian(mu0, cov=cov0, geometry=geom if geom is not None else n, name="x")
    yd = cuqi.distribution.Gaussian(model(x), cov=cove, name="y")
    return cuqi.problem.BayesianProblem(x, yd).set_data(y=y)


def check_scale(ctx, cases):
    L = _L()
    groups = {}
    for c in cases:
        g = groups.setdefault(_scale_key(c), [c, set()])
        g[1].add(tuple(c["sc"]))
        g[1].update(tuple(p) for p in c["scales"])
    for key in sorted(groups):
        c, pairs = groups[key]
        mu0, cov0 = L.qnp(c["mu_q"]), L.qnp(c["cov_q"])
        for a, k in sorted(pairs, key=lambda p: (abs(p[0]) + abs(p[1]), p)):
            mu, cov = mu0 * 2.0 ** k, cov0 * 4.0 ** k
            tag = "geom=%s/model=%s/noise=%s/prior=%s/m=%d/a=%d/k=%d" % (c["geo"], c["mdl"], c["nf"], c["pf"], c["m"], a, k)
            carry = dict(c, pair=[a, k])
            try:
                with L.quiet():
                    BP = _scale_build(c, a, k)
            except L.MachineryError:
                raise
            except Exception:
                _outcome(ctx, "scale/build/error")
                continue
            ctx.case(("scale", "map", tag), facet="scale/map")
            try:
                with L.quiet():
                    xm = BP.MAP()
                info = getattr(xm, "info", None)
                xm = np.asarray(xm, dtype=float).ravel()
            except Exception:
                xm = None
                _outcome(ctx, "scale/MAP/error")
            if xm is not None:
                direct = isinstance(info, dict) and info.get("solver") == "direct"
                if xm.shape != mu.shape or not np.all(np.isfinite(xm)):
                    ctx.mismatch("scale/map/shape/" + tag, carry, "MAP estimate is not a finite parameter vector", expected=mu, observed=xm)
                elif direct:
                    _outcome(ctx, "scale/MAP/estimate/direct")
                    if L.rel_err(xm, mu, scale=2.0 ** k) > RTOL_DIRECT:
                        ctx.mismatch("scale/map/direct/" + tag, carry, "closed-form MAP of the linear-Gaussian problem in units operator x 2^%d, unknown x 2^%d "
                                     "is not 2^%d x the posterior mean of the problem as given (spec: ScalingLaw)" % (a, k, k), expected=mu, observed=xm)
                else:
                    # scipy's termination tolerance is absolute (gtol): not a statement about other units; judged only for the problem as given
                    _outcome(ctx, "scale/MAP/estimate/optimise")
                    if (a, k) == (0, 0) and not _flagged(info) and L.rel_err(xm, mu) > 1e-3:
                        ctx.mismatch("scale/map/optimise/" + tag, carry, "MAP estimate is not the maximiser of the posterior", expected=mu, observed=xm)
            ctx.case(("scale", "sample", tag), facet="scale/sample")

            def draw(items):
                with L.scripted({"normal": list(items)}), L.quiet():
                    s = BP.sample_posterior(1)
                return np.asarray(s.samples, dtype=float)[:, -1]
            try:
                off, T, N = L.affine_readoff(draw)
            except L.ScriptError:
                _outcome(ctx, "scale/sample/other-route")
                continue
            except Exception:
                _outcome(ctx, "scale/sample/error")
                continue
            _outcome(ctx, "scale/sample/draws")
            if L.rel_err(off, mu, scale=2.0 ** k) > RTOL_DIRECT:
                ctx.mismatch("scale/sample/offset/" + tag, carry, "direct Gaussian sampling of the problem in units operator x 2^%d, unknown x 2^%d: the draw "
                             "for perturbation 0 is not 2^%d x the posterior mean of the problem as given (spec: ScalingLaw)" % (a, k, k), expected=mu, observed=off)
            if L.rel_err(T @ T.T, cov, scale=1e-3 * 4.0 ** k) > RTOL_DIRECT:
                ctx.mismatch("scale/sample/cov/" + tag, carry, "direct Gaussian sampling of the problem in other units: L L^T is not 4^%d Lambda^-1" % k,
                             expected=cov, observed=T @ T.T)


# ------------------------------------------------------------------------------------------------------------------
def _ng_problem(c):
    import cuqi
    L = _L()
    n, pe, px = int(c["n"]), float(c["pe"]), float(c["px"])
    A = np.eye(n) - 0.5 * np.eye(n, k=1)
    y, mu0 = L.qnp(c["y_q"]), L.qnp(c["mu_q"])
    if c["mdl"] == "nograd":
        model = cuqi.model.Model(lambda x: A @ np.asarray(x, dtype=float), range_geometry=n, domain_geometry=n)
    else:
        model = cuqi.model.Model(lambda x: A @ np.asarray(x, dtype=float), range_geometry=n, domain_geometry=n, jacobian=lambda x: A)
    if c["prior"] == "cov":
        x = cuqi.distribution.Gaussian(mu0, cov=1.0 / px, name="x")
    elif c["prior"] == "prec":
        x = cuqi.distribution.Gaussian(mu0, prec=px * np.eye(n), name="x")
    else:
        x = cuqi.distribution.Gaussian(mu0, sqrtprec=np.sqrt(px) * np.eye(n), name="x")
    yd = cuqi.distribution.Gaussian(model(x), cov=1.0 / pe, name="y")
    return cuqi.problem.BayesianProblem(x, yd).set_data(y=y), A, y, mu0


def check_nograd(ctx, cases):
    L = _L()
    judged = {}
    for c in sorted(cases, key=lambda c: (c["n"], c["which"], c["prior"], c["mdl"], c["px"], c["rk"])):
        n, pe, px = int(c["n"]), float(c["pe"]), float(c["px"])
        tag = "%s/n=%d/prior=%s/model=%s/px=%d/rk=%d" % (c["which"], n, c["prior"], c["mdl"], c["px"], c["rk"])
        ctx.case(("nograd", tag), facet="nograd/%s/n=%d" % (c["which"], n))
        try:
            with L.quiet():
                BP, A, y, mu0 = _ng_problem(c)
                # is this really the route without exact gradient?  (the spec's configuration says so; the objects must agree)
                target = BP.posterior if c["which"] == "MAP" else BP.likelihood
                try:
                    target.gradient(np.ones(n))
                    has_grad = True
                except (NotImplementedError, AttributeError):
                    has_grad = False
                est = BP.MAP() if c["which"] == "MAP" else BP.ML()
            info = getattr(est, "info", None)
            xm = np.asarray(est, dtype=float).ravel()
        except Exception:
            _outcome(ctx, "nograd/%s/error" % c["which"])
            continue
        _outcome(ctx, "nograd/%s/%s" % (c["which"], "exact-gradient-available" if has_grad else "no-gradient"))
        if _flagged(info):
            _outcome(ctx, "nograd/%s/flagged-unsuccessful/n=%d" % (c["which"], n))
            continue
        xs = L.qnp(c["xstar_q"])
        if c["which"] == "MAP":
            g = pe * A.T @ (A @ xm - y) + px * (xm - mu0) if xm.shape == (n,) else None
            lam = float(L.qval(c["lam_post_q"]))
            hmax = pe * 1.25 + px
        else:
            g = pe * A.T @ (A @ xm - y) if xm.shape == (n,) else None
            lam = float(L.qval(c["lam_lik_q"]))
            hmax = pe * 1.25
        # BFGS stops when the max-norm of the FINITE-DIFFERENCE gradient is <= 1e-5; forward differences of a quadratic are off by
        # step/2 x H_ii <= 1e-8 hmax per component, far below the factor 10 of GTOL; |x - xs|_2 <= |g|_2 / lambda_min(Hessian),
        # lambda_min from the spec (Curvature)
        if not FD_STEP * hmax < 0.1 * GTOL:
            raise L.MachineryError("finite-difference error of the gradient is not negligible against GTOL")
        tolx = np.sqrt(n) * GTOL / lam
        judged[(c["which"], n)] = judged.get((c["which"], n), 0) + 1
        if g is None or not np.all(np.isfinite(xm)) or float(np.max(np.abs(g))) > GTOL or float(np.max(np.abs(xm - xs))) > tolx:
            ctx.mismatch("nograd/" + tag, dict(c), "%s estimate of a concave quadratic problem solved WITHOUT exact gradient is not the maximiser: the spec's "
                         "gradient at the returned point exceeds 10 x the documented termination tolerance (1e-5) of the default solver, or the "
                         "point is farther from the exact maximiser than sqrt(n) 1e-4 / lambda_min" % c["which"],
                         expected={"x": xs, "max|gradient|": "<= %g" % GTOL, "max|x - xs|": "<= %.2e" % tolx},
                         observed={"x": xm, "max|gradient|": None if g is None else float(np.max(np.abs(g))),
                                   "max|x - xs|": None if g is None else float(np.max(np.abs(xm - xs))),
                                   "nit": info.get("nit") if isinstance(info, dict) else None,
                                   "message": str(info.get("message")) if isinstance(info, dict) else None})
    ctx.observe("nograd_judged", {"%s/n=%d" % k: v for k, v in sorted(judged.items())})
    return judged
