"""pytest plugin: record the repository's own tests (guard CUQIPY_VERIF=1; output path CUQIVERIF_TRACE_OUT).

  cd /repo && CUQIPY_VERIF=1 CUQIVERIF_TRACE_OUT=/verif/.work/x.json CUQIVERIF_RECORD=life \
      PYTHONPATH=/verif/harness /venv/bin/python -m pytest -p cuqiverif.pytest_recorder tests/zexperimental/test_mcmc.py
"""
import os

_rec = None


def pytest_configure(config):
    global _rec
    if os.environ.get("CUQIPY_VERIF") != "1" or not os.environ.get("CUQIVERIF_TRACE_OUT"):
        return
    from cuqiverif import record
    _rec = record.Recorder(max_events_per_trace=int(os.environ.get("CUQIVERIF_MAX_EVENTS", "1500")),
                           max_traces=int(os.environ.get("CUQIVERIF_MAX_TRACES", "400")))
    kinds = os.environ.get("CUQIVERIF_RECORD", "life").split(",")
    if "life" in kinds:
        record.install_sampler_life(_rec)
    for k in kinds:
        if k not in ("life",):
            import importlib
            importlib.import_module("cuqiverif.props.%s" % k).install_recorder(_rec)


def pytest_unconfigure(config):
    if _rec is not None:
        _rec.uninstall()
        _rec.dump(os.environ["CUQIVERIF_TRACE_OUT"])
