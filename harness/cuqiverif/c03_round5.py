"""C03, facets `Siblings` and `Points` (helpers of props/c03.py; spec parts of the same names in specs/FamiliesSeq.tla).

Siblings.  ONE conditional distribution O (the parameters of some assignment units are callables of conditioning variables)
is conditioned to TWO configurations, A = O(first), B = O(second); both copies stay alive.  The pair of configurations and the
exact answers of both come from the part `Reassign` of Families.tla (start case `from`; case after the units of a prefix of
the assignment order were replaced, `trail[n].expect` - exactly the units that are callables of O).  The BEHAVIOURS come from
the part `Siblings` of FamiliesSeq.tla: every interleaving of Condition(A), Condition(B), evaluations of A / B and one use of
the unconditioned original, checked by TLC against SibOwnAnswer (named deviation DevSharedDerived refuted).  The replay drives
each behaviour on real objects: after every Evaluate(w) the log-density and the gradient (analytic, or finite differences
when enabled) of copy w must be the spec's values of w's OWN configuration.

Points.  The evaluation point of a one-dimensional density in every container of PtKinds (python float, numpy scalar, 0-d
array, 1-element array, 1-element list, CUQIarray) at points of magnitude below and above one: distributions of every family
with dimension-1 instances, likelihood / posterior / multiple-likelihood posterior of the one-parameter models, posterior of
a scalar hyper-parameter.  A container the implementation refuses is an observation; a returned value must be the derivative
(analytic: rtol 1e-9; with enable_FD(): forward-difference accuracy).
"""
import math

import numpy as np


def _c03():
    from cuqiverif.props import c03
    return c03


def _fc():
    from cuqiverif import families_common as fc
    return fc


def _seq():
    from cuqiverif import c03_seq
    return c03_seq


def _obs(ctx, key, tag):
    d = ctx.observations.setdefault(key, {})
    d[tag] = d.get(tag, 0) + 1


MRF = ("GMRF", "LMRF", "CMRF")


# ======================================================================================================================
# TLC
# ======================================================================================================================
def _wd(label):
    import os
    from cuqiverif import tlc
    return os.path.join(tlc.WORK, "FamiliesSeq-c03r5-%s-%d" % (label, os.getpid()))


_MODS = ["Families.tla", "DiffOps.tla"]


def start_tlc(ctx):
    import concurrent.futures
    pool = concurrent.futures.ThreadPoolExecutor(max_workers=3)
    jobs = {"sib": pool.submit(ctx.tlc, "FamiliesSeq", cfg="FamiliesSeq.siblings.%s.cfg" % ctx.tier, workers=2, timeout=900,
                               extra_modules=_MODS, workdir=_wd("sib")),
            "sibdev": pool.submit(ctx.tlc, "FamiliesSeq", cfg="FamiliesSeq.siblings_shared.deviation.cfg", workers=1, timeout=900,
                                  extra_modules=_MODS, expect_violation=True, workdir=_wd("sibdev")),
            "pt": pool.submit(ctx.tlc, "FamiliesSeq", cfg="FamiliesSeq.points.%s.cfg" % ctx.tier, workers=2, timeout=900,
                              extra_modules=_MODS, workdir=_wd("pt"))}
    pool.shutdown(wait=False)
    return jobs


def discard_tlc(jobs):
    from cuqiverif import tlc
    for f in jobs.values():
        try:
            tlc.cleanup(f.result())
        except BaseException:      # noqa: BLE001
            pass
    for label in ("sib", "sibdev", "pt"):
        tlc.cleanup(_wd(label))


def collect_tlc(ctx, jobs):
    """-> (sibling walks, point cases)"""
    from cuqiverif import tlc
    from cuqiverif.core import MachineryError
    out, err = {}, None
    for k, f in jobs.items():
        try:
            out[k] = f.result()
        except BaseException as e:      # noqa: BLE001
            err = err or e
    if err is not None:
        for r in out.values():
            tlc.cleanup(r)
        for label in ("sib", "sibdev", "pt"):
            tlc.cleanup(_wd(label))
        raise err
    ctx.model_must_hold(out["sib"], "FamiliesSeq.siblings")
    ctx.model_must_hold(out["pt"], "FamiliesSeq.points")
    dev = out["sibdev"]
    walks = [c["ops"] for c in out["sib"].cases if c.get("kind") == "sibwalk"]
    pts = [c for c in out["pt"].cases if c.get("kind") in ("point", "ptlik", "pthyp")]
    for r in out.values():
        tlc.cleanup(r)
    if dev.ok or dev.violated != "SibOwnAnswer":
        raise MachineryError("deviation DevSharedDerived did not violate SibOwnAnswer (got %r): vacuous invariant" % dev.violated)
    ctx.observations.setdefault("deviations_refuted_by_tlc", {})["DevSharedDerived"] = "SibOwnAnswer"
    if not walks or not pts:
        raise MachineryError("FamiliesSeq emitted no sibling behaviours / point cases (%d, %d)" % (len(walks), len(pts)))
    return walks, pts


# ======================================================================================================================
# Siblings
# ======================================================================================================================
def walk_tag(ops):
    return "".join(("c" if o["op"] == "condition" else "e" if o["op"] == "evaluate" else "o") + o["who"] for o in ops)


def _prefix_names(rc, n):
    names = []
    for st in rc["trail"][:n]:
        for a in st["assign"]:
            if a not in names:
                names.append(a)
    return names


def build_original(rc, n, idx):
    """-> (O, values(cs) -> conditioning keyword values of configuration cs, names of the callable parameters, gauss choice)
    O has the parameters of the first n units of the order as callables, everything else fixed at the start configuration."""
    import cuqi
    fc = _fc()
    fam, frm = rc["fam"], rc["from"]
    d = frm["dim"]
    units = _prefix_names(rc, n)
    if fam == "Gaussian":
        gch = _seq()._gauss_choice(rc, idx)
        if gch is None:
            return None
        form, shape, how = gch
        attr = {"mean": "mean", "matrix": form}
        names = [attr[u] for u in units]

        def value(cs, a):
            if a == "mean":
                return fc.vec(cs["par"]["mean"])
            return fc.gaussian_param(shape, _seq()._gauss_data(cs, form, shape), how)
        kw = {a: (fc._mk_lambda("c_" + a) if a in names else value(frm, a)) for a in ("mean", form)}
        O = cuqi.distribution.Gaussian(**kw, geometry=d)
        return O, (lambda cs: {"c_" + a: value(cs, a) for a in names}), names, gch
    if fam in MRF:
        m = frm["mrf"]
        locname = "mean" if fam == "GMRF" else "location"
        sname = "prec" if fam == "GMRF" else "scale"
        names = list(units)

        def value(cs, a):
            v = fc.vec(cs["par"][a])
            return float(v[0]) if a == sname else np.array(v)
        extra = {"bc_type": m["bc"]}
        if fam == "GMRF":
            extra["order"] = m["order"]
        geom = frm["dim"] if m["pd"] == 1 else (m["n"], m["n"])
        kw = {a: (fc._mk_lambda("c_" + a) if a in names else value(frm, a)) for a in (locname, sname)}
        with fc.quiet():
            O = getattr(cuqi.distribution, fam)(**kw, geometry=geom, **extra)
        return O, (lambda cs: {"c_" + a: value(cs, a) for a in names}), names, None
    cls = getattr(cuqi.distribution, fc._CLS[fam])
    names = list(units)

    def value(cs, a):
        v = fc._param_values(cs)[a]
        if fam == "Lognormal" and a == "cov":
            return np.array(v)
        return float(v[0]) if (fam, a) in fc._SCALAR_ONLY else np.array(v)
    allnames = list(fc._param_values(frm))
    kw = {a: (fc._mk_lambda("c_" + a) if a in names else value(frm, a)) for a in allnames}
    O = cls(**kw, geometry=d)
    return O, (lambda cs: {"c_" + a: value(cs, a) for a in names}), names, None


def check_siblings(ctx, table, rc, n, ops, variant, idx):
    """One behaviour of FamiliesSeq.Siblings on the pair (from, trail[n-1].expect) of one Reassign case.  Returns True when the
    behaviour was driven to its end."""
    c03, fc = _c03(), _fc()
    fam, frm = rc["fam"], rc["from"]
    cfgs = {"A": frm, "B": rc["trail"][n - 1]["expect"]}
    mrf = fam in MRF
    if mrf and not fc.mrf_operator_matches(frm):
        return False
    carry = {"kind": "siblings", "rc": rc, "n": n, "ops": ops, "variant": variant, "idx": idx}
    st, built, _ = fc.call(lambda: build_original(rc, n, idx))
    if st == "raise" or built is None:
        _obs(ctx, "siblings_original_refused", "%s/%s" % (fam, "+".join(_prefix_names(rc, n))))
        return False
    O, values, names, gch = built
    d = frm["dim"]
    tag = walk_tag(ops)
    extra = ("/pd=%d/bc=%s/order=%d" % (frm["mrf"]["pd"], frm["mrf"]["bc"], frm["mrf"]["order"]) if mrf else "")
    if gch:
        extra += "/form=%s:%s" % (gch[0], gch[1])
    base = "siblings/%s/units=%s/order=%s/%s/dim=%d%s" % (fam, "+".join(names), tag, variant, d, extra)
    live, nev = {}, 0
    distinct = cfgs["A"]["par"] != cfgs["B"]["par"]
    for k, o in enumerate(ops):
        who = o["who"]
        if o["op"] == "condition":
            r = fc.call(lambda: O(**values(cfgs[who])))
            if r[0] == "raise":
                _obs(ctx, "siblings_conditioning_refused", "%s/%s" % (fam, "+".join(names)))
                return False
            live[who] = r[1]
            if variant == "fd":
                fc.call(lambda: live[who].enable_FD())
            continue
        if o["op"] == "original":
            # uses of the unconditioned original: refused, or whatever it answers - never judged (it has no configuration)
            x = fc.vec(frm["x"])
            res = [fc.call(lambda: O.logd(np.array(x)))[0], fc.call(lambda: O.gradient(np.array(x)))[0],
                   fc.call(lambda: O.get_conditioning_variables())[0]]
            _obs(ctx, "siblings_use_of_the_original", "logd:%s gradient:%s" % (res[0], res[1]))
            continue
        cs, obj = cfgs[who], live[who]
        x = fc.vec(cs["x"])
        x0 = x.copy()
        nev += 1
        gexp = fc.expected_grad(cs)
        fd = variant == "fd" and bool(getattr(obj, "FD_enabled", False))
        if fd and not (cs.get("smooth", True) or gexp is None):
            continue
        lexp = fc.expected_logpdf(cs)
        sig = "%s/eval=%d:%s/support=%s" % (base, nev, who, fc.support_tag(cs))
        ctx.case(("siblings", fc.case_id(frm), tuple(rc["order"]), n, tag, variant, nev, gch), nontrivial=distinct,
                 facet="siblings/%s" % variant)
        r = fc.call(lambda: obj.logd(x))
        if r[0] == "raise":
            _obs(ctx, "siblings_logd_refused", fam)
        else:
            got = fc.scalar_of(r[1])
            if got is None or not fc.close(got, lexp, 1e-9, 1e-10):
                ctx.mismatch(sig + "/logd", carry, "log-density of a conditioned copy is not that of its own configuration while a second "
                             "conditioned copy of the same conditional distribution is alive", lexp, r[1])
        logf = 0.0 if not math.isfinite(lexp) else lexp
        c03.judge(ctx, carry, sig + "/gradient", c03._outcome(table, fam, False, "identity", fd), fc.call(lambda: obj.gradient(x)),
                  gexp, d, fd=fd, logf=logf, tag="siblings/%s/%s" % (fam, variant))
        if not np.array_equal(x, x0):
            ctx.mismatch(sig + "/argument_mutated", carry, "logd() / gradient() modified the array they were called with", x0, x)
    return True


def run_siblings(ctx, table, re_cases, walks):
    from cuqiverif.core import MachineryError
    tags = sorted({walk_tag(w): w for w in walks}.items())
    canon = [w for t, w in tags if t == "cAcBeAoOeBeA"] or [w for t, w in tags if t.startswith("cAcBeA") and "eB" in t]
    if not canon:
        raise MachineryError("FamiliesSeq.Siblings emitted no behaviour Condition A, Condition B, Evaluate A .. Evaluate B .. (%d walks)" % len(tags))
    canon = canon[0]
    # behaviours in which an evaluation of one copy follows an evaluation of the other one (only these can show shared state)
    def mixed(w):
        ev = [o["who"] for o in w if o["op"] == "evaluate"]
        return any(a != b for a, b in zip(ev, ev[1:]))
    pool = [w for _, w in tags if mixed(w)]
    extra_per_pair = 1 if ctx.tier == "quick" else 3
    k, done, used, fams = 0, 0, set(), {}
    for i, rc in enumerate(re_cases):
        for n in range(1, len(rc["trail"]) + 1):
            chosen = [canon] + [pool[(k * extra_per_pair + j) % len(pool)] for j in range(extra_per_pair)]
            for j, ops in enumerate(chosen):
                variant = ("plain", "fd", "plain")[(k + j) % 3]
                if check_siblings(ctx, table, rc, n, ops, variant, i):
                    done += 1
                    used.add(walk_tag(ops))
                    fams[rc["fam"]] = fams.get(rc["fam"], 0) + 1
            k += 1
    ctx.traces += done
    ctx.observations["siblings"] = {"pairs_x_behaviours_replayed": done, "behaviours_emitted": len(tags),
                                    "behaviours_with_alternating_evaluations": len(pool), "behaviours_used": len(used),
                                    "per_family": fams}
    missing = [f for f in ("Gaussian", "GMRF", "CMRF", "Cauchy", "Gamma", "InverseGamma", "Beta", "Uniform", "Normal", "Laplace",
                           "SmoothedLaplace", "LMRF") if not fams.get(f)]
    if missing or not ctx.facets.get("siblings/plain") or not ctx.facets.get("siblings/fd"):
        raise MachineryError("Siblings facet vacuous: no behaviour driven for %r (facets %r)" % (
            missing, {q: v for q, v in ctx.facets.items() if q.startswith("siblings")}))
    if ctx.tier == "thorough" and len(used) < len(pool):
        raise MachineryError("Siblings: %d of %d emitted behaviours with alternating evaluations were never replayed" % (
            len(pool) - len(used), len(pool)))


# ======================================================================================================================
# Points
# ======================================================================================================================
def containers(x, geometry=None):
    """the one-dimensional point x in every container kind of FamiliesSeq!PtKinds"""
    import cuqi
    out = {"float": lambda: float(x), "npscalar": lambda: np.float64(x), "zerod": lambda: np.array(float(x)),
           "array1": lambda: np.array([float(x)]), "list1": lambda: [float(x)]}
    out["cuqiarray"] = lambda: cuqi.array.CUQIarray(np.array([float(x)]), geometry=geometry if geometry is not None else cuqi.geometry._DefaultGeometry1D(1))
    return out


def _point_objects(case, idx):
    """[(label, object, (log-density, gradient) expected, outcome without FD, outcome with FD)] of one emitted point case"""
    import cuqi
    c03, fc = _c03(), _fc()
    kind = case["kind"]
    if kind == "point":
        fam = case["fam"]
        out = []
        gexp = fc.expected_grad(case)
        lexp = fc.expected_logpdf(case)
        if fam == "Gaussian":
            mean = fc.vec(case["par"]["mean"])
            ins = sorted(case["inputs"], key=lambda i: (i["form"], i["shape"]))
            ins = [i for i in ins if i["shape"] != "sparse"]
            for j in range(2):
                inp = ins[(idx + j * 5) % len(ins)]
                form, shape = inp["form"], inp["shape"]
                how = "scalar" if shape == "scalar" else "ndarray"
                b = (lambda form=form, shape=shape, how=how, inp=inp: cuqi.distribution.Gaussian(np.array(mean), **{
                    form: fc.gaussian_param(shape, inp["data"], how)}))
                out.append(("way=%s:%s" % (form, shape), b, lexp, gexp))
        else:
            for way, b in fc.family_variants(case, callable_way=False):
                if way == "list":
                    continue
                out.append(("way=" + way, b, lexp, gexp))
        return [(lab, b, le, ge, case["outcome"]["off"], case["outcome"]["on"]) for lab, b, le, ge in out]
    if kind == "pthyp":
        def b():
            s = cuqi.distribution.Gamma(fc.fl(case["shape"]), fc.fl(case["rate"]), name="s")
            y = cuqi.distribution.Gaussian(np.zeros(len(case["y"])), cov=lambda s: s, name="y")
            return cuqi.distribution.JointDistribution(s, y)(y=fc.vec(case["y"]))
        return [("posterior", b, fc.sl_float(case["logpost"]), fc.vec(case["grad"]), case["outcome"]["off"], case["outcome"]["on"])]
    # ptlik
    pseudo = dict(case)
    lam = fc.vec(case["lam"])
    data = fc.vec(case["logy"])
    kw, ntag = c03._noise_kw(case, idx)
    pmean = fc.vec(case["prior"]["mean"])

    def mkdist(name=None):
        return cuqi.distribution.Gaussian(c03._model(pseudo), **kw, **({"name": name} if name else {}))

    def mkprior(name=None):
        return cuqi.distribution.Gaussian(np.array(pmean), cov=4.0, **({"name": name} if name else {}))
    out = [("lik/noise=" + ntag, (lambda: mkdist().to_likelihood(np.array(data))), fc.sl_float(case["loglik"]), fc.vec(case["gradlik"])),
           ("posterior/noise=" + ntag, (lambda: cuqi.distribution.Posterior(mkdist().to_likelihood(np.array(data)), mkprior())),
            fc.sl_float(case["logpost"]), fc.vec(case["gradpost"]))]
    if case["mk"] in ("matrix", "jacobian"):
        def mkmulti():
            y2 = cuqi.distribution.Gaussian(c03._jac_model(pseudo), cov=1.0, name="y2")
            return cuqi.distribution.JointDistribution(mkprior("x"), mkdist("y1"), y2)(y1=np.array(data), y2=fc.vec(case["y2"]))
        out.append(("multi/noise=" + ntag, mkmulti, fc.sl_float(case["logpost"]) + fc.sl_float(case["loglik2"]),
                    fc.vec(case["gradpost"]) + fc.vec(case["gradlik2"])))
    return [(lab, b, le, ge, "Value", "ValueFD") for lab, b, le, ge in out]


def check_point(ctx, case, idx):
    c03, fc = _c03(), _fc()
    fam, mag = case["fam"], case["mag"]
    x = fc.vec(case["x"])[0]
    carry = dict(case, idx=idx)
    if fam == "ModifiedHalfNormal" and not case.get("abg_equal"):
        # the getters of beta / gamma return alpha (recorded finding C03-F3, pinned by a test): only the instances on which
        # that defect is invisible (alpha = beta = gamma) can decide anything about containers
        _obs(ctx, "points_skipped", "ModifiedHalfNormal with distinct parameters (finding C03-F3)")
        return
    mk = "/model=%s" % case["mk"] if case["kind"] == "ptlik" else ""
    judged = ctx.__dict__.setdefault("_r5_judged", {})
    smooth = case.get("smooth", True)
    for lab, builder, lexp, gexp, out_off, out_on in _point_objects(case, idx):
        st, obj, _ = fc.call(builder)
        if st == "raise":
            _obs(ctx, "construction_failed", "point/%s/%s" % (fam, lab))
            continue
        logf = 0.0 if not math.isfinite(lexp) else lexp
        geom = getattr(obj, "geometry", None)
        for kind, mkx in containers(x, geom).items():
            for fd in (False, True):
                if fd and not smooth:
                    continue
                st2, xc, _ = fc.call(mkx)
                if st2 == "raise":
                    _obs(ctx, "point_container_not_constructible", kind)
                    continue
                before = np.array(xc, dtype=float, copy=True) if kind in ("array1", "list1", "cuqiarray", "zerod") else None
                if fd and fc.call(lambda: obj.enable_FD())[0] == "raise":
                    continue
                what = "gradientFD" if fd else "gradient"
                sig = "point/%s/%s%s/%s/container=%s/mag=%s" % (what, fam, mk, lab, kind, mag)
                r = fc.call(lambda: obj.gradient(xc))
                ctx.case(("point", what, fam, json_key(case), lab, kind), facet="points/%s/%s" % (kind, "fd" if fd else "analytic"))
                if r[0] == "raise":
                    _obs(ctx, "point_container_refused", "%s/%s/%s" % (fam if case["kind"] == "point" else case["kind"], kind, "fd" if fd else "analytic"))
                else:
                    d = judged.setdefault((kind, fd), {})
                    d[(fam, mag)] = d.get((fam, mag), 0) + 1
                c03.judge(ctx, carry, sig, out_on if fd else out_off, r, gexp, 1, fd=fd, logf=logf,
                          tag="point/%s/%s/%s" % (fam, kind, "fd" if fd else "analytic"))
                if before is not None and not np.array_equal(np.array(xc, dtype=float), before):
                    ctx.mismatch(sig + "/argument_mutated", carry, "gradient() modified the object it was called with", before, xc)
                if fd:
                    fc.call(lambda: obj.disable_FD())


def json_key(case):
    import json
    return json.dumps({k: case[k] for k in ("cfg", "base", "ver", "x", "shape", "rate") if k in case}, sort_keys=True)


def run_points(ctx, pts):
    from cuqiverif.core import MachineryError
    pts = sorted(pts, key=lambda c: (c["kind"], c["fam"], json_key(c)))
    for i, c in enumerate(pts):
        check_point(ctx, c, i)
    ctx.traces += len(pts)
    # vacuity: finite-difference values were judged at both magnitudes for a plain scalar and for an array, per family
    nolarge = {"Beta"}
    fams = sorted({c["fam"] for c in pts})
    judged = ctx.__dict__.get("_r5_judged", {})
    for kind in ("float", "npscalar", "array1"):
        got = judged.get((kind, True), {})
        for f in fams:
            if f == "Lik" and kind != "array1":
                continue            # (a model applied to a plain scalar: refused by the implementation - observation)
            for mag in ("small", "large"):
                if mag == "large" and f in nolarge:
                    continue
                if not got.get((f, mag)):
                    raise MachineryError("Points facet vacuous: no finite-difference gradient of %s judged for container %s at "
                                         "magnitude %s (%r)" % (f, kind, mag, sorted(got)))
    ctx.observations["points"] = {"cases": len(pts), "families": fams,
                                  "values_judged": {"%s/%s" % (k[0], "fd" if k[1] else "analytic"):
                                                    {"values": sum(v.values()), "families_small": len({f for f, m in v if m == "small"}),
                                                     "families_large": len({f for f, m in v if m == "large"})}
                                                    for k, v in sorted(judged.items())}}


# ======================================================================================================================
def run(ctx, table, jobs, re_cases):
    walks, pts = collect_tlc(ctx, jobs)
    run_siblings(ctx, table, re_cases, walks)
    run_points(ctx, pts)
    rc = next((c for c in re_cases if c["fam"] == "GMRF"), re_cases[0])
    ctx.sample({"kind": "siblings", "fam": rc["fam"], "behaviour": walk_tag(walks[0]), "A": {k: rc["from"][k] for k in ("par", "x", "grad")},
                "B": {k: rc["trail"][0]["expect"][k] for k in ("par", "x", "grad")}, "callable": rc["trail"][0]["assign"]})


def replay(ctx, table, case):
    if case["kind"] == "siblings":
        check_siblings(ctx, table, case["rc"], case["n"], case["ops"], case["variant"], case["idx"])
    else:
        check_point(ctx, case, case.get("idx", 0))
