"""C19, code -> spec: recorder for Samples.burnthin / funvals / vector / parameters / compute_rhat events; data layouts of the
stored chain (`in_layout`: the realisation of the dimension `lay` of SamplesOps.tla, shared with props/c19.py).

Every event carries a FRAME record: was the receiver (sample bytes, flags, geometry) the same after the call, and - for
compute_rhat - the length of the caller's list of chains before / after, whether it holds the same objects in the same order
and whether their contents are unchanged.

Used (a) in the harness process around seeded random drivers and (b) as a pytest plugin
(`-p cuqiverif.c19_trace`, output file in $C19_TRACE_OUT) around the repository's own tests.  The wrappers are
installed on the class in the recording process only; the repository is not modified.
"""
import json, os
from numbers import Integral

import numpy as np

# ---- data layouts of a stored chain (dimension `lay` of SamplesOps.tla): HOW the values are held, never WHICH values -------------
LAYOUTS = ("f64", "i64", "i32", "f32", "fortran", "strided", "readonly", "i32sr", "f32f")
LAYOUT_DTYPE = {"f64": np.float64, "i64": np.int64, "i32": np.int32, "f32": np.float32, "fortran": np.float64, "strided": np.float64,
                "readonly": np.float64, "i32sr": np.int32, "f32f": np.float32}
INT_LAYOUTS = ("i64", "i32", "i32sr")
F32_LAYOUTS = ("f32", "f32f")
READONLY_LAYOUTS = ("readonly", "i32sr")
FILLER = -777            # what the columns of the wider array hold that are NOT part of a strided chain


def representable(values, lay):
    """the values are held exactly by the number type of the layout"""
    A = np.asarray(values, dtype=np.float64)
    return bool(np.array_equal(A.astype(LAYOUT_DTYPE[lay]).astype(np.float64), A))


def in_layout(values, lay):
    """a NEW array holding exactly `values` (last axis = sample axis) in the data layout `lay`"""
    A = np.asarray(values, dtype=np.float64)
    if lay not in LAYOUT_DTYPE:
        raise ValueError("unknown data layout %r" % (lay,))
    dt = LAYOUT_DTYPE[lay]
    if not representable(A, lay):
        raise ValueError("values are not exactly representable in layout %r" % (lay,))
    if lay in ("strided", "i32sr"):
        big = np.full(A.shape[:-1] + (2 * A.shape[-1],), FILLER, dtype=dt)
        big[..., ::2] = A
        out = big[..., ::2]                  # non-contiguous view; out.base is the wider array
    elif lay in ("fortran", "f32f"):
        out = np.asfortranarray(A.astype(dt))
    else:
        out = np.array(A, dtype=dt, order="C")
    if lay in READONLY_LAYOUTS:
        out.flags.writeable = False
    return out


EVENTS = []
SKIPPED = {"non_array": 0, "out_of_domain": 0, "duplicate_columns": 0}
_depth = [0]
_installed = {}


def _describe(s):
    g = s.geometry
    try:
        fs = g.fun_shape
        fun1d = isinstance(fs, tuple) and len(fs) == 1
    except Exception:       # noqa: BLE001
        fun1d = None
    return {"n": int(s.samples.shape[-1]), "par": bool(s.is_par), "vec": bool(s.is_vec), "fun1d": fun1d}


def _cols(pre, post):
    """positions of post's columns in pre (by value); None if pre has duplicate columns"""
    A = np.ascontiguousarray(np.moveaxis(np.asarray(pre, dtype=float), -1, 0)).reshape(pre.shape[-1], -1)
    B = np.ascontiguousarray(np.moveaxis(np.asarray(post, dtype=float), -1, 0)).reshape(post.shape[-1], -1)
    pos = {}
    for k in range(A.shape[0]):
        key = A[k].tobytes()
        if key in pos:
            return None
        pos[key] = k
    return [pos.get(B[k].tobytes(), -1) for k in range(B.shape[0])]


def _print(s):
    """deep fingerprint of a sample set: sample bytes, shape, flags, geometry identity"""
    a = s.samples
    return (a.tobytes() if isinstance(a, np.ndarray) else repr(a), getattr(a, "shape", None), bool(s.is_par), bool(s.is_vec), id(s.geometry))


def _record(op, self, args, call):
    if _depth[0] > 0:
        return call()
    _depth[0] += 1
    try:
        usable = isinstance(self.samples, np.ndarray) and self.samples.ndim >= 1
        pre = pre_arr = geom = fp_self = None
        chains = fp_chains = None
        if usable:
            try:
                pre, pre_arr, geom = _describe(self), self.samples, self.geometry
                fp_self = _print(self)
                if op == "rhat":
                    chains = args[0]
                    members = list(chains) if isinstance(chains, list) else [chains]
                    fp_chains = (len(members), [id(x) for x in members], [_print(x) if hasattr(x, "samples") else repr(x) for x in members], members)
            except Exception:       # noqa: BLE001
                usable = False
        err, res = False, None
        try:
            res = call()
            return res
        except Exception:
            err = True
            raise
        finally:
            if not usable or pre["fun1d"] is None:
                SKIPPED["non_array"] += 1
            else:
                ev = {"op": op, "b": 0, "t": 1, "err": err, "pre": pre,
                      "post": {"n": 0, "par": True, "vec": True, "samegeom": True}, "cols": [],
                      "frame": {"recv": bool(_print(self) == fp_self), "nl_pre": 0, "nl_post": 0, "ids": True, "args": True}}
                ok = True
                if op == "rhat":
                    now = list(chains) if isinstance(chains, list) else [chains]
                    ev["frame"].update({"nl_pre": fp_chains[0], "nl_post": len(now), "ids": [id(x) for x in now] == fp_chains[1],
                                        "args": [_print(x) if hasattr(x, "samples") else repr(x) for x in fp_chains[3]] == fp_chains[2]})
                    ev["single"] = not isinstance(chains, list)
                if op == "burnthin":
                    b, t = args
                    if not (isinstance(b, (Integral, np.integer)) and isinstance(t, (Integral, np.integer)) and b >= 0 and t >= 1):
                        SKIPPED["out_of_domain"] += 1
                        ok = False
                    else:
                        ev["b"], ev["t"] = int(b), int(t)
                if ok and not err and op != "rhat":
                    if not (hasattr(res, "samples") and isinstance(res.samples, np.ndarray)):
                        SKIPPED["non_array"] += 1
                        ok = False
                    else:
                        ev["post"] = {"n": int(res.samples.shape[-1]), "par": bool(res.is_par), "vec": bool(res.is_vec),
                                      "samegeom": bool(res.geometry is geom or res.geometry == geom)}
                        if op == "burnthin":
                            cols = _cols(pre_arr, res.samples) if res.samples.shape[:-1] == pre_arr.shape[:-1] else [-1] * ev["post"]["n"]
                            if cols is None:
                                SKIPPED["duplicate_columns"] += 1
                                ok = False
                            else:
                                ev["cols"] = cols
                if ok:
                    EVENTS.append(ev)
    finally:
        _depth[0] -= 1


def install():
    """Wrap the five entry points on cuqi.samples.Samples.  Returns False if a target disappeared."""
    from cuqi.samples import Samples
    if _installed:
        return True
    bt = Samples.__dict__.get("burnthin")
    props = {name: Samples.__dict__.get(name) for name in ("funvals", "vector", "parameters")}
    rh = Samples.__dict__.get("compute_rhat")
    if bt is None or rh is None or any(not isinstance(p, property) for p in props.values()):
        return False
    _installed["burnthin"] = bt
    _installed["compute_rhat"] = rh
    _installed.update(props)

    def compute_rhat(self, chains, **kwargs):
        return _record("rhat", self, (chains,), lambda: rh(self, chains, **kwargs))
    compute_rhat.__doc__ = rh.__doc__
    Samples.compute_rhat = compute_rhat

    def burnthin(self, Nb, Nt=1):
        return _record("burnthin", self, (Nb, Nt), lambda: bt(self, Nb, Nt))
    burnthin.__doc__ = bt.__doc__
    Samples.burnthin = burnthin
    for name, p in props.items():
        def getter(self, _p=p, _name=name):
            return _record(_name, self, (), lambda: _p.fget(self))
        setattr(Samples, name, property(getter, p.fset, p.fdel, p.__doc__))
    return True


def uninstall():
    from cuqi.samples import Samples
    for name, obj in _installed.items():
        setattr(Samples, name, obj)
    _installed.clear()


def dump(path):
    json.dump({"events": EVENTS, "skipped": SKIPPED}, open(path, "w"))


# ---- pytest plugin hooks -------------------------------------------------------------------------------------
def pytest_configure(config):
    if os.environ.get("C19_TRACE_OUT"):
        if not install():
            open(os.environ["C19_TRACE_OUT"], "w").write(json.dumps({"error": "Samples entry points not found"}))


def pytest_sessionfinish(session, exitstatus):
    if os.environ.get("C19_TRACE_OUT") and _installed:
        dump(os.environ["C19_TRACE_OUT"])


# ---- seeded random driver --------------------------------------------------------------------------------------
def random_driver(seed, rounds):
    import warnings
    import cuqi
    from cuqi.samples import Samples
    rng = np.random.RandomState(seed)
    G = cuqi.geometry
    for _ in range(rounds):
        N = int(rng.choice([1, 2, 3, 5, 8, 13, 40, 200]))
        kind = rng.randint(5)
        if kind == 0:
            d = int(rng.randint(1, 5)); geom = G.Continuous1D(d)
        elif kind == 1:
            d = 6; geom = G.Image2D((2, 3), order="F")
        elif kind == 2:
            d = 6; geom = G.Continuous2D((3, 2))
        elif kind == 3:
            d = 2; geom = G.StepExpansion(np.linspace(0, 1, 4), n_steps=2)
        else:
            d = int(rng.randint(1, 4)); geom = None
        # the stored chain in a seeded data layout (integer-valued chains for the integer layouts)
        lay = LAYOUTS[int(rng.randint(len(LAYOUTS)))] if rng.randint(3) == 0 else "f64"
        vals = rng.standard_normal((d, N)) if lay not in INT_LAYOUTS + F32_LAYOUTS else np.round(rng.standard_normal((d, N)) * 1.0e5)
        s = Samples(in_layout(vals, lay), geometry=geom)
        others = None
        for _step in range(4):
            r = rng.randint(7)
            try:
                with warnings.catch_warnings():
                    warnings.simplefilter("ignore")
                    if r == 6:
                        # R-hat against one list of 1..3 chains of the same shape, the SAME list object for two calls
                        # (and a single Samples argument); shapes that arviz refuses are recorded as refusals
                        if others is None or others[0].samples.shape != s.samples.shape or N > 40:
                            others = [Samples(in_layout(np.round(rng.standard_normal(s.samples.shape) * 1.0e5), lay), geometry=s.geometry,
                                              is_par=s.is_par, is_vec=s.is_vec) for _k in range(int(rng.randint(1, 4)))]
                        if N <= 40:
                            s.compute_rhat(others)
                            s.compute_rhat(others)
                            s.compute_rhat(others[0])
                    elif r <= 2:
                        n = s.Ns
                        b = int(rng.choice([0, 1, n - 1, n, n + 1, rng.randint(0, n + 1)]))
                        t = int(rng.choice([1, 2, 3, n, n + 1, rng.randint(1, n + 2)]))
                        s = s.burnthin(max(b, 0), max(t, 1))
                    elif r == 3:
                        s = s.funvals
                    elif r == 4:
                        s = s.vector
                    else:
                        s = s.parameters
            except Exception:       # noqa: BLE001  (refusals are recorded by the wrapper)
                pass
