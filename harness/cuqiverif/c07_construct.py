"""C07, round 9: the CONSTRUCTION of a linear model / shipped test problem is a step of its own (part CON).

Spec: specs/ModelGeomConstruct.tla (EXTENDS ModelGeom).  State (configuration, st, out), action Construct, invariant WellFormedAccepted:
a WELL-FORMED configuration - a dense / sparse matrix with FunDim(range) x FunDim(domain) entries acting on vector function values, or a
function pair - is ACCEPTED, whatever the parameter dimensions of the two geometries are (StepExpansion with fewer steps than nodes,
truncated KL expansion, CustomKL: par_dim # fun_dim in the domain and / or in the range).  Deviation ShapeCheckedAgainstParDim (matrix shape
compared with range_dim x domain_dim) is refuted by TLC on every run.

Replay: every configuration TLC emits is handed to the real constructor (LinearModel(matrix | function pair, geometries), LinearModel(matrix)
with inferred geometries, Abel1D(field_type, KL_map)).  out = "accepted": a refusal is the mismatch construct/<key>/construction_refused; the
constructed model must then have the parameter dimensions of the geometries, its forward on the basis vectors must be H+ F G (G, H+ read off
the ORIGINAL geometry objects, F the specification's integer operator) and get_matrix() must have those columns (configurations that part C07
replays in full - they have a `lin` case - are only constructed here).  out = "unspecified" (matrix shaped like the parameter dimensions
while par_dim # fun_dim): nothing asserted, accepted / refused is recorded.
"""
import os
import warnings

import numpy as np

SPEC = "ModelGeomConstruct"
EXTRA = ("ModelGeom.tla",)
DEVIATIONS = [("ShapeCheckedAgainstParDim", "WellFormedAccepted")]


def start_tlc(ctx):
    from concurrent.futures import ThreadPoolExecutor
    from cuqiverif import tlc
    tag = "%d-%d" % (os.getpid(), id(ctx) % 100000)

    def wd(name):
        return os.path.join(tlc.WORK, "%s-%s-%s" % (SPEC, tag, name))

    jobs = [("dev", dev, inv, dict(cfg="ModelGeomConstruct.%s.deviation.cfg" % dev, workers=1, expect_violation=True, timeout=600,
                                   extra_modules=EXTRA, workdir=wd(dev), heap="1g")) for dev, inv in DEVIATIONS]
    jobs += [("main", "decide", None, dict(cfg="ModelGeomConstruct.%s.cfg" % ctx.tier, workers=1, timeout=900, extra_modules=EXTRA, workdir=wd("decide"),
                                           heap="1g"))]
    ex = ThreadPoolExecutor(max_workers=len(jobs))
    futs = [ex.submit(lambda kw=kw: ctx.tlc(SPEC, **kw)) for _, _, _, kw in jobs]
    return ex, jobs, futs


def wait_tlc(started):
    from cuqiverif import tlc
    for f in started[2]:
        try:
            tlc.cleanup(f.result())
        except Exception:  # noqa: BLE001
            pass
    started[0].shutdown(wait=True)


def _gk(g):
    from cuqiverif.modelgeom_real import gkey
    if g.get("proj") == "mapped":
        return gkey(dict(g, proj="mean")) + "_mapped"
    return gkey(g)


def con_key(case):
    return "mk=%s/dom=%s/rng=%s%s%s" % (case["mk"], _gk(case["dg"]), _gk(case["rg"]), "/n%d" % case["dg"]["n"],
                                       ("/given=%s" % case["given"]) if case["given"] != "objects" else "") + ("/shape=par" if case["shape"] == "par" else "")


def _geometry(g, variant=None):
    """Real geometry object of the record g (numeric maps are read off the object afterwards)."""
    import cuqi
    from cuqiverif.modelgeom_real import build_geometry
    from cuqiverif.tlc import MachineryError
    n, k = g["n"], g["k"]
    if g["kind"] == "customkl":
        return cuqi.geometry.CustomKL(np.linspace(0, 1, n), trunc_term=k), (n,)
    if g["kind"] == "mapped":
        return cuqi.geometry.MappedGeometry(cuqi.geometry.Continuous1D(n), map=lambda f: 2 * f, imap=lambda f: f / 2), (n,)
    if g["kind"] == "linexp":
        if variant == "kl":
            return cuqi.geometry.KLExpansion(np.linspace(0, 1, n), decay_rate=1.5, normalizer=2.0, num_modes=k), (n,)
        Q = np.linalg.qr(np.vander(np.linspace(0, 1, n), k, increasing=True))[0]
        rg = build_geometry(g, Q, Q.T)
        return rg.obj, rg.fun_shape
    if g["kind"] in ("cont1d", "default1d", "discrete", "imgC", "imgF", "visual", "cont2d", "step"):
        rg = build_geometry(g)
        return rg.obj, rg.fun_shape
    raise MachineryError("part CON: unknown geometry kind %r" % g["kind"])


def _maps(geom, n_par, fun_shape, side):
    """Matrix of par2fun (domain) / fun2par (range) read off the ORIGINAL geometry object; None when the map is not available / not linear."""
    try:
        with warnings.catch_warnings():
            warnings.simplefilter("ignore")
            if side == "dom":
                z = np.asarray(geom.par2fun(np.zeros(n_par)), dtype=float).ravel()
                return np.column_stack([np.asarray(geom.par2fun(e), dtype=float).ravel() - z for e in np.eye(n_par)]), z
            nf = int(np.prod(fun_shape))
            return np.column_stack([np.asarray(geom.fun2par(e.reshape(fun_shape)), dtype=float).ravel() for e in np.eye(nf)]), None
    except Exception:  # noqa: BLE001
        return None, None


def check_con_case(ctx, case, has_lin=False, stats=None):
    import cuqi
    import scipy.sparse as sp
    from cuqiverif.modelgeom_real import close
    from cuqiverif.tlc import MachineryError
    stats = stats if stats is not None else {}
    key = con_key(case)
    mk, dg, rg = case["mk"], case["dg"], case["rg"]
    F = np.array(case["F"], dtype=float)
    ctx.case("construct/" + key, facet="construct")
    variants = [None] + (["kl"] if "linexp" in (dg["kind"], rg["kind"]) else [])
    for variant in variants:
        vkey = key + ("/kl" if variant else "")
        with warnings.catch_warnings():
            warnings.simplefilter("ignore")
            if mk == "abel":
                kw = {"KL": {"field_params": {"num_modes": dg["k"]}}, "Step": {"field_params": {"n_steps": dg["k"]}},
                      "CustomKL": {"field_params": {"trunc_term": dg["k"]}}}.get(case["given"], {})
                if dg["proj"] == "mapped":
                    kw.update(KL_map=lambda f: 2 * f, KL_imap=lambda f: f / 2)
                field = None if case["given"] == "None" else case["given"]

                def build():
                    import contextlib
                    import io
                    with contextlib.redirect_stdout(io.StringIO()):
                        return cuqi.testproblem.Abel1D(dim=dg["n"], field_type=field, **kw).model
                dgeom = rgeom = None
            else:
                if case["given"] == "inferred":
                    dgeom = rgeom = None
                    dshape, rshape = (dg["n"],), (rg["n"],)
                else:
                    dgeom, dshape = _geometry(dg, variant)
                    rgeom, rshape = _geometry(rg, variant)
                if mk == "dense":
                    M = F.copy()
                elif mk == "sparse":
                    M = sp.csc_matrix(F)
                elif mk != "func":
                    raise MachineryError("part CON: unknown model kind %r" % mk)

                def fwd(X):
                    return (F @ np.asarray(X).ravel()).reshape(rshape)

                def adj(Y):
                    return (F.T @ np.asarray(Y).ravel()).reshape(dshape)

                def build():
                    if case["given"] == "inferred":
                        return cuqi.model.LinearModel(M)
                    if mk == "func":
                        return cuqi.model.LinearModel(fwd, adj, range_geometry=rgeom, domain_geometry=dgeom)
                    return cuqi.model.LinearModel(M, range_geometry=rgeom, domain_geometry=dgeom)
            model, err = None, None
            try:
                model = build()
            except Exception as e:  # noqa: BLE001 - the outcome of the Construct step
                err = e
        if case["out"] != "accepted":
            o = stats.setdefault("ill_formed_matrix_shaped_like_the_parameters", {})
            o["accepted" if err is None else "refused"] = o.get("accepted" if err is None else "refused", 0) + 1
            continue
        if err is not None:
            ctx.mismatch("construct/%s/construction_refused" % vkey, case,
                         "the library refused to construct a well-formed linear model (%s on the FUNCTION values of the geometries: %d x %d; parameter "
                         "dimensions %d -> %d; invariant WellFormedAccepted)" % ("function pair" if mk == "func" else "matrix", rg["n"], dg["n"], dg["k"], rg["k"]),
                         "accepted", repr(err))
            continue
        stats["constructed"] = stats.get("constructed", 0) + 1
        if dg["k"] != dg["n"]:
            stats.setdefault("par_dim_differs_in_the_domain", {}).setdefault(mk, 0)
            stats["par_dim_differs_in_the_domain"][mk] += 1
        if rg["k"] != rg["n"]:
            stats.setdefault("par_dim_differs_in_the_range", {}).setdefault(mk, 0)
            stats["par_dim_differs_in_the_range"][mk] += 1
        # what was constructed has the dimensions of the geometries it was given
        with warnings.catch_warnings():
            warnings.simplefilter("ignore")
            try:
                dims = (int(model.domain_dim), int(model.range_dim))
            except Exception as e:  # noqa: BLE001
                ctx.mismatch("construct/%s/dims/raised" % vkey, case, "domain_dim / range_dim of the constructed model raised", (dg["k"], rg["k"]), repr(e))
                continue
            if dims != (dg["k"], rg["k"]):
                ctx.mismatch("construct/%s/dims" % vkey, case, "the constructed model does not have the parameter dimensions of its geometries", (dg["k"], rg["k"]), dims)
                continue
            if has_lin and variant is None or mk == "abel":
                continue                # replayed in full by part C07 (`lin` case) / by the shipped-problem checks
            # columns: forward(e_i) = H+ F G e_i, get_matrix() has those columns
            G, z = _maps(model.domain_geometry, dg["k"], dshape, "dom")
            Hp, _ = _maps(model.range_geometry, rg["k"], rshape, "rng")
            if G is None or Hp is None or (z is not None and np.abs(z).max() > 0):
                stats["maps_not_readable"] = stats.get("maps_not_readable", 0) + 1
                continue
            want = Hp @ F @ G
            try:
                cols = np.column_stack([np.asarray(model.forward(e), dtype=float).ravel() for e in np.eye(dg["k"])])
                gm = model.get_matrix()
                gm = np.asarray(gm.toarray() if hasattr(gm, "toarray") else gm, dtype=float)
            except Exception as e:  # noqa: BLE001
                ctx.mismatch("construct/%s/use/raised" % vkey, case, "forward / get_matrix of the model just constructed raised", None, repr(e))
                continue
            if not close(cols, want, 1e-9):
                ctx.mismatch("construct/%s/forward" % vkey, case, "forward on the basis vectors is not H+ F G (geometry maps read off the original geometry objects)", want, cols)
            elif not close(gm, cols, 1e-9):
                ctx.mismatch("construct/%s/get_matrix" % vkey, case, "get_matrix() of the model just constructed does not reproduce forward column by column", cols, gm)
            stats["used_after_construction"] = stats.get("used_after_construction", 0) + 1


def run_construct(ctx, started, lin):
    from cuqiverif import tlc
    from cuqiverif.core import MachineryError
    ex, jobs, futs = started
    results, err = [], None
    for f in futs:
        try:
            results.append(f.result())
        except Exception as e:  # noqa: BLE001
            results.append(None)
            err = err or e
    ex.shutdown(wait=True)
    if err is not None:
        for res in results:
            if res is not None:
                tlc.cleanup(res)
        raise err
    cons = None
    try:
        for (kind, name, inv, _), res in zip(jobs, results):
            if kind == "dev":
                if res.ok or res.violated != inv:
                    raise MachineryError("deviation %s did not violate %s on ModelGeomConstruct (violated=%r)" % (name, inv, res.violated))
                ctx.observations.setdefault("deviation_counterexamples", {})["CON/" + name] = inv
            else:
                ctx.model_must_hold(res, "ModelGeomConstruct")
                cons = [c for c in res.cases if c.get("kind") == "con"]
    finally:
        for res in results:
            tlc.cleanup(res)
    if not cons:
        raise MachineryError("no cases emitted by ModelGeomConstruct")
    cons.sort(key=con_key)
    import json
    have = {(c["mk"], json.dumps(c["dg"], sort_keys=True), json.dumps(c["rg"], sort_keys=True)) for c in lin}
    stats = {}
    for c in cons:
        has_lin = c["given"] == "objects" and (c["mk"], json.dumps(c["dg"], sort_keys=True), json.dumps(c["rg"], sort_keys=True)) in have
        check_con_case(ctx, c, has_lin, stats)
    ctx.observations["construct_part"] = dict(stats, configurations=len(cons), well_formed=sum(1 for c in cons if c["wf"]))
    if not ctx.violations:
        for side in ("par_dim_differs_in_the_domain", "par_dim_differs_in_the_range"):
            for mk in ("dense", "sparse", "func"):
                if not stats.get(side, {}).get(mk):
                    raise MachineryError("vacuous: part CON constructed no %s model whose %s" % (mk, side.replace("_", " ")))
    pick = [c for c in cons if c["mk"] == "dense" and c["dg"]["kind"] == "customkl" and c["rg"]["kind"] == "step" and c["shape"] == "fun"][:1]
    for c in pick:
        ctx.sample({"case": c})
    ctx.assumptions += ["construction (part CON): well-formed = matrix with FunDim(range) x FunDim(domain) entries on vector function values, or a function pair; "
                        "a matrix shaped like the parameter dimensions while par_dim # fun_dim is ill-formed - accepted / refused is recorded only"]
    return len(cons)


def replay(ctx, case):
    return check_con_case(ctx, case, bool(case.get("has_lin")))
