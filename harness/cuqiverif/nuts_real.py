"""Binding of specs/Nuts.tla to the two NUTS implementations (helpers of props/c08.py).

* TableTarget   - realisation of a lattice orbit: a 1-D UserDefinedDistribution whose log-density and gradient are
                  look-ups keyed by the exact position (a position that is not in the table = the integrator left the
                  lattice).
* Tap           - harness-side wrappers on NUTS._Leapfrog / NUTS._BuildTree (class level, installed and removed by
                  the harness process; no source hooks).  Records every leapfrog step made inside a tree and the
                  values returned by every _BuildTree call in return order.
* replay_*      - execute one TLC behaviour on cuqi.experimental.mcmc.NUTS / cuqi.sampler.NUTS with scripted draws.
* record_*      - run real chains on Gaussian targets and log per transition the boolean facets validated by
                  specs/TraceNuts.tla.
"""
import inspect, math
from fractions import Fraction as Fr

import numpy as np

from .core import MachineryError
from .script_rng import scripted, Stream, ScriptError, below, above

OFF_LP = -np.inf        # value returned for a position that is not in the table (ends the trajectory at once)


def _tagged(v):
    k = v["k"]
    if k == "fin":
        return float(Fr(v["v"][0], v["v"][1]))
    return {"nan": float("nan"), "ninf": -np.inf, "pinf": np.inf}[k]


class TableTarget:
    """Orbit tables (TLC case of kind `orbit`) as a target distribution."""

    def __init__(self, orbit):
        T = orbit["T"]
        self.T = T
        ts = list(range(-T, T + 1))
        fl = lambda q: float(Fr(q[0], q[1]))
        self.x = {t: fl(orbit["x"][i]) for i, t in enumerate(ts)}
        self.r = {t: fl(orbit["r"][i]) for i, t in enumerate(ts)}
        self.g = {t: fl(orbit["g"][i]) for i, t in enumerate(ts)}
        self.lp = {t: _tagged(orbit["lp"][i]) for i, t in enumerate(ts)}
        self.H = {t: _tagged(orbit["H"][i]) for i, t in enumerate(ts)}
        self.Hkind = {t: orbit["H"][i]["k"] for i, t in enumerate(ts)}
        self.eps = fl(orbit["eps"])
        self.pos = {self.x[t]: t for t in ts}
        if len(self.pos) != len(ts):
            raise MachineryError("orbit positions are not pairwise distinct")
        self.off = []           # off-lattice evaluations while `watch` is on
        self.watch = False

    def t_of(self, point):
        return self.pos.get(float(np.asarray(point, dtype=float).reshape(-1)[0]))

    def _logpdf(self, xx):
        t = self.t_of(xx)
        if t is None:
            if self.watch:
                self.off.append(float(np.asarray(xx, dtype=float).reshape(-1)[0]))
            return OFF_LP
        return self.lp[t]

    def _grad(self, xx):
        t = self.t_of(xx)
        return np.array([self.g[t] if t is not None else 0.0])

    def distribution(self):
        import cuqi
        return cuqi.distribution.UserDefinedDistribution(dim=1, logpdf_func=self._logpdf, gradient_func=self._grad)


# ----------------------------------------------------------------------------------------------------------------
class Tap:
    """Wrappers on cls._Leapfrog and cls._BuildTree.  `bt`: one record per _BuildTree call, in RETURN order;
    `lf`: one record per leapfrog step made inside a tree."""

    def __init__(self, cls):
        self.cls = cls
        for name in ("_Leapfrog", "_BuildTree"):
            if name not in cls.__dict__:
                raise MachineryError("wrapper target %s.%s is missing" % (cls.__module__ + "." + cls.__name__, name))
        self._orig = {}
        self.sigB = inspect.signature(cls.__dict__["_BuildTree"])
        self.sigL = inspect.signature(cls.__dict__["_Leapfrog"])
        if len(self.sigB.parameters) < 9 or len(self.sigL.parameters) < 5:
            raise MachineryError("unexpected signature of _BuildTree / _Leapfrog")
        self.reset()

    def reset(self):
        self.bt, self.lf, self.level = [], [], 0

    @property
    def orig_leapfrog(self):
        return self._orig.get("_Leapfrog") or self.cls.__dict__["_Leapfrog"]

    def __enter__(self):
        tap = self
        oL, oB = self.cls.__dict__["_Leapfrog"], self.cls.__dict__["_BuildTree"]
        self._orig = {"_Leapfrog": oL, "_BuildTree": oB}
        cp = lambda a: np.array(a, dtype=float, copy=True).reshape(-1)

        def L(s, *a, **k):
            vals = list(tap.sigL.bind(s, *a, **k).arguments.values())      # self, point, r, grad, epsilon
            pre = (cp(vals[1]), cp(vals[2]), cp(vals[3]), float(vals[4]))
            out = oL(s, *a, **k)
            if tap.level > 0:
                tap.lf.append({"x0": pre[0], "r0": pre[1], "g0": pre[2], "eps": pre[3], "x1": cp(out[0]), "r1": cp(out[1]),
                               "lp1": float(np.asarray(out[2], dtype=float).reshape(-1)[0]), "g1": cp(out[3]),
                               "top": tap._topidx})
            return out

        def B(s, *a, **k):
            vals = list(tap.sigB.bind(s, *a, **k).arguments.values())      # self, point, r, grad, Ham, log_u, v, j, eps
            top = tap.level == 0
            if top:
                tap._topidx = getattr(tap, "_topidx", -1) + 1
            pre = {"x": cp(vals[1]), "r": cp(vals[2]), "g": cp(vals[3]),
                   "Ham": float(np.asarray(vals[4], dtype=float).reshape(-1)[0]),
                   "log_u": float(np.asarray(vals[5], dtype=float).reshape(-1)[0]), "v": int(vals[6]), "j": int(vals[7]),
                   "eps": float(vals[8])}
            tap.level += 1
            try:
                out = oB(s, *a, **k)
            finally:
                tap.level -= 1
            if len(out) != 13:
                raise MachineryError("_BuildTree returned %d values (13 expected)" % len(out))
            rec = dict(pre, top=top, topidx=tap._topidx, xm=cp(out[0]), rm=cp(out[1]), xp=cp(out[3]), rp=cp(out[4]),
                       xc=cp(out[6]), lpc=float(np.asarray(out[7], dtype=float).reshape(-1)[0]), gc=cp(out[8]),
                       n=int(out[9]), s=int(out[10]), alpha=float(np.asarray(out[11], dtype=float).reshape(-1)[0]),
                       na=int(out[12]))
            tap.bt.append(rec)
            return out
        setattr(self.cls, "_Leapfrog", L)
        setattr(self.cls, "_BuildTree", B)
        self._topidx = -1
        return self

    def __exit__(self, *exc):
        for k, v in self._orig.items():
            setattr(self.cls, k, v)
        self._orig = {}

    def begin_transition(self):
        self.bt, self.lf, self.level, self._topidx = [], [], 0, -1


def nuts_classes():
    import cuqi
    return {"experimental": cuqi.experimental.mcmc.NUTS, "legacy": cuqi.sampler.NUTS}


# ----------------------------------------------------------------------------------------------------------------
# spec -> code: scripted replay of one behaviour
# ----------------------------------------------------------------------------------------------------------------
def direction_for(impl, orbit, u):
    """Direction of the first doubling when the first uniform of the transition is u."""
    cls = nuts_classes()[impl]
    tgt = TableTarget(orbit)
    with Tap(cls) as tap:
        default = {"normal": lambda sh: np.full(sh, tgt.r[0]), "exponential": lambda sh: 1.0, "uniform": lambda sh: 0.9}
        with scripted({"uniform": [u]}, default=default):
            _run_once(impl, tgt, 0, probe=False)
        tops = [b for b in tap.bt if b["top"]]
    if not tops:
        raise MachineryError("calibration: no top-level _BuildTree call observed for %s" % impl)
    return tops[0]["v"]


HALF_LO, HALF_HI = 0.5 * (1 - 1e-6), 0.5 * (1 + 1e-6)


def calibrate_direction(impl, orbit):
    """Which uniform value makes the code choose direction +1?  (The mapping uniform -> direction is an implementation
    choice; the behaviours of the specification fix the direction, not the uniform.)  Both directions have probability
    1/2 in the specification (weights w, kernel rows): a direction decided by one uniform must switch at 1/2, so the two
    scripted values sit 1e-6 (relative) below / above 1/2.
    Returns (map direction -> uniform, fair): fair = False when the direction switches somewhere else than at 1/2."""
    lo, hi = direction_for(impl, orbit, HALF_LO), direction_for(impl, orbit, HALF_HI)
    if {lo, hi} == {-1, 1}:
        return {lo: HALF_LO, hi: HALF_HI}, True
    a, b = direction_for(impl, orbit, 0.25), direction_for(impl, orbit, 0.75)
    if {a, b} != {-1, 1}:
        raise MachineryError("calibration: cannot steer the direction of %s NUTS with one uniform draw (0.25 -> %r, 0.75 -> %r)"
                             % (impl, a, b))
    return {a: 0.25, b: 0.75}, False


def _run_once(impl, tgt, md, probe, cb=None):
    """Construct the sampler on the table target (not watched: validate_target evaluates at a point of its own choice)
    and run ONE transition (plus, for the stateless interface, a probe transition); off-lattice evaluations are watched."""
    import cuqi
    x0 = np.array([tgt.x[0]])
    dist = tgt.distribution()
    watch, tgt.watch = tgt.watch, False
    if impl == "experimental":
        S = cuqi.experimental.mcmc.NUTS(dist, step_size=tgt.eps, max_depth=md, initial_point=x0)
        tgt.watch = watch
        accs = []
        orig = S.step

        def step():
            a = orig()
            accs.append(a)
            return a
        S.step = step
        S.sample(1)
        return S, accs
    S = cuqi.sampler.NUTS(dist, x0=x0, max_depth=md, adapt_step_size=tgt.eps, callback=cb)
    tgt.watch = watch
    out = S.sample(3 if probe else 2)
    return S, out


def build_script(case, dirmap):
    normal, expo, uni = [], [], []
    for d in case["draws"]:
        tau = Fr(d["tau"][0], d["tau"][1])
        if d["k"] == "normal":
            normal.append(np.array([float(tau)]))
        elif d["k"] == "exponential":
            expo.append(float(tau))
        elif d["k"] == "dir":
            uni.append(dirmap[1 if d["cls"] == "plus" else -1])
        elif d["cls"] == "Below":
            uni.append(below(float(tau)))
        else:
            # a uniform just above the threshold; for tau = 0 any interior value (u = 0 has probability zero)
            uni.append(above(float(tau)) if tau > 0 else 0.5)
    return {"normal": normal, "exponential": expo, "uniform": uni}


def expected_alpha(case):
    """mean of min(1, exp(H_t - H_0)) over the leaves of the last doubling; only here are the exponents exponentiated."""
    tot = 0.0
    for a in case["al"]:
        tot += math.exp(float(Fr(a["v"][0], a["v"][1]))) if a["k"] == "fin" else 0.0
    return tot / case["na"]


def _f(x):
    return float(np.asarray(x, dtype=float).reshape(-1)[0])


class Outcome:
    """What one replay observed (for samples / diagnostics) and its first disagreement."""

    def __init__(self):
        self.mismatch = None        # (clause, what, expected, observed)
        self.obs = {}

    def fail(self, clause, what, expected=None, observed=None):
        if self.mismatch is None:
            self.mismatch = (clause, what, expected, observed)
        return self


def compare_tree(out, case, tgt, tap_bt, tap_lf, orig_leapfrog, sampler):
    """visited leaves, lattice, reversibility of every step, (n', s', candidate, ends, n_alpha') of every subtree."""
    if tgt.off:
        return out.fail("lattice", "the integrator evaluated the target at a position that is not on the orbit "
                        "(leapfrog is not half kick - drift - half kick with the current gradients)", None, tgt.off[:3])
    ts = []
    for q in tap_lf:
        t0, t1 = tgt.t_of(q["x0"]), tgt.t_of(q["x1"])
        ts.append(t1)
        if t0 is None or t1 is None or _f(q["r0"]) != tgt.r[t0] or _f(q["r1"]) != tgt.r[t1]:
            return out.fail("lattice", "a leapfrog step does not map (x_t, r_t) to (x_t+v, r_t+v) of the orbit",
                            [tgt.x.get(t1), tgt.r.get(t1)], [_f(q["x1"]), _f(q["r1"])])
    if ts != case["leaves"]:
        return out.fail("leaves", "sequence of leaves visited differs (stopping rule / recursion)", case["leaves"], ts)
    # time reversibility of the real integrator: the step with -eps from the new phase point returns to the old one
    for q in tap_lf[:3] + tap_lf[-1:]:
        back = orig_leapfrog(sampler, q["x1"].copy(), q["r1"].copy(), q["g1"].copy(), -q["eps"])
        if _f(back[0]) != _f(q["x0"]) or _f(back[1]) != _f(q["r0"]):
            return out.fail("reversible", "leapfrog(-eps) does not undo leapfrog(eps)", [_f(q["x0"]), _f(q["r0"])],
                            [_f(back[0]), _f(back[1])])
    exp = case["subs"]
    if len(tap_bt) != len(exp):
        return out.fail("ntree", "number of _BuildTree calls differs", len(exp), len(tap_bt))
    for i, (b, e) in enumerate(zip(tap_bt, exp)):
        got = {"j": b["j"], "n": b["n"], "s": b["s"], "na": b["na"], "lo": tgt.t_of(b["xm"]), "hi": tgt.t_of(b["xp"]),
               "cand": tgt.t_of(b["xc"])}
        for key, clause in (("j", "subtree"), ("lo", "subtree"), ("hi", "subtree"), ("n", "subtree_n"), ("s", "subtree_s"),
                            ("na", "subtree_nalpha"), ("cand", "subsample")):
            if got[key] != e[key]:
                return out.fail(clause, "subtree %d (return order): %s differs" % (i, key), e, got)
    return out


def alpha_clause(case, tgt):
    return "alpha/nan_leaf" if any(tgt.Hkind[t] == "nan" for t in case["last"]) else "alpha"


def replay_experimental(case, orbit, dirmap):
    cls = nuts_classes()["experimental"]
    out = Outcome()
    tgt = TableTarget(orbit)
    script = build_script(case, dirmap)
    nscript = sum(len(v) for v in script.values())
    # draws the behaviour does not contain are served by defaults (momentum r_0, e = 1, a tiny uniform = "take the
    # branch"): HOW MANY draws a transition makes is not fixed by the property; what a departing implementation does with
    # them shows in the leaves / subtrees / selected point compared below
    default = {"normal": lambda sh: np.full(sh, tgt.r[0]), "exponential": lambda sh: 1.0, "uniform": lambda sh: 1e-9}
    with Tap(cls) as tap:
        try:
            with scripted(script, default=default) as st:
                tgt.watch = True
                S, accs = _run_once("experimental", tgt, case["md"], probe=False)
                tgt.watch = False
                left = st.remaining()
                nreq = len(st.log)
        except ScriptError as ex:
            raise MachineryError("experimental NUTS asked for random draws the binding does not script: %s" % str(ex)[:200])
        except MachineryError:
            raise
        except Exception as ex:
            return out.fail("error", "step raised %s: %s" % (type(ex).__name__, str(ex)[:160]))
        finally:
            tgt.watch = False
        bt, lf = list(tap.bt), list(tap.lf)
        compare_tree(out, case, tgt, bt, lf, tap.orig_leapfrog, S)
    if out.mismatch:
        return out
    for attr in ("current_point", "current_target_logd", "current_target_grad"):
        if not hasattr(S, attr):
            raise MachineryError("anchored state attribute %s is missing" % attr)
    pt, lp, gr = _f(S.current_point), _f(S.current_target_logd), _f(S.current_target_grad)
    out.obs = {"point": pt, "logd": lp, "grad": gr, "acc": accs}
    if left or nreq != nscript:       # recorded only (reported as an observation if everything compared conforms)
        out.obs["draws"] = {"scripted": nscript, "requested": nreq, "unused": left}
    tsel = tgt.t_of(pt)
    if not math.isfinite(lp) or (tsel is not None and not math.isfinite(tgt.lp[tsel])):
        return out.fail("nonfinite", "a point with non-finite log-density was selected",
                        {"point": tgt.x[case["cur"]], "logd": tgt.lp[case["cur"]]}, {"point": pt, "logd": lp})
    if pt != tgt.x[case["cur"]]:
        return out.fail("point", "current_point is not the candidate the scripted decisions select",
                        tgt.x[case["cur"]], pt)
    if lp != tgt.lp[case["clp"]]:
        return out.fail("cache_logd", "cached log-density does not belong to the current point", tgt.lp[case["clp"]], lp)
    if gr != tgt.g[case["cg"]]:
        return out.fail("cache_grad", "cached gradient does not belong to the current point", tgt.g[case["cg"]], gr)
    if len(accs) != 1 or int(accs[0]) != case["acc"]:
        return out.fail("acc", "acceptance flag returned by step()", case["acc"], accs)
    nl = getattr(S, "num_tree_node_list", None)
    if nl is None:
        raise MachineryError("documented diagnostic num_tree_node_list is missing")
    if int(nl[-1]) != case["ntree"]:
        return out.fail("ntree", "number of tree nodes reported", case["ntree"], nl[-1])
    if not hasattr(S, "_current_alpha_ratio"):
        raise MachineryError("acceptance statistic attribute _current_alpha_ratio is missing")
    ea, ga = expected_alpha(case), float(S._current_alpha_ratio)
    tops = [b for b in bt if b["top"]]
    if tops[-1]["na"] != case["na"]:
        return out.fail("alpha", "n_alpha of the last doubling", case["na"], tops[-1]["na"])
    if not (abs(ga - ea) <= 1e-12 * max(1.0, abs(ea))):
        return out.fail(alpha_clause(case, tgt), "reported acceptance statistic is not the mean Metropolis probability over "
                        "the leaves of the last doubling", ea, ga)
    return out


def replay_legacy(case, orbit, dirmap):
    cls = nuts_classes()["legacy"]
    out = Outcome()
    tgt = TableTarget(orbit)
    script = build_script(case, dirmap)
    marks = {}
    default = {"normal": lambda sh: np.full(sh, 0.5), "exponential": lambda sh: 1.0, "uniform": lambda sh: 0.75}
    first = {"normal": lambda sh: np.full(sh, tgt.r[0]), "exponential": lambda sh: 1.0, "uniform": lambda sh: 1e-9}
    with Tap(cls) as tap:
        # defaults of the FIRST transition (draws the behaviour does not contain) as in replay_experimental; the probe
        # transition that follows uses arbitrary interior values
        st = Stream(script, dict(first))

        def cb(sample, k):
            if k == 1:
                marks.update(nreq=len(st.log), left=st.remaining(), nbt=len(tap.bt), nlf=len(tap.lf), off=list(tgt.off))
                tgt.watch = False
                st.q = {}                      # whatever the first transition left unused is not handed to the probe
                st.default = default
        try:
            with scripted(stream=st):
                tgt.watch = True
                S, res = _run_once("legacy", tgt, case["md"], probe=True, cb=cb)
        except MachineryError:
            raise
        except Exception as ex:
            return out.fail("error", "sample raised %s: %s" % (type(ex).__name__, str(ex)[:160]))
        finally:
            tgt.watch = False
        if "nreq" not in marks:
            raise MachineryError("legacy NUTS did not invoke the callback after the first transition")
        tgt.off = marks["off"]
        bt, lf = tap.bt[:marks["nbt"]], tap.lf[:marks["nlf"]]
        probe_bt = tap.bt[marks["nbt"]:]
        compare_tree(out, case, tgt, bt, lf, tap.orig_leapfrog, S)
    if out.mismatch:
        return out
    smp = np.asarray(res.samples, dtype=float)
    pt = float(smp[0, 1])
    ll = getattr(res, "loglike_eval", None)
    out.obs = {"point": pt}
    if marks["left"] or marks["nreq"] != len(case["draws"]):       # see replay_experimental: an observation, not a clause
        out.obs["draws"] = {"scripted": len(case["draws"]), "requested": marks["nreq"], "unused": marks["left"]}
    tsel = tgt.t_of(pt)
    if (ll is not None and not math.isfinite(float(ll[1]))) or (tsel is not None and not math.isfinite(tgt.lp[tsel])):
        return out.fail("nonfinite", "a point with non-finite log-density was selected",
                        {"point": tgt.x[case["cur"]], "logd": tgt.lp[case["cur"]]},
                        {"point": pt, "logd": float(ll[1]) if ll is not None else tgt.lp.get(tsel)})
    if pt != tgt.x[case["cur"]]:
        return out.fail("point", "state after the transition is not the candidate the scripted decisions select",
                        tgt.x[case["cur"]], pt)
    if ll is not None and float(ll[1]) != tgt.lp[case["clp"]]:
        return out.fail("cache_logd", "stored log-density does not belong to the current point", tgt.lp[case["clp"]], float(ll[1]))
    # the caches AS USED by the next transition (probe transition with arbitrary draws): start point, gradient, energy
    ptop = [b for b in probe_bt if b["top"]]
    if not ptop:
        raise MachineryError("probe transition of the legacy sampler made no top-level _BuildTree call")
    p0 = ptop[0]
    if _f(p0["x"]) != tgt.x[case["cur"]]:
        return out.fail("point", "the next transition does not start from the selected point", tgt.x[case["cur"]], _f(p0["x"]))
    if _f(p0["g"]) != tgt.g[case["cg"]]:
        return out.fail("cache_grad", "gradient used by the next transition does not belong to the current point",
                        tgt.g[case["cg"]], _f(p0["g"]))
    used_lp = p0["Ham"] + 0.5 * _f(p0["r"]) ** 2
    if not abs(used_lp - tgt.lp[case["clp"]]) <= 1e-12 * max(1.0, abs(used_lp)):
        return out.fail("cache_logd", "log-density used by the next transition does not belong to the current point",
                        tgt.lp[case["clp"]], used_lp)
    nl = getattr(S, "num_tree_node_list", None)
    if nl is None:
        raise MachineryError("documented diagnostic num_tree_node_list is missing")
    if int(nl[0]) != case["ntree"]:
        return out.fail("ntree", "number of tree nodes reported", case["ntree"], nl[0])
    tops = [b for b in bt if b["top"]]
    ea = expected_alpha(case)
    if tops[-1]["na"] != case["na"]:
        return out.fail("alpha", "n_alpha of the last doubling", case["na"], tops[-1]["na"])
    ga = tops[-1]["alpha"] / tops[-1]["na"]
    if not (abs(ga - ea) <= 1e-12 * max(1.0, abs(ea))):
        return out.fail(alpha_clause(case, tgt), "acceptance statistic of the last doubling is not the mean Metropolis "
                        "probability over its leaves", ea, ga)
    return out


# ----------------------------------------------------------------------------------------------------------------
# code -> spec: boolean facets of real transitions
# ----------------------------------------------------------------------------------------------------------------
def _close(a, b, rtol=1e-9, atol=1e-12):
    a, b = np.asarray(a, dtype=float).reshape(-1), np.asarray(b, dtype=float).reshape(-1)
    return a.shape == b.shape and bool(np.allclose(a, b, rtol=rtol, atol=atol, equal_nan=False))


def _facets(tap, target, start_point, end_point, maxd, acc, stat=None):
    """Facets of the transition whose _BuildTree / _Leapfrog calls are in `tap` (fresh evaluations of `target` are the oracle)."""
    tops = [b for b in tap.bt if b["top"]]
    ev = {"e": "trans", "depth": len(tops), "maxd": int(maxd), "nleaf": len(tap.lf), "ntree": len(tap.bt)}
    start = np.asarray(start_point, dtype=float).reshape(-1)
    end = np.asarray(end_point, dtype=float).reshape(-1)
    ev["moved"] = int(not np.array_equal(start, end))
    ev["acc"] = int(acc) if acc is not None else ev["moved"]
    if not tops:
        ev.update(pre_ok=False, slice_ok=False, finite_ok=False, alpha_ok=False, eps_ok=False)
        return ev
    t0 = tops[0]
    fresh_lp, fresh_g = float(target.logd(start)), np.asarray(target.gradient(start), dtype=float).reshape(-1)
    used_lp = t0["Ham"] + 0.5 * float(t0["r"] @ t0["r"])
    # the values the transition starts from: current point, its cached log-density and gradient
    ev["pre_ok"] = bool(np.array_equal(t0["x"], start) and _close(used_lp, fresh_lp) and _close(t0["g"], fresh_g))
    ev["eps_ok"] = bool(all(math.isfinite(b["eps"]) and b["eps"] > 0 for b in tops))
    log_u, Ham = t0["log_u"], t0["Ham"]
    if ev["moved"]:
        leaf = next((q for q in tap.lf if np.array_equal(q["x1"], end)), None)
        if leaf is None:
            ev.update(slice_ok=False, finite_ok=False)
        else:
            H1 = leaf["lp1"] - 0.5 * float(leaf["r1"] @ leaf["r1"])
            ev["slice_ok"] = bool(log_u <= H1 + 1e-12 * max(1.0, abs(H1)))
            ev["finite_ok"] = bool(math.isfinite(leaf["lp1"]) and np.all(np.isfinite(end)))
    else:
        ev["slice_ok"] = bool(log_u <= Ham + 1e-12 * max(1.0, abs(Ham)))
        ev["finite_ok"] = bool(math.isfinite(fresh_lp))
    # acceptance statistic: mean Metropolis probability over exactly the leaves of the last doubling
    lastidx = tops[-1]["topidx"]
    probs = []
    for q in tap.lf:
        if q["top"] == lastidx:
            d = (q["lp1"] - 0.5 * float(q["r1"] @ q["r1"])) - Ham
            probs.append(0.0 if (d != d) else (1.0 if d > 0 else math.exp(d)))
    want = sum(probs) / max(1, len(probs))
    got = tops[-1]["alpha"] / tops[-1]["na"] if tops[-1]["na"] else float("nan")
    ok = len(probs) == tops[-1]["na"] and _close(got, want)
    if stat is not None:
        ok = ok and _close(float(stat), want)
    ev["alpha_ok"] = bool(ok)
    return ev


def record_experimental(make, plan, meta):
    """make() -> fresh cuqi.experimental.mcmc.NUTS; plan: list of ("warmup"|"sample", n).  Returns one trace."""
    cls = nuts_classes()["experimental"]
    for name in ("step", "tune", "_initialize"):
        if name not in cls.__dict__:
            raise MachineryError("recorder target experimental NUTS.%s is missing" % name)
    events = []
    state = {"phase": "direct"}
    o_step, o_tune, o_init = cls.__dict__["step"], cls.__dict__["tune"], cls.__dict__["_initialize"]
    with Tap(cls) as tap:
        def fresh(s):
            p = np.asarray(s.current_point, dtype=float).reshape(-1)
            return float(s.target.logd(p)), np.asarray(s.target.gradient(p), dtype=float).reshape(-1)

        def cache_ok(s):
            lp, g = fresh(s)
            return bool(_close(s.current_target_logd, lp) and _close(np.asarray(s.current_target_grad, dtype=float).reshape(-1), g))

        def w_init(s):
            o_init(s)
            events.append({"e": "init", "cache_ok": cache_ok(s), "finite_ok": bool(np.isfinite(float(s.current_target_logd)))})

        def w_step(s):
            tap.begin_transition()
            start = np.array(s.current_point, dtype=float, copy=True).reshape(-1)
            acc = o_step(s)
            ev = _facets(tap, s.target, start, s.current_point, s.max_depth, acc, stat=getattr(s, "_current_alpha_ratio", None))
            ev["phase"] = state["phase"]
            ev["cache_ok"] = cache_ok(s)
            ev["finite_ok"] = bool(ev["finite_ok"] and np.isfinite(float(s.current_target_logd)))
            events.append(ev)
            return acc

        def w_tune(s, *a, **k):
            out = o_tune(s, *a, **k)
            ok = True
            for nm in ("_epsilon", "_epsilon_bar"):
                try:
                    val = np.asarray(getattr(s, nm), dtype=float).reshape(-1)
                    ok = ok and val.size == 1 and bool(np.isfinite(val[0]) and val[0] > 0)
                except (TypeError, ValueError, AttributeError):
                    ok = False
            events.append({"e": "tune", "eps_ok": bool(ok)})
            return out
        cls._initialize, cls.step, cls.tune = w_init, w_step, w_tune
        try:
            S = make()
            for op, n in plan:
                state["phase"] = op
                getattr(S, op)(n)
        finally:
            cls._initialize, cls.step, cls.tune = o_init, o_step, o_tune
    return {"meta": dict(meta, impl="experimental", plan=[list(p) for p in plan]), "events": events}


def record_legacy(make, N, Nb, meta):
    """make() -> fresh cuqi.sampler.NUTS; one call sample(N, Nb).  Transitions are delimited by _call_callback."""
    import cuqi
    cls = nuts_classes()["legacy"]
    base = cuqi.sampler.Sampler
    if "_call_callback" not in base.__dict__:
        raise MachineryError("recorder target cuqi.sampler.Sampler._call_callback is missing")
    events = []
    o_cb = base.__dict__["_call_callback"]
    st = {"cur": None, "pending": None}
    with Tap(cls) as tap:
        def w_cb(s, sample, k):
            out = o_cb(s, sample, k)
            if isinstance(s, cls):
                end = np.array(sample, dtype=float, copy=True).reshape(-1)
                ev = _facets(tap, s.target, st["cur"], end, s.max_depth, None)
                ev["phase"] = "warmup" if k <= Nb else "sample"
                # cache AS USED: the previous transition's cache_ok is this transition's pre_ok
                if st["pending"] is not None:
                    st["pending"]["cache_ok"] = ev["pre_ok"]
                ev["cache_ok"] = True
                st["pending"] = ev
                events.append(ev)
                st["cur"] = end
                tap.begin_transition()
            return out
        base._call_callback = w_cb
        try:
            S = make()
            st["cur"] = np.array(S.x0, dtype=float, copy=True).reshape(-1)
            events.append({"e": "init", "cache_ok": True, "finite_ok": bool(np.isfinite(float(S.target.logd(st["cur"]))))})
            tap.begin_transition()
            S.sample(N, Nb)
        finally:
            base._call_callback = o_cb
    return {"meta": dict(meta, impl="legacy", N=N, Nb=Nb), "events": events}
