"""C12, round 7: the IDENTITY of the geometry object an input carries (+ the data layout of the input).

Spec: specs/ModelGeomIdent.tla (EXTENDS ModelGeom).  A case = configuration of ModelGeom part C12 (numbers: its `c12` case) +
`gid` (which geometry OBJECT the CUQIarray / Samples input carries) + `lay` (layout / type of the raw values).
  same            the model's own domain-geometry object (the only identity every other facet uses)
  copy / deepcopy copy.copy / copy.deepcopy of it
  twice           constructed a second time with the same arguments
  prior           the geometry object a distribution holds that was given a copy (x = prior.sample(); x.geometry)
  model_deepcopy  the MODEL is copy.deepcopy(model); the inputs carry the original's geometry object
  default / other_identity / other_mapped   (round 8) a Samples object of PARAMETERS created without a geometry (default geometry), with an
                  identity-like one, with a mapped one of another map - all of the model's parameter dimension: forward "converts the input to
                  function values using the domain geometry of the model", so the columns are converted with the MODEL's par2fun; asserted for
                  Samples of parameters, everything else with these geometries is recorded only
  other_*         a geometry that is NOT equal (other grid / other size): nothing asserted, what happens is recorded
For every identity of the first group the outputs / gradients must be the spec's values (= those for `same`).
An "equal" geometry the library's own `==` does not call equal is not asserted either (recorded).
"""
import copy
import os
import warnings

import numpy as np

SPEC = "ModelGeomIdent"
EXTRA = ("ModelGeom.tla",)
DEVIATIONS = [("GeometryMatchedByIdentity", "IdentOneInput"), ("GeometryMatchedByIdentity.wrt", "IdentWrt")]
EQUAL = ("same", "copy", "deepcopy", "twice", "prior", "model_deepcopy")
PAR_ONLY = ("default", "other_identity", "other_mapped")      # Samples of PARAMETERS carrying a geometry that is not the model's (round 8)
DEVIATIONS += [("SamplesConvertedWithOwnGeometry", "IdentSamplesPar")]


def start(ctx):
    from concurrent.futures import ThreadPoolExecutor
    from cuqiverif import tlc
    tag = "%d-%d" % (os.getpid(), id(ctx) % 100000)

    def wd(name):
        return os.path.join(tlc.WORK, "%s-%s-%s" % (SPEC, tag, name))

    jobs = [("dev", dev, inv, dict(cfg="ModelGeomIdent.%s.deviation.cfg" % dev, workers=1, expect_violation=True, timeout=600,
                                   extra_modules=EXTRA, workdir=wd(dev), heap="1g")) for dev, inv in DEVIATIONS]
    jobs += [("main", "decide", None, dict(cfg="ModelGeomIdent.%s.cfg" % ctx.tier, workers=3, timeout=1700, extra_modules=EXTRA, workdir=wd("decide")))]
    ex = ThreadPoolExecutor(max_workers=len(jobs))
    futs = [ex.submit(lambda kw=kw: ctx.tlc(SPEC, **kw)) for _, _, _, kw in jobs]
    return {"jobs": jobs, "futs": futs, "ex": ex}


def abandon(handle):
    from cuqiverif import tlc
    for f in handle["futs"]:
        try:
            tlc.cleanup(f.result())
        except Exception:  # noqa: BLE001
            pass
    handle["ex"].shutdown(wait=True)


def _key(c):
    import json
    return (c["mk"], json.dumps(c["dg"], sort_keys=True), json.dumps(c["rg"], sort_keys=True), c["fi"])


# ----------------------------------------------------------------------------------------------------------------------
def _second_construction(g, geom):
    """The geometry constructed a second time with the SAME arguments (same grids, same map / imap function objects)."""
    import cuqi
    G = cuqi.geometry
    t = type(geom)
    if t is G.Continuous1D or t is G.Discrete:
        return t(g["n"])
    if t is G.Image2D:
        return G.Image2D((g["r"], g["q"]), order=geom.order) if not getattr(geom, "visual_only", False) else G.Image2D((g["r"], g["q"]), visual_only=True)
    if t is G.Continuous2D:
        return G.Continuous2D((g["r"], g["q"]))
    if t is G.StepExpansion:
        return G.StepExpansion(np.arange(g["n"], dtype=float), n_steps=g["k"], fun2par_projection=g["proj"])
    if t is G.KLExpansion:
        return G.KLExpansion(np.linspace(0, 1, g["n"]), decay_rate=1.5, normalizer=2.0, num_modes=g["k"])
    if t is G.MappedGeometry:
        return G.MappedGeometry(G.Continuous1D(g["n"]), map=geom.map, imap=geom.imap)
    if hasattr(geom, "G") and hasattr(geom, "Gp"):           # user geometry of modelgeom_real (linear expansion)
        return t(geom.G.copy(), geom.Gp.copy())
    if hasattr(geom, "n"):                                   # user geometry with the polynomial map
        return t(geom.n)
    return None


def carried_geometry(gid, g, geom):
    """(geometry object the input carries, note).  None: this identity cannot be realised for this geometry class."""
    import cuqi
    if gid in ("same", "model_deepcopy"):
        return geom
    if gid == "copy":
        return copy.copy(geom)
    if gid == "deepcopy":
        return copy.deepcopy(geom)
    if gid == "twice":
        return _second_construction(g, geom)
    if gid == "prior":
        prior = cuqi.distribution.Gaussian(np.zeros(geom.par_dim), 1, geometry=copy.copy(geom))
        np.random.seed(0)
        return prior.sample().geometry
    if gid == "default":
        return "default"                 # no geometry handed to the Samples / CUQIarray constructor
    if gid == "other_identity":
        return cuqi.geometry.Continuous1D(g["k"])
    if gid == "other_mapped":
        return cuqi.geometry.MappedGeometry(cuqi.geometry.Continuous1D(g["k"]), map=lambda x: 2 * x, imap=lambda x: x / 2)
    if gid == "other_compatible":
        # same class and sizes, other grid: not equal
        if isinstance(geom, cuqi.geometry.StepExpansion):
            return cuqi.geometry.StepExpansion(np.arange(g["n"], dtype=float) + 0.5, n_steps=g["k"], fun2par_projection=g["proj"])
        if isinstance(geom, cuqi.geometry.MappedGeometry):
            return cuqi.geometry.MappedGeometry(cuqi.geometry.Continuous1D(np.arange(g["n"], dtype=float) + 0.5), map=geom.map, imap=geom.imap)
        return cuqi.geometry.Continuous1D(np.arange(g["n"], dtype=float) + 0.5)
    if gid == "other_incompatible":
        return cuqi.geometry.Continuous1D(g["k"] + 1)
    return None


def _check_samples_other_geometry(ctx, case, key, model, exp, cg, gid, lay, stats):
    """Samples of PARAMETERS whose own geometry is not the model's (none given / identity-like / another map): the columns are parameters
    of the MODEL - forward converts them with the model's domain geometry.  forward(S), model(S); the input stays as it was."""
    from cuqi.samples import Samples
    from cuqi.array import CUQIarray
    from cuqiverif.modelgeom_real import close
    from cuqiverif.props.c12 import _try
    from cuqiverif.lingauss_common import layout
    P = np.column_stack(exp["vs"])
    want = np.column_stack(exp["outs"])
    with warnings.catch_warnings():
        warnings.simplefilter("ignore")
        for tag, call in (("forward", lambda S: model.forward(S)), ("call", lambda S: model(S))):
            raw = layout(P.copy(), lay)
            S, err = _try(lambda: Samples(raw) if isinstance(cg, str) else Samples(raw, geometry=cg))
            if err is not None:
                stats.setdefault("samples_not_constructible", {})["samples/" + gid] = repr(err)[:80]
                return
            sig = "ident/forward/%s/rep=samples" % key
            ctx.case(("ident", key, "samples", tag), facet="ident/%s" % gid)
            out, err = _try(lambda: call(S))
            if err is not None:
                ctx.mismatch(sig + "/raised", case, "forward raised on a Samples object of parameters whose own geometry is %s (parameter dimension of the model)" % gid,
                             want, repr(err))
            elif not isinstance(out, Samples) or not close(np.asarray(out.samples, dtype=float), want):
                ctx.mismatch(sig + "/value", case, "forward on a Samples object of PARAMETERS (own geometry: %s) is not column-wise H+(F(G v)) with G the par2fun of "
                             "the MODEL's domain geometry" % gid, want, np.asarray(getattr(out, "samples", out)))
            if not close(np.asarray(S.samples, dtype=float), P):
                ctx.mismatch(sig + "/input_mutated", case, "forward changed the input Samples", P, np.asarray(S.samples))
        # recorded only: a CUQIarray of parameters carrying that geometry
        v = exp["vs"][0]
        out, err = _try(lambda: model.forward(CUQIarray(v.copy(), is_par=True) if isinstance(cg, str) else CUQIarray(v.copy(), is_par=True, geometry=cg)))
        o = stats.setdefault("not_asserted", {}).setdefault(gid, {})
        k = "arr_par/" + ("raised" if err is not None else "as_with_the_models_par2fun" if close(np.asarray(out, dtype=float), exp["outs"][0]) else "other_value")
        o[k] = o.get(k, 0) + 1
    stats.setdefault("samples_of_parameters_with_another_geometry", {}).setdefault(gid, 0)
    stats["samples_of_parameters_with_another_geometry"][gid] += 1


def check_ident_case(ctx, ident, base, stats=None):
    # construction refused = violation ident/construct/<key>/construction_refused (modelgeom_real.construct), not a machinery failure
    from cuqiverif.modelgeom_real import ConstructionRefused, report_refusal
    try:
        return _check_ident_case_body(ctx, ident, base, stats)
    except ConstructionRefused as r:
        report_refusal(ctx, dict(base, kind="ident", gid=ident["gid"], lay=ident.get("lay", "f64c")), "ident/construct", r)


def _check_ident_case_body(ctx, ident, base, stats=None):
    import cuqi
    from cuqi.array import CUQIarray
    from cuqi.samples import Samples
    from cuqiverif.modelgeom_real import build_geometry, build_general_model, rmat, close, gkey
    from cuqiverif.props.c12 import _expectations, _try
    from cuqiverif.lingauss_common import layout
    stats = stats if stats is not None else {}
    gid, lay = ident["gid"], ident.get("lay", "f64c")
    case = dict(base, kind="ident", gid=gid, lay=lay)
    Gd, Gpd, Hr, Hpr = (rmat(case[k]) if len(case[k]) else None for k in ("Gd", "Gpd", "Hr", "Hpr"))
    dom = build_geometry(case["dg"], Gd, Gpd)
    rng = build_geometry(case["rg"], Hr, Hpr)
    key = "mk=%s/dom=%s/rng=%s/gid=%s/lay=%s" % (case["mk"], gkey(dom.g), gkey(rng.g), gid, lay)
    exp = _expectations(case, dom, rng)
    model0 = build_general_model(case, dom, rng)
    dgeom, rgeom = model0.domain_geometry, model0.range_geometry
    with warnings.catch_warnings():
        warnings.simplefilter("ignore")
        cg = carried_geometry(gid, case["dg"], dgeom)
        cr = carried_geometry(gid if gid in EQUAL else "copy", case["rg"], rgeom)       # geometry a CUQIarray DIRECTION carries
        model = copy.deepcopy(model0) if gid == "model_deepcopy" else model0
    if cg is None or cr is None:
        stats.setdefault("identity_not_realisable", {}).setdefault(gid + "/" + gkey(dom.g), 0)
        stats["identity_not_realisable"][gid + "/" + gkey(dom.g)] += 1
        return
    own_d, own_r = model.domain_geometry, model.range_geometry
    if gid in PAR_ONLY:
        return _check_samples_other_geometry(ctx, case, key, model, exp, cg, gid, lay, stats)
    asserted = gid in EQUAL
    if asserted:
        # "equal" as the library itself defines it; a distinct object (except for `same`)
        eq, _ = _try(lambda: bool(cg == own_d) and bool(cr == own_r))
        if not eq:
            stats.setdefault("equal_geometry_not_called_equal_by_the_library", {}).setdefault(gid + "/" + gkey(dom.g) + "/" + gkey(rng.g), 0)
            stats["equal_geometry_not_called_equal_by_the_library"][gid + "/" + gkey(dom.g) + "/" + gkey(rng.g)] += 1
            asserted = False
        elif gid != "same" and (cg is own_d):
            stats["identity_realised_by_the_same_object"] = stats.get("identity_realised_by_the_same_object", 0) + 1
        else:
            stats.setdefault("distinct_equal_objects", {}).setdefault(gid, 0)
            stats["distinct_equal_objects"][gid] += 1

    def L(a):
        return layout(np.array(a, dtype=float), lay)

    def report(sig, what, want, got):
        if asserted or sig.endswith(("rep=par_nd/value", "rep=par_nd/raised", "rep=fun_nd/value", "rep=fun_nd/raised", "d_par/w_par/value", "d_par/w_par/raised")):
            ctx.mismatch(sig, case, what, want, got)
        else:
            o = stats.setdefault("not_asserted", {}).setdefault(gid, {})
            o[sig.split("/")[0] + "/" + sig.split("/")[-1]] = o.get(sig.split("/")[0] + "/" + sig.split("/")[-1], 0) + 1

    def compare(rep, i, out, err, wrapped):
        sig = "ident/forward/%s/rep=%s" % (key, rep)
        ctx.case(("ident", key, rep, i), facet="ident/%s" % gid)
        if err is not None:
            report(sig + "/raised", "forward raised on representation %s (geometry object carried: %s; data layout %s)" % (rep, gid, lay), exp["outs"][i], repr(err))
            return
        if wrapped and asserted and (not isinstance(out, CUQIarray) or out.is_par is not True or not (out.geometry == own_r)):
            report(sig + "/wrap", "output is not a CUQIarray of parameters of the range geometry", "CUQIarray(par, range geometry)", type(out).__name__)
            return
        val = np.asarray(out, dtype=float)
        if not close(val, exp["outs"][i]):
            report(sig + "/value", "forward on representation %s (geometry object carried: %s - equal to the model's; data layout %s) is not H+(F(G v)), "
                   "the value obtained with the model's own geometry object and plain float64 data" % (rep, gid, lay), exp["outs"][i], val)
        elif not asserted:
            o = stats.setdefault("not_asserted", {}).setdefault(gid, {})
            o["forward/as_for_the_own_object"] = o.get("forward/as_for_the_own_object", 0) + 1

    with warnings.catch_warnings():
        warnings.simplefilter("ignore")
        for i, v in enumerate(exp["vs"][:2]):
            f = dom.to_fun(exp["fs"][i])
            raw_v, raw_f = L(v), L(f)
            keep = (np.array(raw_v, dtype=float), np.array(raw_f, dtype=float))
            if lay != "f64c":
                # plain arrays in the same layout (no geometry carried: independent of gid, asserted whenever the model is usable)
                was = asserted
                out, err = _try(lambda: model.forward(raw_v))
                compare("par_nd", i, out, err, False)
                out, err = _try(lambda: model.forward(raw_f, is_par=False))
                compare("fun_nd", i, out, err, False)
            out, err = _try(lambda: model.forward(CUQIarray(raw_v, is_par=True, geometry=cg)))
            compare("arr_par", i, out, err, True)
            out, err = _try(lambda: model.forward(CUQIarray(raw_f, is_par=False, geometry=cg)))
            compare("arr_fun", i, out, err, True)
            if i == 0:
                out, err = _try(lambda: model(CUQIarray(raw_f, is_par=False, geometry=cg)))
                compare("arr_fun_call", i, out, err, True)
                out, err = _try(lambda: model.forward(CUQIarray(raw_f, is_par=False, geometry=cg), is_par=False))
                compare("arr_fun_flagged", i, out, err, True)
            if asserted and not (np.array_equal(np.asarray(raw_v, dtype=float), keep[0]) and np.array_equal(np.asarray(raw_f, dtype=float), keep[1])):
                ctx.mismatch("ident/forward/%s/input_modified" % key, case, "forward modified the raw array handed in")
        # Samples of parameters / of function values carrying the other object
        want = np.column_stack(exp["outs"])
        for rep, mk in (("samples", lambda: Samples(L(np.column_stack(exp["vs"])), geometry=cg)),
                        ("samples_fun", lambda: Samples(L(np.stack([dom.to_fun(f) for f in exp["fs"]], axis=-1)), geometry=cg, is_par=False,
                                                        is_vec=(np.stack([dom.to_fun(f) for f in exp["fs"]], axis=-1).ndim == 2)))):
            sig = "ident/forward/%s/rep=%s" % (key, rep)
            ctx.case(("ident", key, rep), facet="ident/%s" % gid)
            S, err = _try(mk)
            if err is not None:
                stats.setdefault("samples_not_constructible", {})[rep + "/" + gid] = repr(err)[:80]
                continue
            out, err = _try(lambda: model.forward(S))
            if err is not None:
                report(sig + "/raised", "forward raised on Samples carrying an equal geometry (%s)" % gid, want, repr(err))
            elif not isinstance(out, Samples) or not close(np.asarray(out.samples, dtype=float), want):
                report(sig + "/value", "forward on Samples carrying an equal but distinct geometry object (%s) is not column-wise H+(F(G v))" % gid,
                       want, np.asarray(getattr(out, "samples", out)))
        # gradient: wrt as CUQIarray of parameters / function values carrying the other object; direction as CUQIarray
        w, d, wf = exp["w"], exp["d"], dom.to_fun(exp["wf"])
        combos = [("d_par/w_par", lambda: model.gradient(L(d), L(w)), case["refused"]),
                  ("d_par/w_arr_par", lambda: model.gradient(L(d), CUQIarray(L(w), is_par=True, geometry=cg)), case["refused"]),
                  ("d_arr/w_arr_par", lambda: model.gradient(CUQIarray(L(d), is_par=True, geometry=cr), CUQIarray(L(w), is_par=True, geometry=cg)), case["refused"])]
        if dom.g["kind"] not in ("noinv", "ugradnoinv"):
            combos.append(("d_par/w_arr_fun", lambda: model.gradient(L(d), CUQIarray(L(wf), is_par=False, geometry=cg)), case["refused_wrt_fun"]))
        for name, call, refused in combos:
            ctx.case(("ident", key, "gradient", name), facet="ident/%s" % gid)
            out, err = _try(call)
            sig = "ident/gradient/%s/%s" % (key, name)
            if refused:
                if err is None and not (exp["grad"] is not None and close(np.asarray(out, dtype=float).ravel(), exp["grad"])):
                    report(sig + "/not_refused", "gradient that cannot be formed correctly is neither refused nor the derivative", exp["grad"], np.asarray(out))
                continue
            if err is not None:
                report(sig + "/raised", "gradient raised for a wrt / direction carrying an equal geometry (%s)" % gid, exp["grad"], repr(err))
            elif not close(np.asarray(out, dtype=float).ravel(), exp["grad"]):
                report(sig + "/value", "gradient with wrt / direction carrying an equal but distinct geometry object (%s) is not "
                       "J_G(wrt)^T J_F(G wrt)^T direction" % gid, exp["grad"], np.asarray(out))


def finish(ctx, handle, c12cases):
    from cuqiverif import tlc
    from cuqiverif.core import MachineryError
    results, err = [], None
    for f in handle["futs"]:
        try:
            results.append(f.result())
        except Exception as e:  # noqa: BLE001
            results.append(None)
            err = err or e
    handle["ex"].shutdown(wait=True)
    if err is not None:
        for res in results:
            if res is not None:
                tlc.cleanup(res)
        raise err
    idents = None
    try:
        for (kind, name, inv, _), res in zip(handle["jobs"], results):
            if kind == "dev":
                if res.ok or res.violated != inv:
                    raise MachineryError("deviation %s did not violate %s on ModelGeomIdent (violated=%r)" % (name, inv, res.violated))
                ctx.observations.setdefault("deviation_counterexamples", {})["IDENT/" + name] = inv
            else:
                ctx.model_must_hold(res, "ModelGeomIdent")
                idents = [c for c in res.cases if c.get("kind") == "ident"]
    finally:
        for res in results:
            tlc.cleanup(res)
    if not idents:
        raise MachineryError("no cases emitted by ModelGeomIdent")
    table = {_key(c): c for c in c12cases}
    idents.sort(key=lambda c: (_key(c), c["gid"]))
    stats = {}
    for ident in idents:
        base = table.get(_key(ident))
        if base is None:
            raise MachineryError("ModelGeomIdent: configuration %r is not among the `c12` cases of ModelGeom part C12" % (_key(ident),))
        check_ident_case(ctx, ident, base, stats)
    ctx.observations["ident_part"] = dict(stats, configurations=len(idents), layouts=sorted({c["lay"] for c in idents}))
    de = stats.get("distinct_equal_objects", {})
    missing = [g for g in EQUAL if g not in ("same",) and not de.get(g)]
    if missing and not ctx.violations:
        raise MachineryError("vacuous: no input carried a distinct geometry object that the library calls equal for the identities %r" % (missing,))
    pick = [c for c in idents if c["gid"] == "prior" and c["dg"]["kind"] == "mapped"][:1]
    for c in pick:
        b = table[_key(c)]
        ctx.sample({"case": {"kind": "ident", "gid": c["gid"], "lay": c["lay"], "mk": c["mk"], "dg": c["dg"], "rg": c["rg"], "vs": b["vs"], "fs": b["fs"], "outs": b["outs"]}})
    ctx.assumptions += ["geometry identity: 'equal' = same class and constructor arguments (same grids, the same map / imap function objects) AND called equal by the "
                        "library's own Geometry.__eq__; inputs carrying a geometry that is not equal (other grid, other size) are recorded, not asserted",
                        "layouts of the raw values: int where every entry is an integer, float32 (all numbers of the lattice are dyadic), strided view, read-only, column-major"]
    return len(idents)


def replay(ctx, case):
    return check_ident_case(ctx, {"gid": case["gid"], "lay": case.get("lay", "f64c")}, case)
