"""C12, facet `seq`: sequences of public operations on ONE model object (specs/ModelGeomSeq12.tla, EXTENDS ModelGeom).

TLC enumerates every behaviour of S12Depth actions of the state machine
    F(rep) forward on one representation | G gradient | SD(g') / SR(g') `model.domain_geometry = g'` / `model.range_geometry = g'`
    | RN n_i = model(dist_i) | UR(i) / URG(i) forward / gradient of the renamed copy n_i
checks S12AnswersCurrent / S12RenamedFrozen / S12NamesInTurn on the intended design (two named deviations must violate them) and emits
  * one `c12` case per configuration (model kind, domain geometry, range geometry) with the exact outputs / gradient / refusal flags
    (ModelGeom's C12Eval - the same numbers the fresh-object check replays),
  * one `seq12` case per behaviour: after every action the current pair (d, r) and the pair `ans` of the configuration answered.
The replay drives ONE real model object (and the copies it hands out) through the behaviour and compares after every action.

Oracle discipline (DESIGN 9): asserted are the forward values / gradient / refusal of the configuration the model has according to
its own public attributes (`:ivar domain_geometry`, `:ivar range_geometry`; forward's docstring: "converts the input ... using the
domain geometry of the model"), the wrapping of the output, that the caller's input objects are left bit-identical, the names.
An assignment that is REFUSED is an observation (the model is then probed once in the configuration its attributes show).  Whether a
renamed copy keeps the geometry objects it was made with or follows the original is not documented: the copy is compared with the
configuration ITS OWN public geometries show (the one it was made with on the unchanged tree) and following is recorded only.
"""
import warnings

import numpy as np

SPEC = "ModelGeomSeq12"
DEVIATIONS = [("StaleAfterSetGeometry", "S12AnswersCurrent"), ("RenameSharesState", "S12RenamedFrozen")]
ANSWERING = ("F", "G", "UR", "URG")


def _try(f):
    try:
        with warnings.catch_warnings():
            warnings.simplefilter("ignore")
            return f(), None
    except Exception as e:  # noqa: BLE001 - a refusal of the real code is data for the comparison
        return None, e


def _strip(c):
    """configuration case without the (large, unused here) renaming table"""
    return {k: v for k, v in c.items() if k != "rename"}


class Numbers:
    """exact numbers of one configuration (TLC's c12 case) as numpy arrays"""

    def __init__(self, case):
        from cuqiverif.modelgeom_real import rvec, ivec, rmat
        self.case = case
        self.vs = [ivec(v) for v in case["vs"]]
        self.fs = [rvec(f) for f in case["fs"]]
        self.outs = [rvec(o) for o in case["outs"]]
        self.w, self.d = ivec(case["w"]), ivec(case["d"])
        self.grad = rvec(case["grad"]) if case["grad_defined"] else None
        self.refused = bool(case["refused"])
        self.Gd, self.Gpd, self.Hr, self.Hpr = (rmat(case[k]) if len(case[k]) else None for k in ("Gd", "Gpd", "Hr", "Hpr"))


class Table:
    """configurations emitted by one TLC run, addressed by (model kind, core operator, index into D, index into R)"""

    def __init__(self, D, R, cases=()):
        self.D, self.R = D, R
        self.raw = {}
        self.num = {}
        for c in cases:
            self.add(c)

    def add(self, c):
        ds = [i + 1 for i, g in enumerate(self.D) if g == c["dg"]]
        rs = [i + 1 for i, g in enumerate(self.R) if g == c["rg"]]
        if len(ds) == 1 and len(rs) == 1:
            self.raw[(c["mk"], c["fi"], ds[0], rs[0])] = c

    def get(self, mk, fi, d, r):
        from cuqiverif.tlc import MachineryError
        k = (mk, fi, d, r)
        if k not in self.num:
            if k not in self.raw:
                raise MachineryError("ModelGeomSeq12 emitted no configuration case for %r" % (k,))
            self.num[k] = Numbers(self.raw[k])
        return self.num[k]


def beh_path(steps, upto=None):
    out = []
    for st in steps[:upto]:
        a = st["a"]
        if a == "F":
            out.append("F:" + st["rep"])
        elif a in ("SD", "SR"):
            out.append("%s:%d" % (a, st["g"]))
        elif a in ("UR", "URG"):
            out.append("%s:%d" % (a, st["i"]))
        else:
            out.append(a)
    return ",".join(out)


def beh_key(b):
    return (b["mk"], b["fi"], b["d0"], b["r0"], beh_path(b["steps"]))


def _snapshot(x):
    from cuqi.samples import Samples
    if isinstance(x, Samples):
        a = np.asarray(x.samples)
        return ("S", a.tobytes(), a.shape, a.dtype.str, getattr(x, "is_par", None), id(x.geometry))
    a = np.asarray(x)
    return ("A", a.tobytes(), a.shape, a.dtype.str, getattr(x, "is_par", None), id(getattr(x, "geometry", None)))


def replay_case_of(beh, table):
    """self-contained, JSON-serialisable case of one behaviour (stored with a mismatch, re-executed by --replay)"""
    pairs = {(beh["d0"], beh["r0"])}
    for st in beh["steps"]:
        pairs.add((st["d"], st["r"]))
        if st["ans"]:
            pairs.add(tuple(st["ans"]))
    return {"kind": "seq12", "beh": beh, "D": table.D, "R": table.R,
            "cfgs": {"%d-%d" % p: _strip(table.raw[(beh["mk"], beh["fi"]) + p]) for p in sorted(pairs)
                     if (beh["mk"], beh["fi"]) + p in table.raw}}


def check_behaviour(ctx, beh, table):
    """Drive one real model object through the behaviour; compare after every action."""
    import cuqi
    from cuqi.array import CUQIarray
    from cuqi.samples import Samples
    from cuqiverif.modelgeom_real import build_geometry, build_general_model, close, gkey
    from cuqiverif.tlc import MachineryError
    mk, fi, steps = beh["mk"], beh["fi"], beh["steps"]
    D, R = table.D, table.R
    names = lambda mdl: list(cuqi.utilities.get_non_default_args(mdl))       # noqa: E731
    stored = []

    def rcase():
        if not stored:
            stored.append(replay_case_of(beh, table))
        return stored[0]

    def num(p):
        return table.get(mk, fi, p[0], p[1])

    # realised geometries: ONE object per pool entry and behaviour (what the user holds and assigns)
    real = {}

    def geo(side, i, partner):
        if (side, i) not in real:
            n = num((i, partner) if side == "D" else (partner, i))
            real[(side, i)] = build_geometry(D[i - 1], n.Gd, n.Gpd) if side == "D" else build_geometry(R[i - 1], n.Hr, n.Hpr)
        return real[(side, i)]

    d0, r0 = beh["d0"], beh["r0"]
    dom0, rng0 = geo("D", d0, r0), geo("R", r0, d0)
    model = build_general_model(num((d0, r0)).case, dom0, rng0)
    gobj = {("D", d0): model.domain_geometry, ("R", r0): model.range_geometry}      # (a default geometry is made by the constructor)

    def obj(side, i, partner):
        if (side, i) not in gobj:
            gobj[(side, i)] = geo(side, i, partner).obj
        return gobj[(side, i)]

    # the realised geometry must have the par2fun of the specification (the geometry itself is C13's subject)
    n0 = num((d0, r0))
    got, e0 = _try(lambda: np.asarray(model.domain_geometry.par2fun(n0.vs[0]), dtype=float).ravel())
    if e0 is not None or not close(got, n0.fs[0]):
        raise MachineryError("realised domain geometry %s does not have the par2fun of the specification" % gkey(D[d0 - 1]))

    copies = []

    def sig(n, what, cfgp=None):
        st = steps[n]
        p = cfgp or (st["d"], st["r"])
        rep = ("/rep=" + st["rep"]) if st["a"] == "F" else ""
        return "seq/%s/mk=%s/dom=%s/rng=%s%s/after=%s/%s" % (st["a"], mk, gkey(D[p[0] - 1]), gkey(R[p[1] - 1]), rep,
                                                            beh_path(steps, n) or "new", what)

    def done(n):
        return "after " + (beh_path(steps, n) or "construction")

    def forward_on(mdl, n, cur, exp, rep, vi, kw=None, pre=""):
        """one forward call on representation rep of input vi of configuration cur; expected: outputs of configuration exp"""
        fsig = lambda n_, what, p_=None: sig(n_, pre + what, p_)            # noqa: E731
        N, E = num(cur), num(exp)
        gd, gr = obj("D", cur[0], cur[1]), obj("R", exp[1], exp[0])
        v = N.vs[vi].copy()
        f = geo("D", cur[0], cur[1]).to_fun(N.fs[vi]).copy()
        want, want_type = E.outs[vi], "ndarray"
        if rep in ("par_nd", "par_kw"):
            x = v
            call = (lambda: mdl.forward(**{kw: x})) if kw else (lambda: mdl.forward(x))
        elif rep == "fun_nd":
            x = f
            call = lambda: mdl.forward(x, is_par=False)                      # noqa: E731
        elif rep == "arr_par":
            x, want_type = CUQIarray(v, is_par=True, geometry=gd), "CUQIarray"
            call = lambda: mdl.forward(x)                                    # noqa: E731
        elif rep == "arr_fun":
            x, want_type = CUQIarray(f, is_par=False, geometry=gd), "CUQIarray"
            call = lambda: mdl.forward(x)                                    # noqa: E731
        elif rep == "samples":
            x, want_type = Samples(np.column_stack(N.vs), geometry=gd), "Samples"
            want = np.column_stack(E.outs)
            call = lambda: mdl.forward(x)                                    # noqa: E731
        else:
            raise MachineryError("unknown representation %r" % rep)
        snap = _snapshot(x)
        out, err = _try(call)
        if _snapshot(x) != snap:
            ctx.mismatch(fsig(n, "input_mutated", exp), rcase(), "forward changed the caller's input object (%s) [%s]" % (rep, done(n)),
                         "input left bit-identical", "input changed")
        if err is not None:
            ctx.mismatch(fsig(n, "raised", exp), rcase(), "forward raised on representation %s [%s]" % (rep, done(n)), want, repr(err))
            return
        if want_type == "ndarray":
            if isinstance(out, Samples) or not isinstance(out, np.ndarray):
                ctx.mismatch(fsig(n, "type", exp), rcase(), "output for ndarray input is not an ndarray [%s]" % done(n), "ndarray", type(out).__name__)
                return
            arr = np.asarray(out, dtype=float)
        elif want_type == "CUQIarray":
            if not isinstance(out, CUQIarray):
                ctx.mismatch(fsig(n, "type", exp), rcase(), "output for CUQIarray input is not wrapped as CUQIarray [%s]" % done(n),
                             "CUQIarray", type(out).__name__)
                return
            if out.is_par is not True or not (out.geometry == gr):
                ctx.mismatch(fsig(n, "wrap", exp), rcase(), "output CUQIarray is not flagged as parameters of the model's range geometry [%s]" % done(n),
                             {"is_par": True, "geometry": repr(gr)}, {"is_par": out.is_par, "geometry": repr(out.geometry)})
                return
            arr = np.asarray(out, dtype=float)
        else:
            if not isinstance(out, Samples):
                ctx.mismatch(fsig(n, "type", exp), rcase(), "output for Samples input is not Samples [%s]" % done(n), "Samples", type(out).__name__)
                return
            if not (out.geometry == gr) or getattr(out, "is_par", True) is not True:
                ctx.mismatch(fsig(n, "wrap", exp), rcase(), "output Samples do not carry the model's range geometry as parameters [%s]" % done(n),
                             repr(gr), repr(out.geometry))
                return
            arr = np.asarray(out.samples, dtype=float)
        if not close(arr, want):
            ctx.mismatch(fsig(n, "value", exp), rcase(), "forward on representation %s is not H+(F(G v)) of the configuration the model has now "
                         "[%s]" % (rep, done(n)), want, arr)

    def gradient_on(mdl, n, cur, exp, vi):
        N, E = num(cur), num(exp)
        d, w = N.d.copy(), N.w.copy()
        if vi == 1:
            w = CUQIarray(w, is_par=True, geometry=obj("D", cur[0], cur[1]))
        sd, sw = _snapshot(d), _snapshot(w)
        out, err = _try(lambda: mdl.gradient(d, w))
        if _snapshot(d) != sd or _snapshot(w) != sw:
            ctx.mismatch(sig(n, "input_mutated", exp), rcase(), "gradient changed the caller's direction / wrt [%s]" % done(n),
                         "inputs left bit-identical", "input changed")
        if E.refused:
            if err is None and not (E.grad is not None and close(np.asarray(out, dtype=float).ravel(), E.grad)):
                ctx.mismatch(sig(n, "not_refused", exp), rcase(), "gradient that cannot be formed correctly for the configuration the model has "
                             "now is not refused and is not the derivative of the parameter-to-parameter map [%s]" % done(n), E.grad, np.asarray(out))
            return
        if err is not None:
            ctx.mismatch(sig(n, "raised", exp), rcase(), "gradient refused / raised although the chain rule can be formed for the configuration "
                         "the model has now [%s]" % done(n), E.grad, repr(err))
        elif not close(np.asarray(out, dtype=float).ravel(), E.grad):
            ctx.mismatch(sig(n, "value", exp), rcase(), "gradient is not J_G(wrt)^T J_F(G wrt)^T direction of the configuration the model has now "
                         "[%s]" % done(n), E.grad, np.asarray(out))

    def dims(mdl, n, p, who=""):
        got = _try(lambda: (int(mdl.domain_dim), int(mdl.range_dim)))[0]
        want = (D[p[0] - 1]["k"], R[p[1] - 1]["k"])
        if got != want:
            ctx.mismatch(sig(n, who + "dims", p), rcase(), "domain_dim / range_dim are not the parameter dimensions of the model's geometries "
                         "[%s]" % done(n + 1), want, got)

    for n, st in enumerate(steps):
        a = st["a"]
        cur = (st["d"], st["r"])
        vi = st["vi"] - 1
        ctx.case(("seq12",) + beh_key(beh)[:4] + (beh_path(steps, n + 1),), facet="seq/" + a)
        if a == "F":
            forward_on(model, n, cur, tuple(st["ans"]), st["rep"], vi)
        elif a == "G":
            gradient_on(model, n, cur, tuple(st["ans"]), vi)
        elif a in ("SD", "SR"):
            side = a[1]
            attr = "domain_geometry" if side == "D" else "range_geometry"
            prev = (steps[n - 1]["d"], steps[n - 1]["r"]) if n else (d0, r0)
            old_obj = getattr(model, attr)
            new_obj = obj(side, st["g"], cur[1] if side == "D" else cur[0])
            _, err = _try(lambda: setattr(model, attr, new_obj))
            if err is not None:
                # refused: acceptable.  The model must not be left half-updated: it is probed once in the configuration its
                # public attribute shows, and the behaviour ends here (the rest of it assumes the assignment).
                o = ctx.observations.setdefault("seq_assignment_refused", {})
                o[gkey((D if side == "D" else R)[st["g"] - 1])] = repr(err)[:120]
                now = getattr(model, attr, None)
                eff = prev if now is old_obj else (cur if now is new_obj else None)
                if eff is not None:
                    forward_on(model, n, eff, eff, "par_nd", 0, pre="refused/")
                    dims(model, n, eff, "refused/")
                return
            # read back: the public attribute shows the geometry assigned
            N = num(cur)
            if side == "D":
                got, e = _try(lambda: np.asarray(model.domain_geometry.par2fun(N.vs[0]), dtype=float).ravel())
                ok = e is None and close(got, N.fs[0])
            else:
                got, e = _try(lambda: tuple(model.range_geometry.par_shape))
                ok = e is None and got == (R[cur[1] - 1]["k"],)
            if not ok:
                ctx.mismatch(sig(n, "readback"), rcase(), "%s read after the assignment is not the geometry assigned [%s]" % (attr, done(n + 1)),
                             repr(new_obj), repr(getattr(model, attr, None)))
        elif a == "RN":
            p = D[cur[0] - 1]["k"]
            dist, e_d = _try(lambda: cuqi.distribution.Gaussian(np.zeros(p), 1, name=st["arg"]))
            if e_d is not None:
                raise MachineryError("cannot build the distribution: %r" % (e_d,))
            new, err = _try(lambda: model(dist))
            if err is not None or not isinstance(new, cuqi.model.Model):
                ctx.mismatch(sig(n, "raised"), rcase(), "model(distribution) did not return a model [%s]" % done(n), "model",
                             repr(err) if err else type(new).__name__)
                return
            if new is model:
                ctx.mismatch(sig(n, "original_mutated"), rcase(), "model(distribution) returned the original object [%s]" % done(n), "a new model", "self")
            if names(new) != [st["arg"]]:
                ctx.mismatch(sig(n, "name"), rcase(), "renamed model does not take the distribution's name [%s]" % done(n), [st["arg"]], names(new))
            copies.append({"model": new, "made": cur})
        elif a in ("UR", "URG"):
            cp = copies[st["i"] - 1]
            made = tuple(st["ans"])
            if cp["made"] != made:
                raise MachineryError("behaviour inconsistent: copy %d made with %r, spec says %r" % (st["i"], cp["made"], made))
            # configuration the copy has according to ITS OWN public geometries
            eff = made
            gd_now, gr_now = _try(lambda: (cp["model"].domain_geometry, cp["model"].range_geometry))[0] or (None, None)
            if gd_now is not obj("D", made[0], made[1]) or gr_now is not obj("R", made[1], made[0]):
                fd = [i for (s, i), o in gobj.items() if s == "D" and o is gd_now]
                fr = [i for (s, i), o in gobj.items() if s == "R" and o is gr_now]
                if len(fd) == 1 and len(fr) == 1:
                    eff = (fd[0], fr[0])
                if eff != made:
                    ctx.observations["seq_renamed_copy_follows_the_geometries_of_the_original"] = \
                        ctx.observations.get("seq_renamed_copy_follows_the_geometries_of_the_original", 0) + 1
            if names(cp["model"]) != [st["arg"]]:
                ctx.mismatch(sig(n, "name", eff), rcase(), "renamed model no longer carries the name of the distribution it was made for "
                             "[%s]" % done(n), [st["arg"]], names(cp["model"]))
            if a == "UR":
                forward_on(cp["model"], n, eff, eff, "par_kw", vi, kw=st["arg"])
            else:
                gradient_on(cp["model"], n, eff, eff, vi)
            dims(cp["model"], n, eff, "renamed/")
        else:
            raise MachineryError("unknown action %r" % a)
        # frame: dimensions follow the geometries; the original keeps its argument name
        dims(model, n, cur)
        if names(model) != [st["arg"] if a in ("F", "G", "SD", "SR") else "x"]:
            ctx.mismatch(sig(n, "original_name"), rcase(), "the original model no longer has its own argument name [%s]" % done(n + 1),
                         ["x"], names(model))


def check_seq12_case(ctx, case):
    # construction refused = violation seq/construct/<key>/construction_refused (modelgeom_real.construct), not a machinery failure
    from cuqiverif.modelgeom_real import refusal_is_violation
    return refusal_is_violation("seq/construct")(_check_seq12_case_body)(ctx, case)


def _check_seq12_case_body(ctx, case):
    """--replay entry: one stored behaviour with the configurations it needs"""
    table = Table(case["D"], case["R"], case["cfgs"].values())
    check_behaviour(ctx, case["beh"], table)


def run_seq12(ctx):
    """TLC on ModelGeomSeq12 (deciding configuration(s) of the tier + the two deviations, concurrently), then replay of every behaviour.
    Returns the number of behaviours replayed."""
    import os
    from concurrent.futures import ThreadPoolExecutor
    from cuqiverif import tlc
    from cuqiverif.core import MachineryError
    extra = ("ModelGeom.tla",)
    tag = "%d-%d" % (os.getpid(), id(ctx) % 100000)
    mains = ["ModelGeomSeq12.quick.cfg"] if ctx.tier == "quick" else ["ModelGeomSeq12.thorough.cfg", "ModelGeomSeq12.deep.thorough.cfg"]

    def wd(name):
        return os.path.join(tlc.WORK, "%s-%s-%s" % (SPEC, tag, name))

    jobs = [("dev", dev, inv, dict(cfg="ModelGeomSeq12.%s.deviation.cfg" % dev, workers=1, expect_violation=True, timeout=600,
                                   extra_modules=extra, workdir=wd(dev), heap="1g")) for dev, inv in DEVIATIONS]
    jobs += [("main", cfg, None, dict(cfg=cfg, workers=8, timeout=1500, extra_modules=extra, workdir=wd(cfg.replace(".cfg", ""))))
             for cfg in mains]
    with ThreadPoolExecutor(max_workers=len(jobs)) as ex:
        futs = [ex.submit(lambda kw=kw: ctx.tlc(SPEC, **kw)) for _, _, _, kw in jobs]
        results = [f.result() for f in futs]
    total = 0
    seen_actions = set()
    try:
        for (kind, name, inv, _), res in zip(jobs, results):
            if kind == "dev":
                if res.violated != inv:
                    raise MachineryError("deviation %s did not violate %s on the model (violated=%r)" % (name, inv, res.violated))
                ctx.observations.setdefault("deviation_counterexamples", {})[name] = inv
                continue
            ctx.model_must_hold(res, "ModelGeomSeq12/" + name)
            inits = [c for c in res.cases if c.get("kind") == "seq12init"]
            behs = [c for c in res.cases if c.get("kind") == "seq12"]
            cfgs = [c for c in res.cases if c.get("kind") == "c12"]
            if not inits or not behs or not cfgs:
                raise MachineryError("ModelGeomSeq12 (%s) emitted init=%d behaviours=%d configurations=%d"
                                     % (name, len(inits), len(behs), len(cfgs)))
            table = Table(inits[0]["D"], inits[0]["R"], cfgs)
            behs.sort(key=beh_key)                      # TLC's workers emit in arbitrary order: replay in a fixed order
            for b in behs:
                check_behaviour(ctx, b, table)
                seen_actions.update(st["a"] for st in b["steps"])
            total += len(behs)
            ctx.observations.setdefault("seq_behaviours", {})[name] = {"behaviours": len(behs), "configurations": len(cfgs),
                                                                      "depth": inits[0]["depth"], "starts": len(inits)}
            mid = behs[len(behs) // 2]
            ctx.sample({"case": {"kind": "seq12", "mk": mid["mk"], "start": [mid["d0"], mid["r0"]], "steps": mid["steps"]}})
    finally:
        for res in results:
            tlc.cleanup(res)
    missing = {"F", "G", "SD", "SR", "RN", "UR"} - seen_actions
    if missing:
        raise MachineryError("vacuous sequence replay: action(s) %s never replayed" % sorted(missing))
    ctx.assumptions += ["sequences on one model object: %s actions, geometries exchanged keep the shape of the function values "
                        "(vectors of length 6 / 4)" % ("3" if ctx.tier == "quick" else "3 (wide lattice) and 4 (lean lattice)")]
    return total
