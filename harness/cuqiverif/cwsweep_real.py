"""Realisation of specs/CWSweep.tla (C02): one sweep of the component-wise Metropolis kernel seen as the ordered record of
the points at which the target is evaluated.

Targets: the spec's tables on {-1,0,1}^d (d = 2, 3) whose support couples the components (band / disc / ring); every
evaluation point of the real target is logged (mhkernel_real.TableTarget).  The spec emits, per component of a sweep, the
proposed value v, its noise xi (v = x_j + s_j xi_j), the point `at` at which the target must be evaluated (the CURRENT
state with only component j replaced), the exact log-ratio r, the decision class and the state after the decision.

Entry points driven (both interfaces; a behaviour of n sweeps):
  exp   step()            n calls on one object                         acceptance flags of every component available
        sample(n)         the public chain loop                        + recorded samples
        warmup(n)         the public warm-up loop, tune_freq such that no tuning happens before the last sweep
  leg   single_update(x.copy(), cached)   state threaded by the harness  acceptance flags available
        sample(n + 1)     the public chain loop (threading of state and cached evaluation done by _sample)
        sample_adapt(10)  the adaptive loop (first n sweeps scripted; the remaining sweeps propose no move)

Randomness: numpy's global stream is scripted.  The noise vector of a sweep is served at the sweep's (single) request for
normals.  A UNIFORM is served according to the evaluation the kernel made last - the uniform of the component proposal whose
evaluation point it is, just below / above the spec's threshold exp(r) - and NOT by position: whether a kernel draws a
uniform for a proposal it refuses as non-finite is neither required nor forbidden, and a kernel that does not must not have
its later decisions judged with the wrong uniform.

Compared per sweep: (1) the evaluation record contains the spec's points at_1 .. at_d as an ordered subsequence (further
evaluations are an observation); (2) a non-finite proposal is not accepted; (3) the acceptance flags; (4) point and
cached log-density after the sweep (sample entries: the recorded states and evaluations).
"""
import math
import numpy as np

from .script_rng import scripted, Stream, ScriptError, below, above
from .tlc import MachineryError
from .mhkernel_real import TableTarget, ext, vec, frac, close

ENTRIES = {"exp": ("step", "sample", "warmup"), "leg": ("single_update", "sample", "sample_adapt")}
ANY_U = (1e-12, 0.5, 1 - 1e-9)          # uniforms offered for a non-finite proposal (it is refused whatever the uniform)


def split_sweeps(prog):
    out, cur = [], []
    for e in prog:
        cur.append(e)
        if e["fin"]:
            out.append(cur)
            cur = []
    if cur:
        raise MachineryError("CWSweep behaviour ends inside a sweep")
    return out


def pattern(sweep):
    return "".join("A" if e["acc"] else ("N" if e["cls"] == "Any" else "R") for e in sweep)


def uniform_of(e, salt):
    if e["cls"] == "Any":
        return ANY_U[salt % 3]
    r = frac(e["r"])
    tau = math.exp(float(r)) if r < 0 else 1.0
    return below(tau) if e["cls"] == "Below" else above(tau)


class SweepStream(Stream):
    """normals: one noise vector per sweep, in order (then zeros: a sweep that proposes no move);
    uniforms: decided by the last evaluation point of the target (see module docstring)"""

    def __init__(self, T, sweeps, d, salt):
        super().__init__({}, None, "cwsweep")
        self.T, self.sweeps, self.d, self.salt = T, sweeps, d, salt
        self.k = -1                 # sweep in progress
        self.off = 0                # len(T.evals) when its noise was drawn
        self.marks = []             # evaluation offsets of the sweeps
        self.unmatched = 0          # uniforms requested after an evaluation that is not a proposal of the spec
        self.nuni = []              # uniforms drawn per sweep
        self.at_uniform = -1        # len(T.evals) at the previous uniform request

    def take(self, fn, kind, shape, args=None):
        shape = tuple(shape)
        n = int(np.prod(shape)) if shape else 1
        self.log.append((fn, kind, shape, args))
        if kind == "normal":
            self.k += 1
            self.off = len(self.T.evals)
            self.marks.append(self.off)
            self.nuni.append(0)
            z = np.zeros(self.d)
            if self.k < len(self.sweeps):
                z = np.array([ext(e["xi"]) for e in self.sweeps[self.k]], dtype=float)
            if n != self.d:
                raise ScriptError("cwsweep: request %s%r for the noise of a sweep in dimension %d" % (fn, shape, self.d))
            return z.reshape(shape)
        if kind == "uniform":
            if n != 1:
                raise ScriptError("cwsweep: request %s%r of uniforms (one per decision expected)" % (fn, shape))
            u = 0.5
            if self.k < 0 or len(self.T.evals) == max(self.off, self.at_uniform):
                # the binding decides WHICH uniform is asked for from the evaluation made just before it
                raise ScriptError("cwsweep: a uniform was requested without a target evaluation since the %s (the binding "
                                  "assumes: evaluate the proposal, then draw the uniform of its decision)" % (
                                      "noise of the sweep" if self.at_uniform < self.off else "previous uniform"))
            self.at_uniform = len(self.T.evals)
            if 0 <= self.k < len(self.sweeps):
                self.nuni[self.k] += 1
                seen = self.T.evals[self.off:]
                j = matched(self.sweeps[self.k], seen)
                sw = self.sweeps[self.k]
                if j > 0 and seen and close(seen[-1], np.array(sw[j - 1]["at"], dtype=float)):
                    u = uniform_of(sw[j - 1], self.salt + j)
                else:
                    self.unmatched += 1
            return float(u) if not shape else np.full(shape, u)
        raise ScriptError("cwsweep: request %s%r of kind %r is not scripted" % (fn, shape, kind))


def matched(sweep, seen):
    """number of leading evaluation points at_1 .. of the sweep found in `seen` as an ordered subsequence"""
    i = 0
    for q in seen:
        if i < len(sweep) and close(q, np.array(sweep[i]["at"], dtype=float)):
            i += 1
    return i


def new_stats():
    return {"patterns": {}, "refused_then_later": {}, "entries": {}, "extra_evaluations": 0, "sweeps": 0,
            "uniform_not_drawn_for_refused": 0, "uniform_after_unmodelled_evaluation": 0}


def _bump(d, k, n=1):
    d[k] = d.get(k, 0) + n


def base_sig(cfg, iface, entry):
    return "sweep/CW/%s/d=%d/tgt=%s/sc=%s/via=%s" % (iface, cfg["d"], cfg["tgt"], cfg["sc"], entry)


def run_sweeps(ctx, beh, root, iface, entry, salt=0, stats=None, tamper=None):
    """Execute one CWSweep behaviour on the real sampler through `entry`; -> number of real sweeps compared.
    tamper (binding self-test only): function applied to the list of sweeps (the EXPECTATION is corrupted)."""
    import cuqi
    from .zoo import quiet
    cfg = beh["cfg"]
    d = cfg["d"]
    stats = stats if stats is not None else new_stats()
    sweeps = split_sweeps(beh["prog"])
    if tamper is not None:
        sweeps = tamper([[dict(e) for e in sw] for sw in sweeps])
    n = len(sweeps)
    base = base_sig(cfg, iface, entry)
    case = {"kind": "sweeps", "cfg": cfg, "prog": beh["prog"], "root": root, "iface": iface, "entry": entry, "salt": salt}
    T = TableTarget(d, root["rows"])
    target = cuqi.distribution.UserDefinedDistribution(dim=d, logpdf_func=T.logpdf)
    x0 = np.array(cfg["x0"], dtype=float)
    sv = vec(root["sv"])
    try:
        with quiet():
            if iface == "exp":
                S = cuqi.experimental.mcmc.CWMH(target, scale=sv.copy(), initial_point=x0.copy())
                S.initialize()
            else:
                S = cuqi.sampler.CWMH(target, scale=sv.copy(), x0=x0.copy())
    except MachineryError:
        raise
    except Exception as ex:
        ctx.mismatch(base + "/construct", case, "sampler cannot be constructed: %s: %s" % (type(ex).__name__, str(ex)[:200]))
        return 0
    st = SweepStream(T, sweeps, d, salt)
    accs, states = [], []          # per sweep: acceptance flags (or None), (point, cached log-density)
    res = None
    try:
        with scripted(stream=st), quiet():
            if iface == "exp" and entry == "step":
                for _ in range(n):
                    accs.append(np.array(S.step(), dtype=float).reshape(-1))
                    states.append((np.array(S.current_point, dtype=float).reshape(-1).copy(), float(S.current_target_logd)))
            elif iface == "exp":
                seen, orig = [], S.step

                def step(*a, **k):
                    r = orig(*a, **k)
                    seen.append(np.array(r, dtype=float).reshape(-1))
                    states.append((np.array(S.current_point, dtype=float).reshape(-1).copy(), float(S.current_target_logd)))
                    return r
                S.step = step
                try:
                    if entry == "sample":
                        S.sample(n)
                    else:
                        S.warmup(n, tune_freq=1.0)          # tune interval = n sweeps: the scale is adapted after the last one only
                finally:
                    del S.step
                accs = seen
                res = np.asarray(S.get_samples().samples, dtype=float)
            elif entry == "single_update":
                x, lp = x0.copy(), float(S.target.logd(x0))
                for _ in range(n):
                    xn, lpn, a = S.single_update(x.copy(), lp)       # a copy: the in-place write of the argument is C14-F1
                    x, lp = np.array(xn, dtype=float).reshape(-1).copy(), float(lpn)
                    accs.append(np.array(a, dtype=float).reshape(-1))
                    states.append((x, lp))
            else:
                out = S.sample(n + 1) if entry == "sample" else S.sample_adapt(10)
                X = np.asarray(out.samples, dtype=float)
                le = np.asarray(out.loglike_eval, dtype=float).reshape(-1)
                N = n + 1 if entry == "sample" else 10
                if X.shape != (d, N) or le.size != N:
                    raise MachineryError("legacy CWMH.%s returned samples %r / evaluations %r" % (entry, X.shape, le.shape))
                res = (X, le)
    except ScriptError as ex:
        raise MachineryError("CWMH (%s, %s) asked for random draws the binding does not script: %s" % (iface, entry, ex))
    except MachineryError:
        raise
    except Exception as ex:
        ctx.mismatch(base + "/step/error", case, "%s raised %s: %s" % (entry, type(ex).__name__, str(ex)[:200]))
        return 0
    if len(st.marks) < n:
        raise MachineryError("CWMH (%s, %s) drew the noise of %d sweeps, %d expected" % (iface, entry, len(st.marks), n))
    _bump(stats["entries"], "%s/%s" % (iface, entry))
    bounds = st.marks + [len(T.evals)]
    for k, sw in enumerate(sweeps):
        stats["sweeps"] += 1
        pat = pattern(sw)
        _bump(stats["patterns"], "%s/d=%d/%s" % (iface, d, pat))
        if "N" in pat[:-1]:
            _bump(stats["refused_then_later"], "%s/d=%d/tgt=%s" % (iface, d, cfg["tgt"]))
        seen = T.evals[bounds[k]:bounds[k + 1]]
        pos = dict(case, sweep=k)
        # (1) the evaluation record: at_1 .. at_d in order
        m = matched(sw, seen)
        if m < len(sw):
            e = sw[m]
            prev = "" if m == 0 else " (component %d before it: %s)" % (m, {"A": "accepted", "R": "rejected", "N": "refused as non-finite"}[pat[m - 1]])
            ctx.mismatch("%s/eval_point/j=%d" % (base, e["j"]), pos,
                         "component %d of the sweep was not evaluated at the current state with only that component replaced%s; "
                         "outcomes of the sweep so far: %s" % (e["j"], prev, pat[:m]),
                         expected=[q["at"] for q in sw], observed=[q.tolist() for q in seen])
            return k
        if len(seen) > len(sw):
            stats["extra_evaluations"] += 1
        if st.nuni[k] < len(sw) and "N" in pat:
            stats["uniform_not_drawn_for_refused"] += 1
        acc = accs[k] if k < len(accs) else None
        if acc is not None and acc.size != d:
            raise MachineryError("CWMH (%s, %s) returned %d acceptance flags in dimension %d" % (iface, entry, acc.size, d))
        got_x, got_lp = (states[k] if k < len(states) else (None, None))
        if got_x is None and res is not None and iface == "leg":
            X, le = res
            got_lp = float(le[k + 1])
            got_x = X[:, k + 1] if k == n - 1 else None        # earlier columns are overwritten in place by the successor (C14-F1)
        # (2) a non-finite proposal is never accepted
        for i, e in enumerate(sw):
            if e["cls"] != "Any":
                continue
            bad = acc is not None and acc[i] > 0
            if acc is None and got_x is not None and i == len(sw) - 1:
                bad = close(got_x, np.array(e["at"], dtype=float))
            if bad:
                kind = "NaN" if math.isnan(ext(e["tv"])) else "NegInf"
                ctx.mismatch("%s/nonfinite_accept/%s" % (base, kind), pos,
                             "component %d: a proposal whose log-density is %s was accepted" % (e["j"], kind),
                             expected={"acc": 0}, observed={"acc": None if acc is None else acc.tolist(), "x": None if got_x is None else got_x.tolist()})
                return k
        # (3) acceptance flags
        if acc is not None:
            eacc = np.array([e["acc"] for e in sw], dtype=float)
            if not np.array_equal(acc > 0, eacc > 0):
                i = int(np.argmax((acc > 0) != (eacc > 0)))
                e = sw[i]
                ctx.mismatch("%s/decision/%s" % (base, e["cls"]), pos,
                             "component %d: decision differs for a uniform just %s the threshold exp(r), r=%s" % (e["j"], e["cls"].lower(), e["r"]),
                             expected=eacc, observed=acc)
                return k
        # (4) state after the sweep
        ex, elp = np.array(sw[-1]["x"], dtype=float), ext(sw[-1]["clp"])
        if got_x is not None and not close(got_x, ex):
            ctx.mismatch(base + "/state/point", pos, "point after sweep %d (outcomes %s) differs from the specification's" % (k + 1, pat),
                         expected=ex, observed=got_x)
            return k
        if got_lp is not None and not close(got_lp, elp):
            ctx.mismatch(base + "/state/cache_lp", pos, "cached log-density after sweep %d (outcomes %s) is not the evaluation at the new point" % (k + 1, pat),
                         expected=elp, observed=got_lp)
            return k
    # recorded chain of the public loops
    ex, elp = np.array(sweeps[-1][-1]["x"], dtype=float), ext(sweeps[-1][-1]["clp"])
    if iface == "exp" and res is not None:
        if res.shape != (d, n) or not close(res[:, -1], ex):
            ctx.mismatch(base + "/samples/point", case, "the state recorded by %s() after the last sweep differs from the specification's" % entry,
                         expected=ex, observed=res[:, -1] if res.size else res)
            return n
    if iface == "leg" and res is not None:
        X, le = res
        if not close(le[0], ext(root["clp"])):
            ctx.mismatch(base + "/samples/cache_lp", case, "evaluation recorded for the initial state", expected=ext(root["clp"]), observed=le[0])
            return n
        if entry == "sample_adapt" and not (all(close(X[:, i], ex) for i in range(n, X.shape[1])) and all(close(le[i], elp) for i in range(n, le.size))):
            ctx.mismatch(base + "/samples/point", case, "sweeps that propose no move (noise 0) changed the recorded state / evaluation",
                         expected={"x": ex, "logd": elp}, observed={"x": X[:, n:].tolist(), "logd": le[n:].tolist()})
            return n
    stats["uniform_after_unmodelled_evaluation"] += st.unmatched
    return n
