"""C17, Part D of specs/TestProblems.tla: the FIELD options of Poisson1D / Heat1D / Abel1D.

field_type (None, a documented string, a Geometry OBJECT of every kind), field_params, map / imap (Abel1D: KL_map /
KL_imap) are <given, value> pairs of the option record; the spec's action SelectGeometry resolves them into geometry
objects of the heap (the base geometry - created from the documented class or the caller's object AS IS - and, whenever a
map is given, a Mapped wrapper that refers to the base, the map and the imap).  For every emitted behaviour this module

  * realises the arguments (`field_kwargs`): fresh map / imap callables per case, the caller's geometry objects built on
    the grid of the problem, a caller-defined Geometry class (UserAlt: p1, p2, p1, p2 ...),
  * compares the finished problem with the spec's geometry record (`check_field`): the domain geometry is a MappedGeometry
    exactly when a map is given (whatever the form of field_type), with THE given map / imap objects and the stated base
    (the caller's object itself, or the documented class with the parameter dimension the field_params imply);
    par2fun(p) and model.forward(p) for the spec's integer parameter vectors against the spec's exact numbers
    (Continuous1D = identity, StepExpansion = piecewise constant, UserAlt; maps 2x+1, x^2+1; Poisson / heat solution
    operator over the rationals, Abel1D through the positive square roots of the spec's squared weights); for the sine /
    cosine expansions (not rational) against solution_operator(map(base.par2fun(p))) with base.par2fun evaluated on an
    UNTOUCHED geometry object built by the harness and the solution operator of an untouched plain twin of the problem;
    posterior / likelihood / exactSolution carry that same (mapped) geometry, the prior has its parameter dimension;
    exactData = solution operator applied to the given exact solution taken as function values.
"""
import numpy as np

FIELD_PROBLEMS = ("Poisson1D", "Heat1D", "Abel1D")
OBJ_TYPES = ("objC1D", "objKL", "objStep", "objUser")
FPARAMS = {"n_steps2": {"n_steps": 2}, "num_modes2": {"num_modes": 2}, "trunc2": {"trunc_term": 2}}
SEEN = {}                # (problem, field_type form, mapped) -> replayed behaviours (vacuity guard)
STATS = {}               # oracle of the forward comparisons -> count

_USER_CLS = []


def user_class():
    """a caller-defined geometry: two parameters, function values p1, p2, p1, p2 ... on the grid (spec: kind UserAlt)"""
    if not _USER_CLS:
        from cuqi.geometry import Continuous1D

        class UserAlt(Continuous1D):
            @property
            def par_shape(self):
                return (2,)

            def par2fun(self, p):
                p = np.asarray(p, dtype=float)
                idx = np.arange(len(self.grid)) % 2
                return p[idx] if p.ndim == 1 else p[idx, :]

            def fun2par(self, f):
                f = np.asarray(f, dtype=float)
                return np.array([f[0::2].mean(axis=0), f[1::2].mean(axis=0)])
        _USER_CLS.append(UserAlt)
    return _USER_CLS[0]


def domain_grid(problem, n):
    """the grid a caller would put under his own geometry object (n regular nodes; the geometry is used as is)"""
    if problem == "Poisson1D":
        return np.linspace(0, n - 1, n)
    if problem == "Heat1D":
        return np.linspace(1, n + 1, n, endpoint=False)
    return np.linspace(0, 2, n)


def make_object(kind, grid):
    import cuqi
    g = np.array(grid, dtype=float)
    if kind == "objC1D":
        return cuqi.geometry.Continuous1D(g)
    if kind == "objKL":
        return cuqi.geometry.KLExpansion(g, num_modes=3)
    if kind == "objStep":
        return cuqi.geometry.StepExpansion(g, n_steps=2)
    if kind == "objUser":
        return user_class()(g)
    raise KeyError(kind)


def make_map(name):
    """fresh callables per case (the geometry must refer to THE given objects)"""
    if name == "affine":
        return lambda x: 2 * x + 1
    if name == "square":
        return lambda x: x ** 2 + 1
    if name == "iaffine":
        return lambda y: (y - 1) / 2
    if name == "isquare":
        return lambda y: np.sqrt(y - 1)
    raise KeyError(name)


def poisson_source(n):
    f = np.array([3.0 if i == 1 else 1.0 - i for i in range(1, n)])          # spec: FSrc(n - 1)
    return lambda xs: f[:len(xs)].copy()


def field_kwargs(c):
    """constructor arguments of the field options that the spec's call GIVES (others are omitted); returns (kw, extras)"""
    a = c["args"]
    p, n = c["problem"], c["n"]
    kw, ex = {}, {"given_geometry": None, "map": None, "imap": None}
    if a["ftype"][0]:
        v = a["ftype"][1]
        if v in OBJ_TYPES:
            ex["given_geometry"] = make_object(v, domain_grid(p, n))
            kw["field_type"] = ex["given_geometry"]
        else:
            kw["field_type"] = v
    if a["fparams"][0]:
        kw["field_params"] = dict(FPARAMS[a["fparams"][1]])
    if a["fmap"][0]:
        ex["map"] = make_map(a["fmap"][1])
        kw["KL_map" if p == "Abel1D" else "map"] = ex["map"]
    if a["fimap"][0]:
        ex["imap"] = make_map(a["fimap"][1])
        kw["KL_imap" if p == "Abel1D" else "imap"] = ex["imap"]
    if a["src"][0]:
        kw["source"] = poisson_source(n)
    return kw, ex


def field_key(c):
    a = c["args"]
    return "/ftype=%s/fparams=%s/fmap=%s/fimap=%s" % tuple(a[k][1] if a[k][0] else "-" for k in ("ftype", "fparams", "fmap", "fimap"))


_TWINS = {}


def _twin(problem, n, quiet, scripted):
    """an untouched plain problem of the same class and size (no field option): its model is the solution operator on
    function values"""
    import cuqi
    k = (problem, n, id(cuqi))
    if k not in _TWINS:
        with quiet(), scripted():
            if problem == "Poisson1D":
                _TWINS[k] = cuqi.testproblem.Poisson1D(dim=n, endpoint=n - 1, source=poisson_source(n))
            elif problem == "Heat1D":
                _TWINS[k] = cuqi.testproblem.Heat1D(dim=n, endpoint=n + 1, max_time=1)
            else:
                _TWINS[k] = cuqi.testproblem.Abel1D(dim=n, endpoint=2)
    return _TWINS[k]


def _qv(v):
    return np.array([a[0] / a[1] for a in v], dtype=float)


def _close(a, b, rtol=1e-10, atol=1e-12):
    a, b = np.asarray(a, dtype=float), np.asarray(b, dtype=float)
    return a.shape == b.shape and np.allclose(a, b, rtol=rtol, atol=atol)


def _grid_of(g):
    try:
        return np.array(g.grid, dtype=float)
    except Exception:       # noqa: BLE001
        return None


def _reference_base(c, base_obs, extras):
    """an UNTOUCHED geometry object equal to the stated base, built by the harness (never handed to the problem)"""
    import cuqi
    f = c["field"]
    a = c["args"]
    if f["base"]["own"] == "user":
        return make_object(a["ftype"][1], domain_grid(c["problem"], c["n"]))
    if not f["basedoc"]:
        return None
    cls = getattr(cuqi.geometry, f["base"]["kind"])
    fp = dict(FPARAMS[a["fparams"][1]]) if a["fparams"][0] else {}
    grid = _grid_of(base_obs)
    if grid is None or len(grid) != f["fundim"]:
        return None
    return cls(grid, **fp)


def check_field(ctx, c, tp, extras, key, case, quiet, scripted, same_geom):
    """compare the finished problem with the spec's field record (see module docstring); False: the parameter dimension is
    not the stated one (reported) and the caller cannot use the spec's parameter vectors on this object"""
    import cuqi
    from cuqi.geometry import MappedGeometry
    from cuqiverif.core import MachineryError
    f = c["field"]
    p, n = c["problem"], f["fundim"]
    a = c["args"]
    sig = lambda what: "problem/field/%s/%s" % (what, key)
    form = ("object" if f["base"]["own"] == "user" else ("string" if a["ftype"][0] else "none"))
    SEEN[(p, form, bool(f["mapped"]))] = SEEN.get((p, form, bool(f["mapped"])), 0) + 1
    ctx.case(("problem", "field", key))
    ctx.facets["field"] = ctx.facets.get("field", 0) + 1
    dg = tp.model.domain_geometry
    # ---- MapGivenIsApplied, structure: Mapped wrapper exactly when a map is given, with THE given map / imap
    is_mapped = isinstance(dg, MappedGeometry)
    if is_mapped != bool(f["mapped"]):
        ctx.mismatch(sig("mapped"), case,
                     ("a map is given (field_type given as %s) but the model's domain geometry is not a MappedGeometry: the map is ignored" % form)
                     if f["mapped"] else "no map is given but the model's domain geometry is a MappedGeometry",
                     expected="MappedGeometry(%s)" % f["base"]["kind"] if f["mapped"] else f["base"]["kind"], observed=repr(dg))
    base = dg
    if is_mapped:
        for attr in ("geometry", "map", "imap"):
            if not hasattr(dg, attr):
                raise MachineryError("MappedGeometry has no attribute %r" % attr)
        base = dg.geometry
        if f["mapped"]:
            if dg.map is not extras["map"]:
                ctx.mismatch(sig("map"), case, "the MappedGeometry does not refer to the given map")
            if dg.imap is not extras["imap"]:
                ctx.mismatch(sig("imap"), case, "the MappedGeometry does not refer to the given imap (None when not given)",
                             expected=a["fimap"][1] if a["fimap"][0] else None, observed=repr(dg.imap))
    # ---- GeometryObjectUsedAsIs / the documented class is created
    if f["base"]["own"] == "user":
        if base is not extras["given_geometry"]:
            ctx.mismatch(sig("base_identity"), case, "the Geometry object given as field_type is not used as is as the (base) domain geometry",
                         expected=repr(extras["given_geometry"]), observed=repr(base))
    elif f["basedoc"]:
        if type(base) is not getattr(cuqi.geometry, f["base"]["kind"]):
            ctx.mismatch(sig("base_class"), case, "the (base) domain geometry is not the class the documentation states for this field_type",
                         expected=f["base"]["kind"], observed=type(base).__name__)
    else:
        ctx.observations.setdefault("abel_string_field_type_creates", {})[str(a["ftype"][1])] = type(base).__name__
    # ---- dimensions: parameters of the base, function values on the n nodes; the prior lives on the parameters
    pardim = f["pardim"] if (f["basedoc"] or f["base"]["own"] == "user") else int(base.par_dim)
    try:
        dims = {"domain_geometry.par_dim": int(dg.par_dim), "model.domain_dim": int(tp.model.domain_dim),
                "prior.dim": int(tp.prior.dim), "posterior.dim": int(tp.posterior.dim)}
        fshape = tuple(dg.fun_shape)
    except Exception as e:      # noqa: BLE001
        ctx.mismatch(sig("pardim"), case, "dimensions of the domain geometry / prior cannot be read: %r" % (e,))
        return False
    if any(v != pardim for v in dims.values()) or fshape != (n,):
        ctx.mismatch(sig("pardim"), case, "parameter dimension of domain geometry / model / prior / posterior (or the function shape) is not the one "
                     "the field options state", expected={"par_dim": pardim, "fun_shape": (n,)}, observed=dict(dims, fun_shape=fshape))
        return False            # (the spec's parameter vectors do not fit this object: nothing further is compared)
    # ---- the one (mapped) geometry everywhere
    for who, g in (("posterior", getattr(tp.posterior, "geometry", None)), ("likelihood", getattr(tp.likelihood, "geometry", None)),
                   ("exactSolution", getattr(tp.exactSolution, "geometry", None))):
        ok = g is dg
        if not ok and g is not None and isinstance(g, MappedGeometry) == is_mapped:
            if is_mapped:
                ok = g.map is dg.map and g.imap is dg.imap and (g.geometry is base or same_geom(g.geometry, base))
            else:
                ok = type(g) is type(dg) and same_geom(g, dg)
        if not ok:
            ctx.mismatch(sig("geometry/" + who), case, "%s does not carry the model's (mapped) domain geometry" % who,
                         expected=repr(dg), observed=repr(g))
    # ---- forward(p) = solution operator( map( par2fun_base(p) ) )
    mp = make_map(a["fmap"][1]) if a["fmap"][0] else (lambda v: v)
    pars = [np.array(q, dtype=float) for q in f["pars"]]
    if not (f["basedoc"] or f["base"]["own"] == "user"):
        d = int(base.par_dim)
        pars = [np.array([((i - 1) % 3) + 1 for i in range(1, d + 1)], dtype=float), np.array([3 - ((i - 1) % 3) for i in range(1, d + 1)], dtype=float)]
    ref = None
    if f["fknown"] and (f["basedoc"] or f["base"]["own"] == "user"):
        fields = [np.array(v, dtype=float) for v in f["fld"]]                 # the spec's exact function values
        if len(fields) != len(pars):
            raise MachineryError("field table of the specification is incomplete")
    else:
        with quiet():
            ref = _reference_base(c, base, extras)
            src = ref if ref is not None else base        # (Abel1D strings: class undocumented, the object's own base)
            fields = [np.asarray(mp(np.asarray(src.par2fun(q), dtype=float)), dtype=float) for q in pars]
    # the solution operator on function values
    heat_ok = True
    if p == "Heat1D":
        ts = np.asarray(tp.model.pde.time_steps, dtype=float)
        gr = _grid_of(dg)
        r, K = f["heat"]["r"], f["heat"]["K"]
        heat_ok = len(ts) == K + 1 and gr is not None and len(gr) > 1 and \
            abs((ts[1] - ts[0]) / (gr[1] - gr[0]) ** 2 - r[0] / r[1]) < 1e-12 and getattr(tp.model.pde, "method", None) == "forward_euler"
        if not heat_ok:
            ctx.observations.setdefault("heat_field_unmatched_step", {})[key] = [len(ts) - 1]
    use_spec = f["fknown"] and f["opknown"] and heat_ok and (f["basedoc"] or f["base"]["own"] == "user")
    A = None
    if p == "Abel1D":
        A = np.sqrt(np.array([[w[0] / w[1] for w in row] for row in f["W2"]], dtype=float))      # positive weights, squares from the spec
    twin = None
    for i, (q, fld) in enumerate(zip(pars, fields)):
        if p == "Poisson1D" and not np.all(fld > 0):
            STATS["skipped: conductivity not positive"] = STATS.get("skipped: conductivity not positive", 0) + 1
            continue            # the Poisson operator is defined for a positive conductivity field only
        oracle = "spec: exact rational solution" if use_spec else ("spec: Abel weights applied to the field" if A is not None else "untouched twin operator")
        oracle += " / " + ("spec field" if ref is None and f["fknown"] and (f["basedoc"] or f["base"]["own"] == "user") else "untouched reference geometry")
        STATS[oracle] = STATS.get(oracle, 0) + 1
        if use_spec:
            exp = _qv(f["fwd"][i])
        elif A is not None:
            exp = A @ fld
        else:
            twin = twin or _twin(p, n, quiet, scripted)
            try:
                with quiet():
                    exp = np.asarray(twin.model.forward(fld), dtype=float).ravel()
            except Exception:       # noqa: BLE001  (a field the plain operator itself cannot take: nothing to compare)
                continue
            if not np.all(np.isfinite(exp)):
                continue
        try:
            with quiet():
                fun = np.asarray(dg.par2fun(q), dtype=float)
                got = np.asarray(tp.model.forward(q), dtype=float).ravel()
        except Exception as e:      # noqa: BLE001
            ctx.mismatch(sig("forward"), dict(case, p=q.tolist()), "model.forward / par2fun raise for admissible parameters: %r" % (e,))
            break
        if f["mapped"] == is_mapped and not _close(fun, fld):
            ctx.mismatch(sig("par2fun"), dict(case, p=q.tolist()), "domain_geometry.par2fun(p) is not map(par2fun_base(p))", fld, fun)
            break
        if not _close(got, exp, rtol=1e-9, atol=1e-11):
            ctx.mismatch(sig("forward"), dict(case, p=q.tolist()),
                         "model.forward(p) is not the documented solution operator applied to map(par2fun_base(p))", exp, got)
            break
    # ---- FieldExactData: exact data = solution operator applied to the given exact solution (function values)
    if f["fyknown"] and heat_ok:
        yex = np.asarray(tp.exactData, dtype=float).ravel()
        fy = _qv(f["fy"])
        if not _close(yex, fy, rtol=1e-9, atol=1e-11):
            ctx.mismatch(sig("exactdata"), case, "exactData is not the solution operator applied to the given exactSolution (function values)", fy, yex)
    return True


def check_coverage(ctx):
    """every problem x form of field_type (none / string / Geometry object) x (map given or not) was replayed"""
    from cuqiverif.core import MachineryError
    ctx.observe("field_forward_comparisons_by_oracle", dict(STATS))
    ctx.observe("field_option_behaviours_replayed", {"%s/%s/%s" % (k[0], k[1], "map" if k[2] else "nomap"): v for k, v in sorted(SEEN.items())})
    missing = [(p, form, m) for p in FIELD_PROBLEMS for form in ("none", "string", "object") for m in (False, True)
               if not SEEN.get((p, form, m))]
    if missing and not ctx.violations and not ctx.known_hits:
        raise MachineryError("field-option behaviours of the specification were not replayed: %r" % (missing,))
