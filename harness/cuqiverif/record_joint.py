"""Recorder of conditioning lineages (C01 code -> spec): one trace per root JointDistribution built from
unconditioned-or-conditional Distributions; every object derived from it by conditioning is followed.

Events: construct / condition / logd, see specs/TraceJointCond.tla.  `value_ok` is computed against the ROOT factor
objects the user passed to the constructor (each evaluated alone at the accumulated assignment), never through the
object under test.
"""
import numpy as np

from .record import Recorder


class _Tag:
    __slots__ = ("root", "oid", "fixed")

    def __init__(self, root, oid, fixed):
        self.root, self.oid, self.fixed = root, oid, fixed


class _Root:
    def __init__(self, joint, densities):
        self.joint = joint
        self.densities = list(densities)
        self.names = [d.name for d in densities]
        self.nobj = 1


def _settag(obj, tag):
    try:
        object.__setattr__(obj, "_cv_joint", tag)
        return True
    except Exception:
        return False


def install_joint(rec):
    import cuqi
    from cuqi.distribution import JointDistribution, Distribution
    from cuqi.density import Density
    from cuqiverif.core import MachineryError
    for cls, names in ((JointDistribution, ("__init__", "__call__", "logd", "_as_stacked")), (Density, ("__call__", "logd"))):
        for n in names:
            if n not in cls.__dict__:
                raise MachineryError("recorder target %s.%s is missing" % (cls.__name__, n))
    state = {"depth": 0}

    def idx(root, names):
        return [root.names.index(n) + 1 for n in names]

    def oracle(root, vals):
        """sum of the root factors, each evaluated alone at the complete assignment"""
        tot = 0.0
        for d in root.densities:
            kw = {n: vals[n] for n in d.get_parameter_names()}
            tot = tot + d.logd(**kw)
        return float(np.asarray(tot).reshape(-1)[0])

    # ---- roots --------------------------------------------------------------------------------------------
    def mk_init(orig):
        def wrapper(self, *densities):
            orig(self, *densities)
            if state["depth"] > 0:
                return
            try:
                if not densities or not all(isinstance(d, Distribution) for d in densities):
                    return
                if type(self).__name__ != "JointDistribution":
                    return
                state["depth"] += 1
                try:
                    root = _Root(self, densities)
                    parents = []
                    for d in densities:
                        parents.append(idx(root, [n for n in d.get_parameter_names() if n != d.name]))
                finally:
                    state["depth"] -= 1
                _settag(self, _Tag(root, 1, {}))
                rec.emit(root, {"e": "construct", "names": list(range(1, len(root.names) + 1)), "parents": parents},
                         varnames=list(root.names), families=[type(d).__name__ for d in densities])
            except Exception:
                pass
        return wrapper
    rec.patch(JointDistribution, "__init__", mk_init)

    # ---- conditioning ---------------------------------------------------------------------------------------
    def given_names(obj, args, kwargs):
        """names of the variables fixed by obj(*args, **kwargs); None if the call is not a plain conditioning on variables"""
        names = list(obj.get_parameter_names())
        if len(args) > len(names):
            return None
        g = list(names[:len(args)]) + list(kwargs)
        if len(set(g)) != len(g):
            return None
        return g

    def mk_call(orig):
        def wrapper(self, *args, **kwargs):
            tag = getattr(self, "_cv_joint", None)
            if tag is None or state["depth"] > 0:
                return orig(self, *args, **kwargs)
            root = tag.root
            state["depth"] += 1
            try:
                try:
                    g = given_names(self, args, kwargs)
                    free = [n for n in root.names if n not in tag.fixed]
                    wellformed = g is not None and set(g) <= set(free) and set(self.get_parameter_names()) == set(free)
                    vals = dict(zip(list(self.get_parameter_names())[:len(args)], args)) if g is not None else {}
                    vals.update(kwargs)
                except Exception:
                    wellformed, g, vals = False, None, {}
                try:
                    res = orig(self, *args, **kwargs)
                except Exception:
                    if wellformed:
                        rec.emit(root, {"e": "condition", "obj": tag.oid, "given": idx(root, g), "res": 0, "names": [], "cls": "refused"})
                    raise
                if not wellformed:
                    return res          # not a conditioning on the joint's variables: the result is not followed
                root.nobj += 1
                fixed = dict(tag.fixed)
                fixed.update({n: vals[n] for n in g})
                try:
                    rnames = idx(root, list(res.get_parameter_names()))
                except Exception:
                    rnames = [0]
                if res is not self:
                    _settag(res, _Tag(root, root.nobj, fixed))
                rec.emit(root, {"e": "condition", "obj": tag.oid, "given": idx(root, g), "res": root.nobj, "names": rnames,
                                "cls": type(res).__name__})
                return res
            finally:
                state["depth"] -= 1
        return wrapper
    rec.patch(JointDistribution, "__call__", mk_call)
    rec.patch(Density, "__call__", mk_call)
    for cls in (cuqi.distribution.Distribution, cuqi.likelihood.Likelihood, cuqi.density.EvaluatedDensity):
        if "__call__" in cls.__dict__:
            rec.patch(cls, "__call__", mk_call)

    def mk_stacked(orig):
        def wrapper(self):
            tag = getattr(self, "_cv_joint", None)
            state["depth"] += 1
            try:
                res = orig(self)
            finally:
                state["depth"] -= 1
            if tag is not None and state["depth"] == 0:
                root = tag.root
                root.nobj += 1
                _settag(res, _Tag(root, root.nobj, dict(tag.fixed)))
                try:
                    rnames = idx(root, list(res.get_parameter_names()))
                except Exception:
                    rnames = [0]
                rec.emit(root, {"e": "condition", "obj": tag.oid, "given": [], "res": root.nobj, "names": rnames, "cls": type(res).__name__})
            return res
        return wrapper
    rec.patch(JointDistribution, "_as_stacked", mk_stacked)

    # ---- evaluation ---------------------------------------------------------------------------------------------
    def mk_logd(orig):
        def wrapper(self, *args, **kwargs):
            tag = getattr(self, "_cv_joint", None)
            if tag is None or state["depth"] > 0:
                return orig(self, *args, **kwargs)
            root = tag.root
            state["depth"] += 1
            try:
                ev = None
                try:
                    stacked = type(self).__name__ == "_StackedJointDistribution"
                    names = list(self.get_parameter_names())
                    free = [n for n in root.names if n not in tag.fixed]
                    if stacked and len(args) == 1 and not kwargs:
                        dims = [root.densities[root.names.index(n)].dim for n in names]
                        parts = np.split(np.asarray(args[0], dtype=float), np.cumsum(dims)[:-1])
                        vals, g, malformed = dict(zip(names, parts)), list(names), len(np.asarray(args[0]).reshape(-1)) != sum(dims)
                    else:
                        malformed = len(args) > len(names) or bool(set(names[:len(args)]) & set(kwargs)) or (len(args) > 0 and len(kwargs) > 0 and not isinstance(self, JointDistribution))
                        vals = dict(zip(names[:len(args)], args))
                        vals.update(kwargs)
                        g = list(vals)
                        if any(n not in root.names for n in g):
                            malformed = True
                    ev = {"e": "logd", "obj": tag.oid, "given": idx(root, [n for n in g if n in root.names]), "malformed": bool(malformed)}
                except Exception:
                    ev = None
                try:
                    out = orig(self, *args, **kwargs)
                except Exception:
                    if ev is not None:
                        ev.update(outcome="error", value_ok=False)
                        rec.emit(root, ev)
                    raise
                if ev is not None:
                    ok = False
                    if not ev["malformed"] and set(g) == set(free):
                        try:
                            full = dict(tag.fixed)
                            full.update(vals)
                            exp = oracle(root, full)
                            got = float(np.asarray(out).reshape(-1)[0])
                            ok = bool(abs(got - exp) <= 1e-8 * max(1.0, abs(exp)) or (np.isinf(exp) and got == exp) or (np.isnan(exp) and np.isnan(got)))
                        except Exception:
                            ev = None      # the oracle cannot be evaluated (e.g. value outside a support): no verdict
                    if ev is not None:
                        ev.update(outcome="value", value_ok=ok)
                        rec.emit(root, ev)
                return out
            finally:
                state["depth"] -= 1
        return wrapper
    rec.patch(JointDistribution, "logd", mk_logd)
    rec.patch(Density, "logd", mk_logd)
    if "logd" in Distribution.__dict__:
        rec.patch(Distribution, "logd", mk_logd)
    for nm in ("_StackedJointDistribution",):
        cls = getattr(cuqi.distribution._joint_distribution, nm, None)
        if cls is not None and "logd" in cls.__dict__:
            rec.patch(cls, "logd", mk_logd)
    return rec
