"""Realisation of MHKernel.tla configurations as real CUQIpy objects, and one-transition drivers for both interfaces (C02).

Everything numeric comes from the spec's emission: the target / drift tables (`rows` of the root case), the proposal
noise xi, the exact log-ratio r and the predicted state after every action.  Extended rationals [n, d]:
d > 0 -> n/d, [0,0] NaN, [-1,0] -inf, [1,0] "this kernel has no such cache".
"""
import math, pickle
from fractions import Fraction
import numpy as np

from .script_rng import scripted, below, above, ScriptError, Stream, _make_functions
from .tlc import MachineryError


def ext(v):
    n, d = v
    if d > 0:
        return float(Fraction(n, d))
    if (n, d) == (0, 0):
        return float("nan")
    if (n, d) == (-1, 0):
        return float("-inf")
    return None


def vec(v):
    return np.array([ext(q) for q in v], dtype=float)


def frac(v):
    return Fraction(v[0], v[1])


class InjectedFailure(RuntimeError):
    """raised by an armed TableTarget: the target evaluation fails (a forward solver that does not converge, ...)"""


class TableTarget:
    """log-density / drift given by a table keyed by the exact lattice position (spec rows); off the lattice a smooth
    finite fallback (any function is a legitimate target).  Every evaluation point is logged.
    arm(kind, n): the n-th evaluation of that kind ("lp": log-density / likelihood / forward map, "grad": drift) made from
    now on raises InjectedFailure, once (action Abort of the specification)."""

    def __init__(self, d, rows):
        self.d = d
        self.tab = {tuple(int(q) for q in r["p"]): (ext(r["t"]), vec(r["g"])) for r in rows}
        self.evals = []
        self.gevals = []
        self.armed = None
        self.fired = 0

    def arm(self, kind, n):
        self.armed = [kind, int(n)]
        self.fired = 0

    def disarm(self):
        """-> True when the armed evaluation was reached (and raised)"""
        self.armed = None
        return self.fired > 0

    def tick(self, kind):
        a = self.armed
        if a is not None and a[0] == kind:
            a[1] -= 1
            if a[1] <= 0:
                self.armed = None
                self.fired += 1
                raise InjectedFailure("injected failure of the target evaluation (%s)" % kind)

    def key(self, x):
        x = np.asarray(x, dtype=float).reshape(-1)
        if x.size != self.d or not np.all(np.isfinite(x)):
            return None
        r = np.rint(x)
        if np.max(np.abs(x - r)) > 1e-9:
            return None
        k = tuple(int(q) for q in r)
        return k if k in self.tab else None

    def logpdf(self, x):
        xx = np.array(x, dtype=float).reshape(-1)
        self.tick("lp")
        self.evals.append(xx.copy())
        k = self.key(xx)
        if k is None:
            return -0.5 * float(xx @ xx) - 1.0
        return self.tab[k][0]

    def gradient(self, x):
        xx = np.array(x, dtype=float).reshape(-1)
        self.tick("grad")
        self.gevals.append(xx.copy())
        k = self.key(xx)
        if k is None:
            return -xx
        return self.tab[k][1].copy()


# randomness sources (field cfg.src of the specification) ------------------------------------------------------------
FILL = 0.372931        # handed out when more normals are requested than the noise vector has (never a lattice noise)


class ComponentStream(Stream):
    """Scripted draws as a flat stream of scalars per kind: the noise of the specification is a d-vector of INDEPENDENT
    components, so a request of shape S takes prod(S) consecutive components and a request WITHOUT a size takes ONE.
    A kernel that asks its source for one value where the mechanism needs d therefore proposes a point that differs from
    the specification's (conformance mismatch) - it is not a machinery error.  Requests beyond the scripted noise are
    served with FILL (counted in `short`); the uniform of a decision must be scripted.  free-running mode (warm-up runs
    of the stateless interface): values of a private seeded generator, not logged."""

    def __init__(self, name):
        super().__init__({}, None, name)
        self.short = 0
        self.free = None
        self.collapse = False      # binding self-test: every normal request is served with ONE value (shared by all components)

    def load(self, normals, uniforms):
        self.q = {"normal": [float(v) for a in normals for v in np.asarray(a, dtype=float).reshape(-1)],
                  "uniform": [float(v) for a in uniforms for v in np.asarray(a, dtype=float).reshape(-1)]}
        self.log = []
        self.short = 0

    def count(self, kind):
        return sum(1 for q in self.log if q[1] == kind)

    def calls(self):
        return [[q[0], list(q[2])] for q in self.log]

    def take(self, fn, kind, shape, args=None):
        shape = tuple(shape)
        n = int(np.prod(shape)) if shape else 1
        if self.free is not None:
            if kind not in ("normal", "uniform"):
                raise ScriptError("%s: request %s of kind %r cannot be served" % (self.name, fn, kind))
            v = self.free.standard_normal(n) if kind == "normal" else self.free.uniform(size=n)
            return float(v[0]) if not shape else v.reshape(shape)
        self.log.append((fn, kind, shape, args))
        if kind not in ("normal", "uniform"):
            raise ScriptError("%s: request %s%r of kind %r is not scripted" % (self.name, fn, shape, kind))
        lst = self.q.setdefault(kind, [])
        if kind == "uniform" and len(lst) < n:
            raise ScriptError("%s: request %s%r of kind 'uniform' but the script is exhausted" % (self.name, fn, shape))
        if kind == "normal" and self.collapse:
            vals = [lst.pop(0) if lst else FILL] * n
        else:
            vals = []
            for _ in range(n):
                if lst:
                    vals.append(lst.pop(0))
                else:
                    vals.append(FILL)
                    self.short += 1
        return float(vals[0]) if not shape else np.array(vals, dtype=float).reshape(shape)


class SourceRNG:
    """Stand-in for a numpy RandomState / Generator handed to the code as rng= or used by a user-supplied proposal /
    prior object / callable (script_rng.StubRNG with the component-stream rule): records (function, shape) of every call"""

    def __init__(self, name="stub-generator"):
        self.stream = ComponentStream(name)
        for k, v in _make_functions(self.stream).items():
            setattr(self, k, v)


# (kernel, source) -> realisations; the first one carries no /real= in the signatures
SOURCE_REALS = {
    ("RW", "proposal"): ("user", "gaussrng", "normalrng"),     # UserDefinedDistribution(sample_func) | Gaussian | Normal drawing from the generator
    ("CW", "proposal"): ("user", "meanstd"),                   # Normal conditional on (location, scale) | on (mean, std) (stateless interface only)
    ("CW", "callable"): ("user",),
    ("PCN", "prior"): ("user", "normalrng", "tuple"),          # Gaussian prior | Normal prior | (likelihood, user-defined prior) (stateless, m = 0)
    ("MALA", "rng"): ("user", "ula"),                          # rng= of cuqi.sampler.MALA | cuqi.sampler.ULA (proposal only)
}


def _via(base, G):
    """subclass of a CUQIpy distribution whose sample() draws from the generator G: the rng= argument of the
    distribution's own _sample (the samplers call proposal.sample(1) / prior.sample(1) without one)"""
    class Via(base):
        def _sample(self, N=1, rng=None):
            return super()._sample(N, rng=G if rng is None else rng)
    Via.__name__ = base.__name__ + "Via"
    return Via


def source_kwargs(cfg, real, G):
    """constructor arguments that realise the randomness source of the configuration (not the target: build_target)"""
    import cuqi
    k, src, d = cfg["k"], cfg.get("src", "global"), cfg["d"]
    if src == "global":
        return {}
    if src == "rng":
        return {"rng": G}
    if src == "proposal" and k == "RW":
        if real == "gaussrng":
            return {"proposal": _via(cuqi.distribution.Gaussian, G)(np.zeros(d), 1)}
        if real == "normalrng":
            return {"proposal": _via(cuqi.distribution.Normal, G)(np.zeros(d), 1)}
        return {"proposal": cuqi.distribution.UserDefinedDistribution(dim=d, sample_func=lambda: G.standard_normal(d),
                                                                      is_symmetric=True)}
    if src == "proposal" and k == "CW":
        N = _via(cuqi.distribution.Normal, G)
        if real == "meanstd":
            return {"proposal": N(mean=None, std=None, geometry=d)}
        return {"proposal": N(mean=lambda location: location, std=lambda scale: scale, geometry=d)}
    if src == "callable" and k == "CW":
        return {"proposal": lambda x, s: np.asarray(x, dtype=float) + np.asarray(s, dtype=float) * G.standard_normal(d)}
    if src == "prior" and k == "PCN":
        return {}
    raise MachineryError("the binding has no realisation of source %r for kernel %s" % (src, k))


# realisations of a configuration ------------------------------------------------------------------------------
def realisations(cfg):
    src = cfg.get("src", "global")
    if src != "global":
        out = list(SOURCE_REALS.get((cfg["k"], src), ()))
        if not out:
            raise MachineryError("the binding has no realisation of source %r for kernel %s" % (src, cfg["k"]))
        if cfg["iface"] != "leg":
            out = [r for r in out if r not in ("meanstd", "tuple", "ula")]
        if cfg["m"] != 0:
            out = [r for r in out if r != "tuple"]      # a prior without a fixed mean is taken as zero-mean by the sampler
        return out
    out = ["user"]
    if cfg["k"] == "PCN" and cfg["tgt"] == "quad" and cfg["d"] == 1:
        out.append("gauss")                # a genuine Gaussian likelihood (data 1, identity model, variance 2/3)
    if cfg["k"] == "PCN" and cfg["iface"] == "leg":
        out.append("tuple")                # cuqi.sampler.pCN((likelihood, prior))
    return out


def build_target(cfg, rows, real="user", G=None):
    """-> (target object handed to the sampler, TableTarget or None, constant added to the table by the realisation)
    G: the generator of source "prior" (the prior object of the posterior draws from it)"""
    import cuqi
    d = cfg["d"]
    T = TableTarget(d, rows)

    def lp(x):
        return T.logpdf(x)

    def gr(x):
        return T.gradient(x)
    if cfg["k"] != "PCN":
        return cuqi.distribution.UserDefinedDistribution(dim=d, logpdf_func=lp, gradient_func=gr), T, 0.0
    prior = cuqi.distribution.Gaussian(float(cfg["m"]) * np.ones(d), 1.0)
    if cfg.get("src", "global") == "prior" and G is not None:
        m = float(cfg["m"])
        if real == "normalrng":
            prior = _via(cuqi.distribution.Normal, G)(m * np.ones(d), 1.0)
        elif real == "tuple":
            # the documented form of cuqi.sampler.pCN: a user-defined prior given by its sample function
            prior = cuqi.distribution.UserDefinedDistribution(dim=d, sample_func=lambda: G.normal(m, 1.0, size=(d, 1)))
        else:
            prior = _via(cuqi.distribution.Gaussian, G)(m * np.ones(d), 1.0)
    if real == "gauss":
        def fwd(x):
            T.tick("lp")
            T.evals.append(np.array(x, dtype=float).reshape(-1).copy())
            return x
        model = cuqi.model.Model(fwd, range_geometry=1, domain_geometry=1)
        var = 2.0 / 3.0
        lik = cuqi.distribution.Gaussian(mean=model, cov=var).to_likelihood(np.array([1.0]))
        const = -0.5 * math.log(2 * math.pi * var)
        return cuqi.distribution.Posterior(lik, prior), T, const
    lik = cuqi.likelihood.UserDefinedLikelihood(dim=d, logpdf_func=lp, gradient_func=gr)
    if real == "tuple":
        return (lik, prior), T, 0.0
    return cuqi.distribution.Posterior(lik, prior), T, 0.0


def scale_value(cfg, sv):
    """spec scale vector -> the value given to the sampler (float, or array for CW)"""
    v = vec(sv)
    if cfg["k"] == "CW":
        return v.copy()
    return float(v[0])


EXP = {"RW": "MH", "CW": "CWMH", "PCN": "PCN", "MALA": "MALA"}
LEG = {"RW": "MH", "CW": "CWMH", "PCN": "pCN", "MALA": "MALA"}
STATE_KEYS = {"x": "current_point", "clp": "current_target_logd", "cgrad": "current_target_grad",
              "clik": "current_likelihood_logd", "scale": "scale"}


def _cls(mod, name):
    c = getattr(mod, name, None)
    if c is None:
        raise MachineryError("sampler class %s.%s is missing" % (mod.__name__, name))
    return c


def _flag(acc, name):
    """acceptance flag(s) returned by step() / single_update as a float vector; a kernel that reports no usable flag cannot
    be bound (machinery error, not a violation: the return convention is not part of the property)"""
    try:
        a = np.array(acc, dtype=float).reshape(-1)
    except (TypeError, ValueError):
        raise MachineryError("%s returned an acceptance flag that is not numeric: %r" % (name, acc))
    if a.size == 0 or np.any(np.isnan(a)):
        raise MachineryError("%s returned no acceptance flag (%r)" % (name, acc))
    return a


# scripted draws a kernel did not consume although the transition conformed in every compared respect (e.g. no uniform
# drawn for a proposal that is rejected whatever the uniform): neither required nor forbidden -> observation
UNUSED_DRAWS = {"transitions": 0, "example": None}


class _Streams:
    """the scripted streams of one transition.  Source "global": numpy's module functions (script_rng.scripted).  Any other
    source: the generator G handed to the code carries the noise (and, for rng=, the uniform); numpy's global stream carries
    the same values as a component stream, so that WHICH stream was used is decided from the recorded calls and the
    transition itself is judged against the specification in either case."""

    def _init_source(self, cfg):
        self.src = cfg.get("src", "global")
        self.G = SourceRNG() if self.src != "global" else None
        self.glob = None
        self.drop_source = False      # binding self-test: the source option is not handed to the sampler

    def _scripted(self, normals, uniforms):
        if self.G is None:
            return scripted({"normal": list(normals), "uniform": list(uniforms)})
        self.glob = ComponentStream("numpy-global")
        self.glob.load(normals, uniforms)
        self.G.stream.load(normals, uniforms if self.src == "rng" else [])
        return scripted(stream=self.glob)

    def _left(self, st):
        """scripted draws not consumed (source "global" only: with a generator both streams are loaded)"""
        return st.remaining() if self.G is None else {}

    def source_use(self):
        """recorded calls of the transition just made: how many noise / uniform requests went to the given generator and
        how many to numpy's global stream"""
        g, n = self.G.stream, self.glob
        return {"stub_normal": g.count("normal"), "stub_uniform": g.count("uniform"), "glob_normal": n.count("normal"),
                "glob_uniform": n.count("uniform"), "stub_calls": g.calls(), "glob_calls": n.calls(),
                "short": g.short + n.short}

    def _kwargs(self):
        return {} if self.drop_source else source_kwargs(self.cfg, self.real, self.G)


# which stream the kernels really drew from, per (kernel/iface/src[/real=..]) (source facet; filled by run_behaviour)
def new_source_stats():
    return {"driven": {}, "distinct": {}, "percomp": {}, "calls": {}, "ignored": {}, "global_also": {}, "uniform_from": {},
            "over_asked": {}, "unadjusted": 0}


SOURCE_DOC = {   # the statement of the anchored docstrings that the source option is judged by
    "proposal": "proposal : The proposal to sample from (cuqi.sampler.MH / CWMH, cuqi.experimental.mcmc.MH / CWMH)",
    "callable": "proposal : ... If a callable method it should provide a single independent sample from proposal distribution (CWMH)",
    "prior": "pCN proposal sqrt(1-s^2) x + s xi with xi a sample of the prior of the target (cuqi.sampler.pCN docstring example: "
             "prior given by its sample function)",
}


def noise_vector(cfg, pairs):
    """the noise vector of one transition as exact fractions (CW: component j of the j-th proposal of the sweep)"""
    if cfg["k"] == "CW":
        return [frac(p["xi"][p["j"] - 1]) for p, _ in pairs]
    return [frac(q) for q in pairs[0][0]["xi"]]


def distinct_noise(cfg, pairs):
    return len(set(noise_vector(cfg, pairs))) > 1


class ExpDriver(_Streams):
    """cuqi.experimental.mcmc: step() / warmup(1) / get_state / set_state."""

    def __init__(self, cfg, rows, sv0, real="user", drop_source=False):
        import cuqi
        self.cfg, self.rows, self.real = cfg, rows, real
        self._init_source(cfg)
        self.drop_source = drop_source
        self.target, self.T, self.const = build_target(cfg, rows, real, None if drop_source else self.G)
        # realisation "ula" (abort facet only): the unadjusted Langevin kernel on the configuration of a MALA behaviour
        self.cls = _cls(cuqi.experimental.mcmc, "ULA" if real == "ula" else EXP[cfg["k"]])
        self.sv0 = sv0
        self.x0 = np.array(cfg["x0"], dtype=float)
        self.s = None
        self.ref = None

    def construct(self):
        self.s = self.cls(self.target, scale=scale_value(self.cfg, self.sv0), initial_point=self.x0.copy(), **self._kwargs())
        self.s.initialize()

    def abort(self, normals, uniforms, kind, n, how="step"):
        """one transition (step() or sample(1)) during which the n-th target evaluation of `kind` raises
        -> (outcome, fired): outcome "propagated" | "propagated_as_<type>" | "returned" (swallowed or not reached)"""
        if self.T is None:
            raise MachineryError("realisation %s cannot be armed" % self.real)
        self.T.arm(kind, n)
        try:
            with scripted({"normal": list(normals), "uniform": list(uniforms)}):
                try:
                    if how == "sample":
                        self.s.sample(1)
                    else:
                        self.s.step()
                    outcome = "returned"
                except InjectedFailure:
                    outcome = "propagated"
                except (ScriptError, MachineryError):
                    raise
                except Exception as ex:
                    if not self.T.fired:
                        raise
                    outcome = "propagated_as_" + type(ex).__name__
        finally:
            fired = self.T.disarm()
        return outcome, fired

    def corrupt_cache(self):
        """binding self-test only: make the cached evaluation stale through the public attribute"""
        name = STATE_KEYS["clik" if self.cfg["k"] == "PCN" else "clp"]
        setattr(self.s, name, getattr(self.s, name) + 1.0)

    def state(self):
        st = self.s.get_state()["state"]
        out = {}
        for k, name in STATE_KEYS.items():
            # the state dictionary (checkpoint content); an attribute that is not part of it is read from the sampler
            v = st[name] if name in st else getattr(self.s, name, None)
            if v is not None:
                out[k] = np.array(v, dtype=float).reshape(-1).copy()
        if "x" not in out or "scale" not in out:
            raise MachineryError("%s exposes no current_point / scale" % self.cls.__name__)
        return out

    def transition(self, normals, uniforms, warm):
        with self._scripted(normals, uniforms) as st:
            if warm:
                # warmup(1) = step . tune(1, 0) . append; the value step() returns is captured by an instance-level
                # wrapper (no dependence on the private history key `_acc`)
                seen, orig = [], self.s.step

                def step(*a, **k):
                    r = orig(*a, **k)
                    seen.append(r)
                    return r
                self.s.step = step
                try:
                    self.s.warmup(1, tune_freq=1.0)
                finally:
                    del self.s.step
                if len(seen) != 1:
                    raise MachineryError("warmup(1) of %s made %d calls of step()" % (self.cls.__name__, len(seen)))
                acc = seen[0]
            else:
                acc = self.s.step()
        return _flag(acc, self.cls.__name__), self._left(st)

    def set_scale(self, sv):
        self.s.scale = scale_value(self.cfg, sv)

    def saveload(self):
        st = pickle.loads(pickle.dumps(self.s.get_state()))
        self.construct()
        self.s.set_state(st)


class LegDriver(_Streams):
    """cuqi.sampler: single_update(x, cached...) ; the caller threads the state (as _sample does)."""

    def __init__(self, cfg, rows, sv0, real="user", drop_source=False):
        import cuqi
        self.cfg, self.rows, self.real = cfg, rows, real
        self._init_source(cfg)
        self.drop_source = drop_source
        self.target, self.T, self.const = build_target(cfg, rows, real, None if drop_source else self.G)
        # realisation "ula" (source facet only): the unadjusted Langevin kernel with the rng= option of a MALA behaviour
        self.cls = _cls(cuqi.sampler, "ULA" if real == "ula" else LEG[cfg["k"]])
        self.sv0 = sv0
        self.x0 = np.array(cfg["x0"], dtype=float)
        self.s = None
        self.st = None
        self.ref = None

    def construct(self):
        from .zoo import quiet
        k = self.cfg["k"]
        with quiet():
            self.s = self.cls(self.target, scale=scale_value(self.cfg, self.sv0), x0=self.x0.copy(), **self._kwargs())
        if not hasattr(self.s, "single_update"):
            raise MachineryError("legacy %s has no single_update" % self.cls.__name__)
        x = self.x0.copy()
        self.st = {"x": x}
        # the initial caches are what _sample() computes before its loop
        if k == "PCN":
            self.st["clik"] = float(self.s.likelihood.logd(x))
        else:
            self.st["clp"] = float(self.s.target.logd(x))
        if k == "MALA":
            self.st["cgrad"] = np.array(self.s.target.gradient(x), dtype=float).reshape(-1)

    def state(self):
        out = {q: (np.array(v, dtype=float).reshape(-1).copy()) for q, v in self.st.items()}
        out["scale"] = np.array(self.s.scale, dtype=float).reshape(-1)
        return out

    def _single_update(self):
        k = self.cfg["k"]
        x = self.st["x"].copy()                      # a copy: legacy CWMH.single_update writes into its argument (C14-F1)
        if k == "MALA":
            xn, lpn, gn, acc = self.s.single_update(x, self.st["clp"], self.st["cgrad"].copy())
            new = {"x": xn, "clp": lpn, "cgrad": gn}
        elif k == "PCN":
            xn, ln, acc = self.s.single_update(x, self.st["clik"])
            new = {"x": xn, "clik": ln}
        else:
            xn, lpn, acc = self.s.single_update(x, self.st["clp"])
            new = {"x": xn, "clp": lpn}
        return new, acc

    def _thread(self, new):
        self.st = {"x": np.array(new["x"], dtype=float).reshape(-1).copy()}
        for q in ("clp", "clik"):
            if q in new:
                self.st[q] = float(new[q])
        if "cgrad" in new:
            self.st["cgrad"] = np.array(new["cgrad"], dtype=float).reshape(-1).copy()

    def transition(self, normals, uniforms, warm):
        with self._scripted(normals, uniforms) as st:
            new, acc = self._single_update()
        self._thread(new)
        return _flag(acc, self.cls.__name__), self._left(st)

    def abort(self, normals, uniforms, kind, n, how="step"):
        """single_update during which the n-th target evaluation of `kind` raises.  The state is threaded by the caller
        (as _sample does): an exception leaves the caller with the state it passed in."""
        if self.T is None:
            raise MachineryError("realisation %s cannot be armed" % self.real)
        self.T.arm(kind, n)
        try:
            with scripted({"normal": list(normals), "uniform": list(uniforms)}):
                try:
                    new, _ = self._single_update()
                    self._thread(new)
                    outcome = "returned"
                except InjectedFailure:
                    outcome = "propagated"
                except (ScriptError, MachineryError):
                    raise
                except Exception as ex:
                    if not self.T.fired:
                        raise
                    outcome = "propagated_as_" + type(ex).__name__
        finally:
            fired = self.T.disarm()
        return outcome, fired

    def corrupt_cache(self):
        q = "clik" if self.cfg["k"] == "PCN" else "clp"
        self.st[q] = self.st[q] + 1.0

    def sample_run(self, normals, uniforms, arm=None):
        """sampler.sample(2) on the sampler object: evaluation of the initial point + ONE transition from x0.
        arm = (kind, n): the n-th evaluation of the transition raises (the evaluation of the initial point, made first, is
        not an evaluation of the transition).  -> (Samples | None, outcome, fired)"""
        from .zoo import quiet
        if arm is not None:
            self.T.arm(arm[0], arm[1] + 1)
        res = None
        try:
            with scripted({"normal": list(normals), "uniform": list(uniforms)}), quiet():
                try:
                    res = self.s.sample(2)
                    outcome = "returned"
                except InjectedFailure:
                    outcome = "propagated"
                except (ScriptError, MachineryError):
                    raise
                except Exception as ex:
                    if arm is None or not self.T.fired:
                        raise
                    outcome = "propagated_as_" + type(ex).__name__
        finally:
            fired = self.T.disarm()
        return res, outcome, fired

    def set_scale(self, sv):
        # warm-up of the stateless interface: a real adaptive run (changes only self.scale), then a lattice scale again
        from .zoo import quiet
        state = np.random.get_state()
        try:
            np.random.seed(12345)
            ev = (len(self.T.evals), len(self.T.gevals)) if self.T is not None else None
            if self.G is not None:
                self.G.stream.free = np.random.RandomState(54321)      # the warm-up run draws freely from the given generator
            try:
                with quiet():
                    self.s.sample_adapt(10, 0)
            finally:
                if self.G is not None:
                    self.G.stream.free = None
            if ev:
                del self.T.evals[ev[0]:], self.T.gevals[ev[1]:]
        finally:
            np.random.set_state(state)
        self.s.scale = scale_value(self.cfg, sv)

    def saveload(self):
        raise MachineryError("the stateless interface has no state reload")


def driver(cfg, rows, sv0, real="user", drop_source=False):
    return (ExpDriver if cfg["iface"] == "exp" else LegDriver)(cfg, rows, sv0, real, drop_source)


def fresh_eval(drv, x):
    """evaluations at x by an UN-INSTRUMENTED target of the same configuration, built from the spec's tables
    (oracle of the coherence claim after an aborted transition)"""
    if drv.ref is None:
        drv.ref = build_target(drv.cfg, drv.rows, drv.real)[0]
    ref, k = drv.ref, drv.cfg["k"]
    x = np.array(x, dtype=float).reshape(-1)
    out = {}
    if k == "PCN":
        lik = ref[0] if isinstance(ref, tuple) else ref.likelihood
        out["clik"] = np.array(lik.logd(x), dtype=float).reshape(-1)
    else:
        out["clp"] = np.array(ref.logd(x), dtype=float).reshape(-1)
        if k == "MALA":
            out["cgrad"] = np.array(ref.gradient(x), dtype=float).reshape(-1)
    return out


CACHE_NAME = {"x": "point", "clp": "cache_lp", "cgrad": "cache_grad", "clik": "cache_lik", "scale": "scale"}


def coherent(drv, got):
    """-> None, or (cache name, cached value, fresh value) of the first cached evaluation that does not belong to the point"""
    fr = fresh_eval(drv, got["x"])
    for q in ("clp", "cgrad", "clik"):
        if q in fr:
            if q not in got or got[q] is None:
                raise MachineryError("state of %s has no entry for %s" % (drv.cls.__name__, q))
            if not close(got[q], fr[q]):
                return CACHE_NAME[q], got[q], fr[q]
    return None


def new_abort_stats():
    return {"outcome": {}, "realised": {}, "not_reached": 0, "continued": {}, "other_branch": 0, "sample_level": 0,
            "unadjusted": 0}


def _bump(d, key):
    d[key] = d.get(key, 0) + 1


def script_for(cfg, pairs, abort=None, salt=0, flip=False):
    """scripted draws of one transition: the noise that carries x to the proposal(s) of the spec and one uniform per
    decision, just below / above the spec's threshold.  abort: entry of the action Abort (its proposal is never decided)"""
    k = cfg["k"]
    head = abort if not pairs else pairs[0][0]
    if k == "CW":
        z = np.zeros(cfg["d"])
        for p in [p for p, _ in pairs] + ([abort] if abort else []):
            z[p["j"] - 1] = ext(p["xi"][p["j"] - 1])
        normals = [z]
    elif k == "PCN":
        normals = [vec(head["xi"]) - float(cfg["m"])]        # Gaussian(m, I).sample() = m + e
    else:
        normals = [vec(head["xi"])]
    us = []
    for i, (p, d) in enumerate(pairs):
        dd = d
        if flip and d["cls"] in ("Below", "Above") and frac(p["r"]) < 0:
            dd = dict(d, cls="Above" if d["cls"] == "Below" else "Below")
        us.append(uniform_for(dd, p, salt + i))
    return normals, us


def expect_state(cfg, e, scv, const=0.0):
    """abstract state logged by the spec after an action -> the values the real state is compared with"""
    exp = {"x": np.array(e["x"] if "x" in e else cfg["x0"], dtype=float)}
    if ext(e["clp"]) is not None:
        exp["clp"] = ext(e["clp"])
    if ext(e["clik"]) is not None:
        exp["clik"] = ext(e["clik"]) + const
    if len(e["cgrad"]):
        exp["cgrad"] = vec(e["cgrad"])
    if scv is not None:
        exp["scale"] = vec(scv)
    return exp


# ----------------------------------------------------------------------------------------------------------------
def uniform_for(dec, prop, salt):
    """the scripted uniform of one Decide: just below / above the threshold exp(r) the SPEC computes"""
    cls = dec["cls"]
    if dec.get("u") == "zero":
        return 0.0                                    # MHOutside: the draw is exactly 0 (log u = -inf)
    if cls == "Any":
        return (1e-12, 0.5, 1 - 1e-9, 0.0)[salt % 4]  # incl. the boundary draw 0: -inf <= -inf must not accept
    r = frac(prop["r"])
    tau = math.exp(float(r)) if r < 0 else 1.0
    return below(tau) if cls == "Below" else above(tau)


def close(a, b, rtol=1e-9, atol=1e-9):
    a = np.asarray(a, dtype=float).reshape(-1)
    b = np.asarray(b, dtype=float).reshape(-1)
    return a.shape == b.shape and bool(np.allclose(a, b, rtol=rtol, atol=atol, equal_nan=False))


def split_transitions(prog):
    """group the action list into items: ('T', [(p, d), ...]) one kernel transition | ('t', e) | ('s', e) |
    ('A', ([(p, d), ...], x)) an aborted transition: the component proposals decided before the failing evaluation + Abort entry"""
    items, cur, i = [], [], 0
    while i < len(prog):
        e = prog[i]
        if e["a"] == "x":
            items.append(("A", (cur, e)))
            cur = []
            i += 1
            continue
        if e["a"] == "p":
            d = prog[i + 1]
            cur.append((e, d))
            i += 2
            if d["fin"]:
                items.append(("T", cur))
                cur = []
            continue
        items.append((e["a"], e))
        i += 1
    return items


def _base(prefix, cfg, real):
    b = "%s/%s/%s/d=%d/tgt=%s/m=%d" % (prefix, cfg["k"], cfg["iface"], cfg["d"], cfg["tgt"], cfg["m"])
    if real != "user":
        b += "/real=" + real
    if cfg.get("src", "global") != "global":
        b += "/src=" + cfg["src"]
    return b


def arm_of(cfg, a):
    """Abort entry of the spec -> (kind, n) of TableTarget.arm: which evaluation of the transition raises"""
    if a["ev"] == "grad":
        return "grad", 1
    return "lp", (a["k"] if cfg["k"] == "CW" else 1)


def run_behaviour(ctx, beh, rows, sv0, root, real="user", sigprefix="replay", salt=0, flip=False, stats=None, corrupt=False,
                  srcstats=None, collapse=False, drop_source=False):
    """Execute one spec behaviour on the real sampler; compare after every action.  Returns number of transitions run.
    flip=True (binding self-test only): script the uniform of the opposite decision class.
    Behaviours with an action Abort (aborted transition): the target raises at the evaluation the spec names; afterwards the
    caches must belong to the point (fresh evaluation by an un-instrumented target), the point must be one of the kernel
    states the spec allows, and - when the real state is the one this behaviour continues from - the following
    transitions must conform like any other (signatures abort/...).  corrupt=True (binding self-test only): the cache is
    made stale after the abort.
    Behaviours of a configuration with a randomness source other than numpy's global stream (cfg.src): the noise is served
    by the generator handed to the code (rng= / drawn from by the user-supplied proposal, prior or callable) as a stream of
    COMPONENTS; the recorded calls decide which stream was used (srcstats); everything else is compared as usual
    (signatures .../src=<source>/...).  collapse=True / drop_source=True (binding self-tests only): the generator hands one
    value to all components / the source option is not given to the sampler."""
    cfg = beh["cfg"]
    k = cfg["k"]
    base = _base(sigprefix, cfg, real)
    if stats is None:
        stats = new_abort_stats()
    if srcstats is None:
        srcstats = new_source_stats()
    case = {"kind": "beh", "cfg": cfg, "prog": beh["prog"], "rows": rows, "sv0": sv0, "root": root, "real": real, "salt": salt}
    drv = driver(cfg, rows, sv0, real, drop_source)
    if drv.G is not None:
        drv.G.stream.collapse = bool(collapse)
    src = cfg.get("src", "global")
    skey = "%s/%s/%s%s" % (k, cfg["iface"], src, "" if real == "user" else "/real=" + real)
    try:
        drv.construct()
    except MachineryError:
        raise
    except Exception as ex:
        ctx.mismatch(base + "/construct", case, "sampler cannot be constructed: %s: %s" % (type(ex).__name__, str(ex)[:200]))
        return 0
    const = drv.const

    def compare(exp, clause, what, pos):
        got = drv.state()
        for q in ("x", "clp", "cgrad", "clik", "scale"):
            if q not in exp:
                continue
            if q not in got or got[q] is None:
                raise MachineryError("state of %s has no entry for %s" % (drv.cls.__name__, q))
            g = got[q]
            e = np.asarray(exp[q], dtype=float).reshape(-1)
            if q == "scale" and g.size == 1 and e.size > 1:
                g = np.full(e.shape, g[0])
            if not close(g, e):
                name = CACHE_NAME[q]
                ctx.mismatch("%s/%s/%s" % (base, clause, name), dict(case, pos=pos),
                             "%s: %s differs from the specification's state" % (what, name), expected=e, observed=g)
                return False
        return True

    cur_sv = sv0
    prev_exp = expect_state(cfg, root, sv0, const)
    if not compare(prev_exp, "init", "after initialisation", -1):
        return 0
    items = split_transitions(beh["prog"])
    done = 0
    for pos, (kind, e) in enumerate(items):
        if kind == "t":
            try:
                drv.set_scale(e["sv"])
            except Exception as ex:
                ctx.mismatch(base + "/tune/error", dict(case, pos=pos), "warm-up/scale reset raised %s: %s" % (type(ex).__name__, str(ex)[:200]))
                return done
            cur_sv = e["sv"]
            if not compare(dict(prev_exp, scale=vec(cur_sv)), "tune", "after warm-up tuning and scale reset", pos):
                return done
            continue
        if kind == "s":
            try:
                drv.saveload()
            except MachineryError:
                raise
            except Exception as ex:
                ctx.mismatch(base + "/reload/error", dict(case, pos=pos), "get_state/set_state raised %s: %s" % (type(ex).__name__, str(ex)[:200]))
                return done
            prev_exp = expect_state(cfg, e, e["sv"], const)
            if not compare(prev_exp, "reload", "after get_state -> fresh sampler -> set_state", pos):
                return done
            continue
        if kind == "A":
            # ---- a transition that aborts: the target raises at the evaluation named by the spec ----------------------
            pairs, a = e
            abase = "%s/k=%d" % (_base("abort", cfg, real), a["k"])
            normals, us = script_for(cfg, pairs, abort=a, salt=salt + pos)
            akind, an = arm_of(cfg, a)
            how = "sample" if (cfg["iface"] == "exp" and (salt + pos) % 2 == 0) else "step"
            try:
                outcome, fired = drv.abort(normals, us, akind, an, how)
            except ScriptError as ex:
                raise MachineryError("the kernel %s asked for random draws the binding does not script: %s" % (drv.cls.__name__, ex))
            except MachineryError:
                raise
            except Exception as ex:
                ctx.mismatch(base + "/step/error", dict(case, pos=pos), "transition raised %s: %s" % (type(ex).__name__, str(ex)[:200]))
                return done
            if not fired:
                stats["not_reached"] += 1           # this kernel does not make the modelled evaluation: nothing aborted
                return done
            who = "%s.%s" % (drv.cls.__module__.replace("cuqi.", ""), drv.cls.__name__)
            _bump(stats["outcome"], "%s: %s" % (who, outcome))       # neither required nor forbidden: observation
            _bump(stats["realised"], "%s/%s/k=%d" % (k if real != "ula" else "ULA", cfg["iface"], a["k"]))
            if corrupt:
                drv.corrupt_cache()
            got = drv.state()
            bad = coherent(drv, got)
            if bad is not None:
                ctx.mismatch(abase + "/cache_coherent", dict(case, pos=pos),
                             "after a transition that aborted at target evaluation %d (%s raised; %s) the cached value %s is not the "
                             "evaluation at the sampler's current point %s" % (a["k"], a["ev"], outcome, bad[0], got["x"].tolist()),
                             expected=bad[2], observed=bad[1])
                return done
            alts = [np.array(q["x"], dtype=float) for q in a["alt"]]
            if not any(close(got["x"], q) for q in alts):
                ctx.mismatch(abase + "/point", dict(case, pos=pos),
                             "after a transition that aborted at target evaluation %d the chain is at a point that no decided "
                             "proposal led to" % a["k"], expected=alts, observed=got["x"])
                return done
            if not close(got["x"], np.array(a["x"], dtype=float)):
                stats["other_branch"] += 1          # the code follows the other allowed state: replayed by the sibling behaviour
                return done
            base = abase                            # what follows is reported as a consequence of the aborted transition
            prev_exp = expect_state(cfg, a, cur_sv, const)
            if not compare(prev_exp, "state", "after the aborted transition", pos):
                return done
            if real == "ula":
                # the unadjusted kernel is outside the Metropolis-Hastings model: only the coherence claim, after the
                # aborted and after the following transition
                stats["unadjusted"] += 1
                if pos + 1 < len(items) and items[pos + 1][0] == "T":
                    normals, us = script_for(cfg, items[pos + 1][1], salt=salt + pos + 1)
                    try:
                        drv.transition(normals, us, False)
                    except (ScriptError, MachineryError) as ex:
                        raise MachineryError("ULA after an aborted transition: %s" % ex)
                    except Exception as ex:
                        ctx.mismatch(base + "/step/error", dict(case, pos=pos + 1), "transition raised %s: %s" % (type(ex).__name__, str(ex)[:200]))
                        return done
                    got = drv.state()
                    bad = coherent(drv, got)
                    if bad is not None:
                        ctx.mismatch(base + "/next/cache_coherent", dict(case, pos=pos + 1),
                                     "after the transition following an aborted one the cached value %s is not the evaluation at the "
                                     "current point" % bad[0], expected=bad[2], observed=bad[1])
                    done += 1
                return done
            _bump(stats["continued"], "%s/%s/k=%d/%s" % (k, cfg["iface"], a["k"], a["mode"]))
            continue
        # ---- one kernel transition -------------------------------------------------------------------------
        pairs = e
        warm = pos + 1 < len(items) and items[pos + 1][0] == "t"
        normals, us = script_for(cfg, pairs, salt=salt + pos, flip=flip)
        T = drv.T
        if T is not None:
            n0 = len(T.evals)
        pre = drv.state()
        try:
            acc, left = drv.transition(normals, us, warm and cfg["iface"] == "exp")
        except ScriptError as ex:
            raise MachineryError("the kernel %s asked for random draws the binding does not script: %s" % (drv.cls.__name__, ex))
        except MachineryError:
            raise
        except Exception as ex:
            ctx.mismatch(base + "/step/error", dict(case, pos=pos), "transition raised %s: %s" % (type(ex).__name__, str(ex)[:200]))
            return done
        # scripted draws left unused: judged AFTER the comparisons below - a kernel that does not draw its uniform and
        # decides wrongly must be reported as a violation of the property, not as a machinery error
        done += 1
        if drv.G is not None:
            # ---- which stream delivered the noise: the recorded calls of the given generator / of numpy's global stream ----
            use = drv.source_use()
            if use["stub_normal"] == 0 and use["glob_normal"] > 0:
                _bump(srcstats["ignored"], skey)
                if src in SOURCE_DOC:
                    ctx.mismatch(base + "/source", dict(case, pos=pos),
                                 "the noise of the transition was drawn from numpy's global stream %s, none from the user-supplied "
                                 "%s (documented: %s)" % (use["glob_calls"], src, SOURCE_DOC[src]),
                                 expected={"calls of the supplied object's generator": ">= 1"}, observed=use["stub_calls"])
                    return done
                # rng= of cuqi.sampler.ULA / MALA is a constructor argument the docstrings do not describe: which stream is
                # used is not asserted (observation); the transition is judged against the specification either way
            elif use["stub_normal"] > 0:
                _bump(srcstats["driven"], skey)
                if distinct_noise(cfg, pairs):
                    _bump(srcstats["distinct"], skey)
                    if len(sv0) > 1 and len({tuple(q) for q in cur_sv}) > 1:
                        _bump(srcstats["percomp"], skey)
                srcstats["calls"].setdefault(skey, use["stub_calls"])
                if use["glob_normal"]:
                    _bump(srcstats["global_also"], skey)
            if use["short"]:
                _bump(srcstats["over_asked"], skey)
            if use["stub_uniform"] or use["glob_uniform"]:
                _bump(srcstats["uniform_from"], "%s: %s" % (skey, "generator" if use["stub_uniform"] else "numpy global stream"))
        if real == "ula":
            # ---- the unadjusted Langevin kernel with the rng= option (cuqi.sampler.ULA): no decision; the proposal must be
            #      the modelled one (dim-dimensional Brownian increment, ULA docstring) and the returned state the evaluation
            #      at it
            p = pairs[0][0]
            y = np.array(p["y"], dtype=float)
            seen = T.evals[n0:] if T is not None else []
            if not any(close(y, q) for q in seen):
                ctx.mismatch(base + "/proposal", dict(case, pos=pos),
                             "the target was not evaluated at the proposal of the modelled mechanism (noise xi=%s; calls of the "
                             "generator: %s)" % (p["xi"], drv.source_use()["stub_calls"] if drv.G is not None else None),
                             expected=y, observed=seen)
                return done
            got = drv.state()
            exp = {"x": y, "clp": ext(p["tv"]), "cgrad": vec(p["gy"])}
            for q in ("x", "clp", "cgrad"):
                if not close(got[q], exp[q]):
                    ctx.mismatch("%s/accept_state/%s" % (base, CACHE_NAME[q]), dict(case, pos=pos),
                                 "after an unadjusted Langevin transition: %s differs from the specification's proposal / its "
                                 "evaluation" % CACHE_NAME[q], expected=exp[q], observed=got[q])
                    return done
            srcstats["unadjusted"] += 1
            return done
        last_d = pairs[-1][1]
        exp = expect_state(cfg, last_d, None if (warm and cfg["iface"] == "exp") else cur_sv, const)
        prev_exp = exp
        got = drv.state()
        # (1) per (component) proposal, in order: the point the code evaluated, then - for a non-finite proposal - that it
        #     was not accepted whatever the uniform (an accepted NaN component changes what the later components see)
        seen = T.evals[n0:] if T is not None else None
        for i, (p, d) in enumerate(pairs):
            y = np.array(p["y"], dtype=float)
            if seen is not None and not any(close(y, q) for q in seen):
                clause = "proposal"
                if k == "PCN" and len(p.get("yraw", [])) and any(close(vec(p["yraw"]), q) for q in seen):
                    clause = "proposal/ProposalUsesRawPriorDraw"
                ctx.mismatch("%s/%s" % (base, clause), dict(case, pos=pos),
                             "the target was not evaluated at the proposal of the modelled mechanism (noise xi=%s)%s" % (
                                 p["xi"], "" if drv.G is None else "; calls of the given generator: %s, of numpy's global stream: %s" % (
                                     drv.G.stream.calls(), drv.glob.calls())),
                             expected=y, observed=seen)
                return done
            if d["cls"] == "Any":
                if k == "CW":
                    bad = bool(acc.size > i and acc[i] > 0)
                else:
                    bad = (not close(got["x"], pre["x"])) or bool(acc.size and acc[0] > 0)
                if bad:
                    kindnf = "NaN" if math.isnan(ext(p["tv"])) else "NegInf"
                    ctx.mismatch("%s/nonfinite_accept/%s" % (base, kindnf), dict(case, pos=pos),
                                 "a proposal whose log-density is %s was accepted (uniform %g)" % (kindnf, us[i]),
                                 expected={"acc": 0, "x": pre["x"]}, observed={"acc": acc, "x": got["x"]})
                    return done
        # (3) acceptance flag(s): the decision for a uniform just below / above exp(r)
        eacc = np.array([d["acc"] for _, d in pairs], dtype=float)
        if acc.shape != eacc.shape or not np.array_equal(acc > 0, eacc > 0):
            i = 0 if acc.shape != eacc.shape else int(np.argmax((acc > 0) != (eacc > 0)))
            p, d = pairs[i]
            ctx.mismatch("%s/decision/%s" % (base, d["cls"]), dict(case, pos=pos),
                         "decision differs for a uniform just %s the threshold exp(r), r=%s (the computed log-ratio is not the "
                         "Metropolis-Hastings log-ratio)" % (d["cls"].lower(), p["r"]), expected=eacc, observed=acc)
            return done
        # (4) next point and caches
        rejected_all = not np.any(eacc > 0)
        clause = "reject_state" if rejected_all else "accept_state"
        if not compare(exp, clause, "after a %s transition" % ("rejected" if rejected_all else "(partly) accepted"), pos):
            return done
        if left and not flip:
            UNUSED_DRAWS["transitions"] += 1
            if UNUSED_DRAWS["example"] is None:
                UNUSED_DRAWS["example"] = {"sampler": drv.cls.__module__ + "." + drv.cls.__name__, "unused": left,
                                           "classes": [d["cls"] for _, d in pairs]}
    return done


def run_abort_sample(ctx, beh, rows, sv0, root, real="user", salt=0, stats=None):
    """Stateless interface at the level of the sampler OBJECT: sampler.sample(2) (= evaluation of x0 + one transition) aborts at
    the evaluation named by the spec; a following sampler.sample(2) on the same object starts from the same x0 and must make the
    transition of the spec: next point and its cached evaluation (Samples.loglike_eval) for a uniform just below / above the
    spec's threshold.  Applies to behaviours that begin with the aborted transition and continue from the initial state."""
    cfg = beh["cfg"]
    items = split_transitions(beh["prog"])
    if cfg["iface"] != "leg" or len(items) < 2 or items[0][0] != "A" or items[1][0] != "T":
        return 0
    pairs, a = items[0][1]
    if [int(q) for q in a["x"]] != [int(q) for q in cfg["x0"]]:
        return 0
    abase = "%s/k=%d/sample" % (_base("abort", cfg, real), a["k"])
    case = {"kind": "abort_sample", "cfg": cfg, "prog": beh["prog"], "rows": rows, "sv0": sv0, "root": root, "real": real, "salt": salt}
    drv = LegDriver(cfg, rows, sv0, real)
    try:
        drv.construct()
    except MachineryError:
        raise
    except Exception as ex:
        ctx.mismatch(_base("replay", cfg, real) + "/construct", case, "sampler cannot be constructed: %s: %s" % (type(ex).__name__, str(ex)[:200]))
        return 0
    normals, us = script_for(cfg, pairs, abort=a, salt=salt)
    try:
        _, outcome, fired = drv.sample_run(normals, us, arm=arm_of(cfg, a))
    except ScriptError as ex:
        raise MachineryError("%s.sample(2) asked for random draws the binding does not script: %s" % (drv.cls.__name__, ex))
    except MachineryError:
        raise
    except Exception as ex:
        ctx.mismatch(_base("replay", cfg, real) + "/sample/error", case, "sample(2) raised %s: %s" % (type(ex).__name__, str(ex)[:200]))
        return 0
    if not fired:
        if stats is not None:
            stats["not_reached"] += 1
        return 0
    if stats is not None:
        _bump(stats["outcome"], "sampler.%s.sample: %s" % (drv.cls.__name__, outcome))
        stats["sample_level"] += 1
    nxt = items[1][1]
    normals, us = script_for(cfg, nxt, salt=salt + 1)
    try:
        res, outcome, _ = drv.sample_run(normals, us)
    except ScriptError as ex:
        raise MachineryError("%s.sample(2) asked for random draws the binding does not script: %s" % (drv.cls.__name__, ex))
    except MachineryError:
        raise
    except Exception as ex:
        ctx.mismatch(abase + "/error", case, "sample(2) after an aborted sample(2) raised %s: %s" % (type(ex).__name__, str(ex)[:200]))
        return 1
    exp = expect_state(cfg, nxt[-1][1], None, drv.const)
    try:
        X = np.asarray(res.samples, dtype=float)
        le = np.asarray(res.loglike_eval, dtype=float).reshape(-1)
        if X.shape != (cfg["d"], 2) or le.size != 2:
            raise ValueError("shapes %r %r" % (X.shape, le.shape))
    except Exception as ex:
        raise MachineryError("sample(2) of %s returned no (samples, loglike_eval) of 2 states: %s" % (drv.cls.__name__, ex))
    if not close(X[:, 1], exp["x"]):
        ctx.mismatch(abase + "/point", case,
                     "sample(2) on a sampler object whose previous sample(2) aborted at target evaluation %d: the transition from x0 "
                     "differs from the specification's (decision classes %s)" % (a["k"], [d["cls"] for _, d in nxt]),
                     expected=exp["x"], observed=X[:, 1])
        return 1
    ecache = exp["clik"] if cfg["k"] == "PCN" else exp["clp"]
    if not close(le[1], ecache):
        ctx.mismatch(abase + "/cache", case,
                     "sample(2) after an aborted sample(2): the evaluation recorded with the new state differs from the specification's",
                     expected=ecache, observed=le[1])
    return 1
