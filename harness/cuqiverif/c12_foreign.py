"""C12, round 9: the CLASS of the values travelling through a model call (part FG, specs/ModelGeomForeign.tla).

A CUQIarray of PARAMETERS that carries a geometry which is NOT the model's (none given = default geometry, Discrete, a Continuous1D on
another grid, a MappedGeometry with another map)  x  operators that hand back the class of their argument (x itself, a view, a ufunc,
A @ x with A an ndarray: numpy copies is_par and geometry of the INPUT onto the result) or a fresh plain array (scipy sparse, np.asarray)
x  every geometry behind the operator (identity-like, Image2D C / F, Continuous2D, StepExpansion mean / max, MappedGeometry, expansion)
x  forward / adjoint / gradient(direction).  forward: "converts the input to function values (if needed) using the domain geometry of the
model; converts the output function values to parameters using the range geometry of the model", is_par=True: "the input is assumed to be
parameters" - so the answer is the value for the PLAIN parameter vector (invariant FgOneOutput; TLC emits it exactly), wrapped like the
input (CUQIarray of parameters of the geometry behind the operator).  Deviation OutputFlagTrusted is refuted by TLC on every run.
Not asserted: arrays whose own flag contradicts the call's is_par; a carried geometry that equals the geometry BEHIND the operator.
"""
import os
import warnings

import numpy as np

SPEC = "ModelGeomForeign"
EXTRA = ("ModelGeom.tla",)
DEVIATIONS = [("OutputFlagTrusted", "FgOneOutput"), ("DefaultEqualsEveryGridGeometry", "FgOneOutput")]


def start(ctx):
    from concurrent.futures import ThreadPoolExecutor
    from cuqiverif import tlc
    tag = "%d-%d" % (os.getpid(), id(ctx) % 100000)

    def wd(name):
        return os.path.join(tlc.WORK, "%s-%s-%s" % (SPEC, tag, name))

    jobs = [("dev", dev, inv, dict(cfg="ModelGeomForeign.%s.deviation.cfg" % dev, workers=1, expect_violation=True, timeout=600,
                                   extra_modules=EXTRA, workdir=wd(dev), heap="1g")) for dev, inv in DEVIATIONS]
    jobs += [("main", "decide", None, dict(cfg="ModelGeomForeign.%s.cfg" % ctx.tier, workers=2, timeout=1700, extra_modules=EXTRA, workdir=wd("decide"), heap="2g"))]
    ex = ThreadPoolExecutor(max_workers=len(jobs))
    futs = [ex.submit(lambda kw=kw: ctx.tlc(SPEC, **kw)) for _, _, _, kw in jobs]
    return {"jobs": jobs, "futs": futs, "ex": ex}


def abandon(handle):
    from cuqiverif import tlc
    for f in handle["futs"]:
        try:
            tlc.cleanup(f.result())
        except Exception:  # noqa: BLE001
            pass
    handle["ex"].shutdown(wait=True)


def carried(gid, p):
    """The geometry object the input carries (None: no geometry handed to the CUQIarray constructor)."""
    import cuqi
    G = cuqi.geometry
    if gid == "default":
        return None
    if gid == "discrete":
        return G.Discrete(p)
    if gid == "othergrid":
        return G.Continuous1D(np.arange(p, dtype=float) + 0.5)
    if gid == "mapped2":
        return G.MappedGeometry(G.Continuous1D(p), map=lambda x: 3 * x, imap=lambda x: x / 3)
    from cuqiverif.tlc import MachineryError
    raise MachineryError("part FG: unknown carried geometry %r" % gid)


def build_model(case, dom, rng, seen):
    """The real model of (operator kind, geometries).  `seen`: list the function-backed kinds append the class of what they return to."""
    import cuqi
    import scipy.sparse as sp
    from cuqiverif.modelgeom_real import construct, mkey
    from cuqiverif.tlc import MachineryError
    opk = case["opk"]
    A = np.array(case["A"], dtype=float)
    B = np.array(case["B"], dtype=float)
    ds, rs = dom.fun_shape, rng.fun_shape
    key = mkey(opk, dom, rng)

    def note(out):
        seen.append(type(out).__name__)
        return out

    def rev(X):
        return X[::-1, ::-1] if X.ndim == 2 else X[::-1]

    if opk == "matmul":
        return construct(key, lambda: cuqi.model.LinearModel(A.copy(), range_geometry=rng.obj, domain_geometry=dom.obj))
    if opk == "sparse":
        return construct(key, lambda: cuqi.model.LinearModel(sp.csc_matrix(A), range_geometry=rng.obj, domain_geometry=dom.obj))
    if opk == "fkeep":
        pair = (lambda X: note((A @ X.ravel()).reshape(rs)), lambda Y: note((A.T @ Y.ravel()).reshape(ds)))
    elif opk == "ffresh":
        pair = (lambda X: note((A @ np.asarray(X).ravel()).reshape(rs)), lambda Y: note((A.T @ np.asarray(Y).ravel()).reshape(ds)))
    elif opk == "same":
        pair = (lambda X: note(X), lambda Y: note(Y))
    elif opk == "view":
        pair = (lambda X: note(rev(X)), lambda Y: note(rev(Y)))
    elif opk == "ufunc":
        pair = (lambda X: note(np.multiply(X, 2)), lambda Y: note(np.multiply(Y, 2)))
    elif opk == "poly":
        return construct(key, lambda: cuqi.model.Model(lambda x: note((A @ x.ravel() + B @ (x.ravel() * x.ravel())).reshape(rs)), rng.obj, dom.obj))
    else:
        raise MachineryError("part FG: unknown operator kind %r" % opk)
    return construct(key, lambda: cuqi.model.LinearModel(pair[0], pair[1], range_geometry=rng.obj, domain_geometry=dom.obj))


def check_fg_case(ctx, case, stats=None):
    from cuqi.array import CUQIarray
    from cuqiverif.modelgeom_real import build_geometry, rmat, rvec, close, gkey, ConstructionRefused, report_refusal
    from cuqiverif.props.c12 import _try
    stats = stats if stats is not None else {}
    Gd, Gpd, Hr, Hpr = (rmat(case[k]) if len(case[k]) else None for k in ("Gd", "Gpd", "Hr", "Hpr"))
    dom = build_geometry(case["dg"], Gd, Gpd)
    rng = build_geometry(case["rg"], Hr, Hpr)
    call, gid, opk = case["call"], case["gid"], case["opk"]
    key = "op=%s/dom=%s/rng=%s/gid=%s" % (opk, gkey(dom.g), gkey(rng.g), gid)
    seen = []
    try:
        model = build_model(case, dom, rng, seen)
    except ConstructionRefused as r:
        report_refusal(ctx, case, "fg/construct", r)
        return
    v = np.array(case["v"], dtype=float)
    want = rvec(case["out"])
    front = model.domain_geometry if call == "forward" else model.range_geometry
    behind = model.range_geometry if call == "forward" else model.domain_geometry
    w = np.ones(model.domain_dim)

    def arr():
        cg = carried(gid, len(v))
        return CUQIarray(v.copy(), is_par=True) if cg is None else CUQIarray(v.copy(), is_par=True, geometry=cg)

    calls = {"forward": [("forward", lambda x: model.forward(x)), ("call", lambda x: model(x))],
             "adjoint": [("adjoint", lambda x: model.adjoint(x))],
             "gradient": [("gradient", lambda x: model.gradient(x, w))]}[call]
    with warnings.catch_warnings():
        warnings.simplefilter("ignore")
        # the plain parameter vector (what the spec's value is defined by)
        ctx.case(("fg", call, key, "par_nd"), facet="fg/%s" % call)
        out, err = _try(lambda: calls[0][1](v.copy()))
        sig = "fg/%s/%s" % (call, key)
        if err is not None or not close(np.asarray(out, dtype=float), want):
            ctx.mismatch(sig + "/rep=par_nd/" + ("raised" if err is not None else "value"), case,
                         "%s on the plain parameter vector is not the specification's value" % call, want, repr(err) if err is not None else np.asarray(out))
            return
        # does the class really travel?  (observation + vacuity guard: the geometry in front handed back a CUQIarray flagged is_par)
        probe, _ = _try(lambda: front.par2fun(arr()))
        keeps_front = isinstance(probe, CUQIarray) and probe.is_par is True
        pf = probe_fun(rng if call == "forward" else dom)
        bp, e_bp = _try(lambda: np.asarray(behind.fun2par(pf), dtype=float))
        if keeps_front and opk not in ("sparse", "ffresh") and e_bp is None and not (bp.shape == pf.shape and close(bp, pf)):
            stats["class_kept_and_fun2par_behind_not_identity"] = stats.get("class_kept_and_fun2par_behind_not_identity", 0) + 1
        for tag, f in calls:
            ctx.case(("fg", call, key, tag), facet="fg/%s" % call)
            x = arr()
            del seen[:]
            out, err = _try(lambda: f(x))
            if seen:
                o = stats.setdefault("class_of_the_operators_output", {}).setdefault(opk, {})
                o[seen[-1]] = o.get(seen[-1], 0) + 1
            if err is not None:
                ctx.mismatch(sig + "/rep=arr_par/raised", case, "%s raised on a CUQIarray of parameters carrying another geometry (%s) although it answers for the "
                             "plain parameter vector" % (tag, gid), want, repr(err))
                continue
            val = np.asarray(out, dtype=float)
            if not close(val, want):
                # finding C12-F2 is matched ONLY by what the deviation DefaultEqualsEveryGridGeometry predicts: no geometry given (default), the library's ==
                # calls that default geometry equal to the (non identity-like) geometry behind the operator, and the answer is exactly the operator's
                # output with fun2par of the geometry behind left out
                cls = ""
                if gid == "default" and close(val.ravel(), rvec(case["pre"])):
                    eqb, _ = _try(lambda: bool(arr().geometry == behind) and type(behind).__name__ in ("StepExpansion", "KLExpansion", "CustomKL"))
                    cls = "/default_geometry_compares_equal" if eqb else ""
                ctx.mismatch(sig + "/rep=arr_par/value" + cls, case, "%s on a CUQIarray of PARAMETERS carrying another geometry (%s) is not the value for the plain parameter "
                             "vector (the model's own geometries convert input and output; operator kind %s%s)"
                             % (tag, gid, opk, ", its output keeps the class and the attributes of its argument" if opk not in ("sparse", "ffresh") else ""), want, val)
                continue
            if not isinstance(out, CUQIarray) or out.is_par is not True or not (out.geometry == behind):
                ctx.mismatch(sig + "/rep=arr_par/wrap", case, "the output for a CUQIarray input is not a CUQIarray of parameters of the geometry behind the operator",
                             "CUQIarray(is_par=True, %s)" % type(behind).__name__,
                             "%s(is_par=%r, %s)" % (type(out).__name__, getattr(out, "is_par", None), type(getattr(out, "geometry", None)).__name__))
            if not (np.array_equal(np.asarray(x), v) and x.is_par is True):
                ctx.mismatch(sig + "/rep=arr_par/input_mutated", case, "the call changed the caller's CUQIarray", v, np.asarray(x))
    stats["cases"] = stats.get("cases", 0) + 1


def probe_fun(real):
    """A function value (in the geometry's own shape) that fun2par of a non-identity geometry changes."""
    n = int(np.prod(real.fun_shape))
    return (np.arange(1, n + 1, dtype=float) ** 2).reshape(real.fun_shape)


def finish(ctx, handle):
    from cuqiverif import tlc
    from cuqiverif.core import MachineryError
    results, err = [], None
    for f in handle["futs"]:
        try:
            results.append(f.result())
        except Exception as e:  # noqa: BLE001
            results.append(None)
            err = err or e
    handle["ex"].shutdown(wait=True)
    if err is not None:
        for res in results:
            if res is not None:
                tlc.cleanup(res)
        raise err
    cases = None
    try:
        for (kind, name, inv, _), res in zip(handle["jobs"], results):
            if kind == "dev":
                if res.ok or res.violated != inv:
                    raise MachineryError("deviation %s did not violate %s on ModelGeomForeign (violated=%r)" % (name, inv, res.violated))
                ctx.observations.setdefault("deviation_counterexamples", {})["FG/" + name] = inv
            else:
                ctx.model_must_hold(res, "ModelGeomForeign")
                cases = [c for c in res.cases if c.get("kind") == "fg"]
    finally:
        for res in results:
            tlc.cleanup(res)
    if not cases:
        raise MachineryError("no cases emitted by ModelGeomForeign")
    import json
    cases.sort(key=lambda c: (c["call"], c["opk"], json.dumps(c["dg"], sort_keys=True), json.dumps(c["rg"], sort_keys=True), c["gid"]))
    stats = {}
    for c in cases:
        check_fg_case(ctx, c, stats)
    ctx.observations["foreign_part"] = dict(stats, configurations=len(cases))
    if not stats.get("class_kept_and_fun2par_behind_not_identity") and not ctx.violations:
        raise MachineryError("vacuous: in no case of part FG did the class travel through the geometry in front and the operator while fun2par of the geometry behind "
                             "is not the identity")
    pick = [c for c in cases if c["opk"] == "matmul" and c["call"] == "forward" and c["dg"]["kind"] == "cont1d" and c["rg"]["kind"] == "step"][:1]
    for c in pick:
        ctx.sample({"case": c})
    ctx.assumptions += ["class of the values in flight (part FG): CUQIarray of parameters carrying a foreign geometry (default, Discrete, other grid, other map); "
                        "arrays whose own is_par contradicts the call's flag and carried geometries equal to the geometry behind the operator are not asserted"]
    return len(cases)


def replay(ctx, case):
    return check_fg_case(ctx, case)
