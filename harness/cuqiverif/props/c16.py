"""C16 - solvers return points that satisfy the optimality conditions of their problem.

Spec: specs/Solvers.tla (+ lib/MatQ.tla).  TLC runs CGLS / PCGLS as a state machine over exact rationals and checks
r = b - Ax, s = P^-T(A^T r - shift x), orthogonality of the residuals, finite termination and the shifted normal
equations at termination; it verifies the KKT / fixed-point identity of the constructed proximal-gradient problems,
the projection / proximal characterisations on a lattice, the stationary points of the Levenberg-Marquardt problems
and the sign relation of the SciPy wrappers; every argument array has a LAYOUT (field lay: integer / float32 / Fortran / strided /
read-only arrays, lists) that the end point must not depend on (LayoutIndependent); kind "seq" is a small state machine (actions Solve / SetOp) for ONE solver object
used for a sequence of public operations: the end point expected from a Solve depends only on the operands the object holds at
that moment.  Every problem / behaviour is emitted with its exact rational answers; this module runs the real solvers on them
(the wrappers against SciPy called directly, for default and non-default documented keyword arguments).
"""
META = {
    "claimed": True,
    "engine": "Solvers.tla + SolverScale.tla",
    "text": ("TLC model-checks CGLS/PCGLS as a rational state machine <<x,r,s,p,gamma,k>> (all full-rank A in {-1,0,1}^(m x n), "
             "m,n<=2, shift in {0,1}, integer starts/right-hand sides in a box, unit-triangular preconditioners; a sample of "
             "size-3 problems in the thorough tier): residual invariants, orthogonality, termination within n steps, normal "
             "equations / minimum-norm solution at termination; the KKT fixed-point identity of l1 / non-negativity / box "
             "problems constructed from x*, g, unimodular A (boxes with finite, one-sided = infinite, unbounded and per-component "
             "mixed bounds; the certificate x*, g stays finite); projections and soft-thresholding as exact lattice maps, the box "
             "projection as the componentwise piecewise map x<lower -> lower, x>upper -> upper, else x over extended-real bounds "
             "('Inf'/'-Inf' sentinels) with its laws (finite image, idempotent, identity on the box, nearest point, closed forms, "
             "documented defaults lower 0 / upper 1); "
             "Levenberg-Marquardt problems with known stationary points; the SciPy-wrapper relation.  The harness replays every "
             "emitted problem into cuqi.solver: per-iteration conformance of CGLS/PCGLS through the operator callable (the vectors "
             "A(.,1)/A(.,2) are applied to), final solutions in matrix and function form, iteration counts, FISTA/ISTA and LM end "
             "points against x* (proximal map = ProjectBox / RegularizedGaussian box preset with the spec's possibly infinite "
             "bounds), projections/prox exactly (ProjectBox with bounds omitted / None / float / ndarray / list, positional and "
             "keyword, and the RegularizedGaussian presets), wrappers against SciPy called directly (fmin_l_bfgs_b / minimize / "
             "least_squares) for default and non-default documented keyword arguments (factr, pgtol, m, maxiter, maxfun, maxls, "
             "bounds, epsilon; tol, options, bounds; loss, tol, maxit) on quadratic and non-quadratic objectives.  Sequences: the "
             "spec's Solve / SetOp machine (reassign ONE public operand between solves; named deviation StaleCachedOperand = a "
             "cached A^T b that a new A does not clear) is replayed on one CGLS / PCGLS / FISTA / LM / L_BFGS_B / minimize / "
             "maximize / LS object: every solve must return the point for the operands held NOW, agree with a fresh object / "
             "direct SciPy call, repeat itself on an unchanged object and leave its operands untouched (deep fingerprints).  "
             "Ill-conditioned least squares (kind cgill): nearly collinear dyadic columns (perturbations 2^-8 .. 2^-10), zero or tiny "
             "shift, square and tall, with preconditioner - TLC verifies exactly that the constructed point is THE solution of the "
             "shifted normal equations and two Rayleigh quotients that bound the condition number; in floating point more than n "
             "iterations are needed (demonstrated by the spec's recurrence run in floating point), and CGLS / PCGLS with a large "
             "maxit and tol 1e-13 must return the spec's point in matrix and function form.  Lists (kind proc): the spec's Call "
             "machine - ONE process, a list of DIFFERENT problems solved by different wrapper objects in every order (1- and "
             "2-dimensional quadratics before / after Nelder-Mead on a 5-variable Rosenbrock-type chain polynomial, L-BFGS-B / CG on "
             "quadratics with condition number 4^11 / 4^7, Powell, maximize, L_BFGS_B); invariant CallsIndependent (a call works "
             "under the documented default limit of ITS OWN method and dimension; deviation DefaultsLeakBetweenCalls refuted); "
             "every order runs in a fresh python process and once more in the harness process, each call compared with SciPy "
             "called directly with the documented defaults.  Layouts: every argument array has a LAYOUT in the TLC-enumerated "
             "configuration (field lay = layouts of A, b, x0: float64, integer array, float32, Fortran order, strided view, reversed "
             "view, read-only, python list; points / bounds of the projections also (n,1), (1,n), 0-d) - each argument's layout varied "
             "alone, all the same, mixed triples (thorough: every pair); CGLS / PCGLS problems with a layout run through the cg "
             "machine, which stores its iterate through Cast(layout of x0, .), FISTA / ISTA, LM, the four wrappers and the three "
             "projections are problems of kind lay in postcondition form; invariant LayoutIndependent (the end point is the solution "
             "of the problem WITHOUT its layout and satisfies the optimality system, the recurrence residual is the residual of the "
             "stored iterate), action property ArgumentsFrame (no action changes the problem); named deviation "
             "IterateKeepsStartDtype (the iterate buffer has the layout of the start vector: an integer start truncates) refuted.  "
             "The harness builds the real arguments in that layout from the same exact numbers, requires the same residual checks "
             "with the same tolerances for every RETURNED point (a raised exception asserts nothing: observation layout_refused), "
             "exact images in the shape of the input for the projections, and that every argument buffer (shape, strides, dtype, "
             "flags, bytes, the buffer behind a view, list items) is what it was before the call - also for all problems of kind cg.  "
             "SolverScale.tla (round 9): the SCALE dimension - the same problem in other physical units (A x 2^ea, b x 2^eb, x0 x 2^(eb-ea), "
             "shift x 4^ea): the CGLS / PCGLS machine runs the problem as given and the problem in other units side by side, invariant "
             "ScalingLaw (every state of the scaled run is the scaled state of the base run: iterate, residuals, iteration count, stop "
             "flag of the RELATIVE rule), SolutionScales, GuardSilent, NonTrivial; PostScalingLaw for proximal-gradient problems built "
             "from a KKT certificate, the projections / soft thresholding and Levenberg-Marquardt residual families; named deviation "
             "AbsoluteStop (a start whose normal residual is below tol in absolute terms is returned) refuted.  THRESHOLD: PCGLS on both "
             "sides of the public cuqi.config.MAX_DIM_INV (explicit inverse of P below, solves with P and P^T above), reached by "
             "lowering the configuration value to n / n + 1 and by the default 2000 with the problem replicated block-diagonally 999 / "
             "1000 times (BlockLaw), with symmetric (diagonal, SPD) and non-symmetric (lower / upper triangular) preconditioners; "
             "NormalResidualInv / FiniteTermination / NormalEquations on both sides; named deviation TransposeReusesFactor (the "
             "transposed solve re-uses the factors of P) refuted.  Replay: CGLS / PCGLS in both operator forms on the data scaled by the "
             "checked pairs and by 2^-40 .. 2^40 (exact in binary floating point) must return 2^(eb-ea) x the spec's exact solution "
             "(1e-8 relative to the units) after at least one iteration; FISTA / ISTA (abstol stated in the units of x), LM and the "
             "projections likewise."),
    "note": ("Bounded sizes (n <= 3). Problems whose exact CG iterates exceed TLC's 32-bit integers are followed up to that point "
             "and then compared through their exact solution only (status 'abandoned' in the emitted case). FISTA/LM tolerances are "
             "derived from the solvers' own stopping rules (abstol/(t mu), gradtol |g0|). A float32 start vector makes CGLS / PCGLS keep "
             "and return their iterate in single precision (numpy in-place update): that point is compared at (maxit + 2) eps32 and its "
             "iteration count is not bounded above; an integer start vector makes them raise (observed, not asserted)."),
    "technique": "TLA+ spec (Solvers) model-checked with TLC; TLC-emitted problems and exact rational iterates replayed into cuqi.solver",
}

import contextlib, io, json, warnings
from fractions import Fraction

import numpy as np


# ----------------------------------------------------------------------------------------------------------
def _q(q):
    return float(Fraction(q[0], q[1]))


def _qv(v):
    return np.array([_q(q) for q in v], dtype=float)


def _qe(q):
    """extended real of the spec: a rational <<n, d>> or the sentinel "Inf" / "-Inf" (bound of a one-sided box)"""
    if q == "Inf":
        return float("inf")
    if q == "-Inf":
        return float("-inf")
    return _q(q)


def _qev(v):
    return np.array([_qe(q) for q in v], dtype=float)


def _solver_mod():
    from cuqiverif.core import MachineryError
    try:
        import cuqi.solver._solver as S
    except Exception as e:  # pragma: no cover
        raise MachineryError("cannot import cuqi.solver._solver: %r" % e)
    for name in ("CGLS", "PCGLS", "FISTA", "LM", "L_BFGS_B", "minimize", "maximize", "LS", "ProjectNonnegative",
                 "ProjectBox", "ProximalL1"):
        if not hasattr(S, name):
            raise MachineryError("cuqi.solver._solver.%s disappeared" % name)
    return S


def _over_budget(ctx, prefix, limit=25):
    """A broken solver can make every run hit its iteration cap; once `limit` mismatches of a group are recorded the
    remaining cases of that group are skipped (the verdict is already VIOLATION) so that the check terminates."""
    return sum(1 for v in ctx.violations if v["signature"].startswith(prefix)) >= limit


def _close(a, b, tol):
    a, b = np.asarray(a, float), np.asarray(b, float)
    return a.shape == b.shape and bool(np.all(np.isfinite(a))) and bool(np.all(np.abs(a - b) <= tol * max(1.0, np.abs(b).max() if b.size else 1.0)))


# ----------------------------------------------------------------------------------------------------------
# LAYOUT of the argument arrays (field `lay` of the spec's problems): the same exact numbers stored in different ways
NOLAY = {"A": "f64", "b": "f64", "x0": "f64"}
ARRAY_LAYOUTS = ("f64", "int", "f32", "fortran", "view", "rev", "ro", "col", "row")       # numpy arrays ("ndarray" in a docstring)


def _lay_build(vals, L):
    """The exact numbers `vals` (nested list of floats = the spec's rationals) stored in layout L of Solvers.tla.  The spec admits
    "int" only for integer data and "f32" only for exactly representable data: anything else is a machinery error."""
    from cuqiverif.core import MachineryError
    a = np.array(vals, dtype=float)
    if L in ("f64", "na"):
        return a
    if L == "int":
        ai = a.astype(np.int64)
        if not np.array_equal(ai.astype(float), a):
            raise MachineryError("layout int for non-integer data %r" % (vals,))
        return ai
    if L == "f32":
        a32 = a.astype(np.float32)
        if not np.array_equal(a32.astype(float), a, equal_nan=True):
            raise MachineryError("layout f32 for data that are not exactly representable: %r" % (vals,))
        return a32
    if L == "fortran":
        return np.asfortranarray(a)
    if L == "view":                                      # every second element of a larger buffer
        if a.ndim == 1:
            v = np.full(2 * a.size + 1, 7.5)[1::2]
        else:
            v = np.full((2 * a.shape[0], 2 * a.shape[1] + 1), 7.5)[::2, 1::2]
        v[...] = a
        return v
    if L == "rev":                                       # negative strides
        return a[::-1].copy()[::-1] if a.ndim == 1 else a[::-1, ::-1].copy()[::-1, ::-1]
    if L == "ro":
        a.flags.writeable = False
        return a
    if L == "list":
        return a.tolist()
    if L == "col":
        return a.reshape(-1, 1)
    if L == "row":
        return a.reshape(1, -1)
    raise MachineryError("unknown layout %r in the spec's case" % (L,))


def _snap(v):
    """what a call must leave as it is: shape, strides, dtype, flags and bytes of an array (and of the buffer behind a view),
    the items of a list, the entries of a sparse matrix"""
    import scipy.sparse as spa
    if hasattr(v, "_c16_matrix"):
        return _snap(v._c16_matrix)
    if spa.issparse(v):
        return ("sparse", v.shape, str(v.dtype), v.toarray().tobytes())
    if isinstance(v, np.ndarray):
        base = v.base if isinstance(v.base, np.ndarray) else None
        return ("nd", v.shape, v.strides, str(v.dtype), bool(v.flags.writeable), v.tobytes(), None if base is None else base.tobytes())
    if isinstance(v, (list, tuple)):
        return (type(v).__name__, tuple(_snap(t) for t in v))
    return ("scalar", type(v).__name__, repr(v))


def _changed(before, args):
    """names of the arguments whose snapshot differs from the one taken before the call"""
    return [k for k in sorted(before) if _snap(args[k]) != before[k]]


def _lay_of(c):
    lay = c.get("lay") or NOLAY
    return lay, any(lay[k] not in ("f64", "na") for k in ("A", "b", "x0"))


def _lay_tag(lay):
    return "A=%s/b=%s/x0=%s" % (lay["A"], lay["b"], lay["x0"])


def _lay_refused(ctx, solver, lay, form, e):
    """a solver that refuses a layout (raises) makes no statement about the problem: recorded, never a mismatch"""
    ob = ctx.observations.setdefault("layout_refused", {})
    k = "%s/%s/form=%s" % (solver, _lay_tag(lay), form)
    ob[k] = type(e).__name__


def _lay_returned(ctx, solver):
    ob = ctx.observations.setdefault("layout_returned", {})
    ob[solver] = ob.get(solver, 0) + 1


def _as_operator(A, form):
    """matrix form: the laid-out object itself; function form: the user's forward / adjoint callable around it"""
    if form == "matrix":
        return A
    M = np.asarray(A) if isinstance(A, list) else A

    def Aop(v, flag):
        if flag == 1:
            return M @ v
        if flag == 2:
            return M.T @ v
        raise ValueError("operator called with flag %r" % (flag,))
    Aop._c16_matrix = A
    return Aop


# ----------------------------------------------------------------------------------------------------------
# conjugate gradients
CG_TOL = 1e-10        # relative normal-residual tolerance handed to the solver
CG_CMP = 1e-8         # comparison tolerance for iterates / solutions (relative to max(1, |v|_inf))


def _cg_key(c):
    return (c["solver"], json.dumps(c["A"]), json.dumps(c["b"]), json.dumps(c["x0"]), json.dumps(c["P"]))


def _cg_run(S, c, form, shift=None):
    """Run the real solver on the arguments in the layouts of the case.  Returns (x, k, calls, changed); calls = [(flag, vector)] for
    the function form, changed = the arguments (A, b, x0, P) that are not what they were before the call."""
    import scipy.sparse as spa
    lay, _ = _lay_of(c)
    A = _lay_build(np.array(c["A"], dtype=float).reshape(c["m"], c["n"]).tolist(), lay["A"])
    b = _lay_build(c["b"], lay["b"])
    x0 = _lay_build(c["x0"], lay["x0"])
    M = np.asarray(A) if isinstance(A, list) else A
    shift = c["shift"] if shift is None else shift
    calls = []

    def Aop(v, flag):
        calls.append((flag, np.array(v, dtype=float).copy()))
        if flag == 1:
            return M @ v
        if flag == 2:
            return M.T @ v
        raise ValueError("operator called with flag %r" % (flag,))

    op = A if form == "matrix" else Aop
    maxit = c["n"] + 6
    args = {"A": A, "b": b, "x0": x0}
    if c["solver"] != "cgls":
        args["P"] = spa.csc_matrix(np.array(c["P"], dtype=float))
    before = {k: _snap(v) for k, v in args.items()}
    with warnings.catch_warnings():
        warnings.simplefilter("ignore")
        with np.errstate(all="ignore"):
            if c["solver"] == "cgls":
                x, k = S.CGLS(op, b, x0, maxit, CG_TOL, shift).solve()
            else:
                x, k = S.PCGLS(op, b, x0, args["P"], maxit, CG_TOL, shift).solve()
    # single: the start vector was handed over in single precision AND the solver kept its iterate (and returns it) in that precision
    single = lay["x0"] == "f32" and getattr(x, "dtype", None) == np.float32
    return np.asarray(x, dtype=float), int(k), calls, _changed(before, args), (maxit + 2) * float(np.finfo(np.float32).eps) if single else 0.0


def _expected_calls(c):
    """The sequence of operator applications the spec's Start / Iterate actions perform."""
    exp = []
    for st in c["steps"]:
        exp.append((1, _qv(st["fwd"])))
        exp.append((2, _qv(st["adj"])))
    return exp


def _calls_conform(calls, exp, tol=None):
    """first index at which the recorded calls depart from the expected ones (None if the prefix conforms)"""
    tol = CG_CMP if tol is None else tol
    for i, (flag, v) in enumerate(exp):
        if i >= len(calls):
            return i, "missing call"
        if calls[i][0] != flag:
            return i, "flag %r instead of %r" % (calls[i][0], flag)
        if not _close(calls[i][1], v, tol):
            return i, "vector differs"
    return None


def check_cg(ctx, S, c, sibling=None):
    """c: TLC case of kind cg.  sibling: the case with the same data and shift 0 (used to EXPLAIN a mismatch of PCGLS
    with shift as the named deviation PcglsIgnoresShift).  The arguments are built in the layouts c["lay"] of the case: the
    expected vectors do not depend on them (spec: LayoutIndependent)."""
    n, solver = c["n"], c["solver"]
    xsol = _qv(c["xsol"])
    K = c["k"]
    lay, islay = _lay_of(c)
    base = "%s/%%s/shift=%d/form=%%s/m=%d/n=%d" % (solver, c["shift"], c["m"], n)
    if islay:
        base = "lay/%s/%s/%%s/shift=%d/form=%%s/m=%d/n=%d" % (solver, _lay_tag(lay), c["shift"], c["m"], n)
    res = {}
    for form in ("matrix", "function"):
        # trivial: the start vector already solves the normal equations (the spec's machine makes no iteration)
        ctx.case(("cg", solver, c["A"], c["b"], c["x0"], c["shift"], c["P"], form) + ((_lay_tag(lay),) if islay else ()),
                 nontrivial=K >= 1, facet=("lay/cg/" if islay else "cg/") + solver + "/" + form)
        try:
            x, k, calls, changed, single = _cg_run(S, c, form)
        except Exception as e:
            from cuqiverif.core import MachineryError
            if isinstance(e, MachineryError):
                raise
            if islay:
                _lay_refused(ctx, solver, lay, form, e)          # a refused layout: nothing returned, nothing asserted
                continue
            ctx.mismatch(base % ("raises", form), c, "solver raised %r" % (e,), expected=xsol, observed=repr(e))
            continue
        if islay:
            _lay_returned(ctx, solver)
        res[form] = x
        bad = []
        for a in changed:
            bad.append(("mutates/" + a, "solve() changed the argument %r it was given (shape / strides / dtype / flags / bytes before and "
                                        "after the call differ)" % a, None, None))
        # A float32 START VECTOR makes CGLS / PCGLS keep (numpy's in-place `x += ...`) and return their iterate in single precision:
        # such a point is compared at single precision - (maxit + 2) eps32, one rounding of the stored iterate per update - and the
        # upper bound on the iteration count is not asserted (the stopping rule tol = 1e-10 is below single precision).
        cmp_tol = max(CG_CMP, single)
        if single:
            ctx.observations["cg_single_precision_runs"] = ctx.observations.get("cg_single_precision_runs", 0) + 1
        if not _close(x, xsol, cmp_tol):
            bad.append(("solution", "returned point is not the solution of the (shifted, preconditioned) normal equations "
                                    "/ the minimum-norm correction of x0" + (" (arguments in the layouts %s)" % _lay_tag(lay) if islay else ""),
                        xsol, x))
        if k > n + 1 and not single:
            bad.append(("itercount", "more than n (+1) iterations for an n-dimensional problem (exact termination after <= n)",
                        "<= %d" % (n + 1), k))
        if c["status"] == "converged" and K >= 1 and k < K:
            bad.append(("itercount", "stopped before the normal residual vanished", ">= %d" % K, k))
        if form == "function":
            exp = _expected_calls(c)
            dep = _calls_conform(calls, exp, cmp_tol)
            if dep is not None:
                i, why = dep
                bad.append(("calls", "operator application #%d (%s, iteration %d) departs from the spec's recurrence: %s"
                            % (i, "forward" if exp[i][0] == 1 else "adjoint", i // 2, why),
                            [exp[i][0], exp[i][1]], [calls[i][0], calls[i][1]] if i < len(calls) else None))
        if not bad:
            continue
        # explanation by the named deviation: PCGLS behaves exactly as the spec's machine WITHOUT shift
        if solver == "pcgls" and c["shift"] != 0 and sibling is not None and not changed:
            ok_dev = _close(x, _qv(sibling["xsol"]), CG_CMP)
            if form == "function":
                ok_dev = ok_dev and _calls_conform(calls, _expected_calls(sibling)) is None
            if ok_dev:
                ctx.mismatch("pcgls/shift_ignored/form=%s/m=%d/n=%d" % (form, c["m"], n), c,
                             "PCGLS accepts `shift` but solves the unshifted problem (behaves as deviation PcglsIgnoresShift)",
                             expected=xsol, observed=x)
                continue
        for facet, what, e, o in bad:
            ctx.mismatch(base % (facet, form), c, what, expected=e, observed=o)
    if len(res) == 2 and not _close(res["matrix"], res["function"], 1e-12):
        ctx.mismatch(base % ("forms", "both"), c, "matrix form and function form return different points",
                     expected=res["matrix"], observed=res["function"])
    ctx.observations.setdefault("cg_status", {}).setdefault(c["status"], 0)
    ctx.observations["cg_status"][c["status"]] += 1


# ----------------------------------------------------------------------------------------------------------
# projections / proximal maps
def _regularized_gaussian(**kw):
    import cuqi
    with contextlib.redirect_stdout(io.StringIO()):
        return cuqi.implicitprior.RegularizedGaussian(np.zeros(2), 1.0, **kw)


def _bound_forms(form, vec):
    """The ways one bound of the spec's box is handed to ProjectBox: form "none" -> left out (documented default),
    "scalar" -> one float (possibly +-inf) and the equivalent constant array, "vector" -> ndarray and list."""
    if form == "none":
        return [("none", None)]
    if form == "scalar":
        return [("float", float(vec[0])), ("array", vec.copy())]
    return [("array", vec.copy()), ("list", [float(t) for t in vec])]


def _box_calls(S, c, x):
    """[(call-site, thunk)] for one box case; the bounds (lo, up: effective bounds, form: how they are passed) come from
    the spec.  A bound with form "none" is left out (keyword call) or passed as None (positional call): the docstring of
    ProjectBox defines `Zero if None` / `One if None`."""
    lo, up = _qev(c["lo"]), _qev(c["up"])
    lf, uf = c["form"]
    name = c["box"]
    calls = []
    for i, (ln, L) in enumerate(_bound_forms(lf, lo)):
        for j, (un, U) in enumerate(_bound_forms(uf, up)):
            if i != j and lf == uf:
                continue                       # same representation for both bounds unless their forms differ
            tag = "%s.%s-%s" % (name, ln, un)
            kw = {}
            if L is not None:
                kw["lower"] = L
            if U is not None:
                kw["upper"] = U
            calls.append(("ProjectBox.%s.kw" % tag, (lambda kw=kw: S.ProjectBox(x.copy(), **kw))))
            calls.append(("ProjectBox.%s" % tag, (lambda L=L, U=U: S.ProjectBox(x.copy(), L, U))))
            if "list" not in (ln, un):
                rkw = {}
                if L is not None:
                    rkw["lower_bound"] = L
                if U is not None:
                    rkw["upper_bound"] = U
                calls.append(("RegularizedGaussian.box.%s" % tag,
                              (lambda rkw=rkw: _regularized_gaussian(constraint="box", **rkw).proximal(x.copy(), 0.7))))
    return calls


def check_prox(ctx, S, c):
    x = _qv(c["x"])
    out = _qv(c["out"])
    gam, lam = _q(c["gam"]), _q(c["lam"])
    op = c["op"]
    calls = []          # (call-site, thunk)
    if op == "nonneg":
        calls.append(("ProjectNonnegative", lambda: S.ProjectNonnegative(x.copy())))
        calls.append(("RegularizedGaussian.nonnegativity",
                      lambda: _regularized_gaussian(constraint="nonnegativity").proximal(x.copy(), 0.7)))
    elif op == "box":
        calls = _box_calls(S, c, x)
    elif op == "l1":
        calls.append(("ProximalL1", lambda: S.ProximalL1(x.copy(), gam)))
        calls.append(("RegularizedGaussian.l1.default", lambda: _regularized_gaussian(regularization="l1").proximal(x.copy(), gam)))
    elif op == "l1s":
        calls.append(("RegularizedGaussian.l1.strength",
                      lambda: _regularized_gaussian(regularization="l1", strength=lam).proximal(x.copy(), gam)))
    for site, thunk in calls:
        # trivial: the map leaves the input where it is (a point of the set / below no threshold)
        ctx.case(("prox", site, c["x"], c["gam"], c["lam"], c["box"]), nontrivial=not np.array_equal(x, out), facet="prox/" + op)
        try:
            with warnings.catch_warnings():
                warnings.simplefilter("ignore")
                with np.errstate(all="ignore"):
                    v = np.asarray(thunk(), dtype=float)
        except Exception as e:
            ctx.mismatch("prox/%s/%s/raises" % (op, site), c, "%s raised %r on an admissible input (finite point; bounds lower <= upper, "
                         "possibly infinite)" % (site, e), expected=out, observed=repr(e))
            continue
        if v.shape != out.shape or not np.array_equal(v, out):
            ctx.mismatch("prox/%s/%s" % (op, site), c, "%s is not the exact Euclidean projection / proximal map" % site,
                         expected=out, observed=v)


# ----------------------------------------------------------------------------------------------------------
# proximal gradient on problems constructed from their KKT system
def _prox_of(S, c, variant):
    lam = _q(c["lam"])
    n = c["n"]
    if c["h"] == "l1":
        if variant == 0 and lam == 1.0:
            return S.ProximalL1, "ProximalL1"
        if variant == 1:
            import cuqi
            with contextlib.redirect_stdout(io.StringIO()):
                rg = cuqi.implicitprior.RegularizedGaussian(np.zeros(n), 1.0, regularization="l1", strength=lam)
            return rg.proximal, "RegularizedGaussian.l1"
        return (lambda z, t: S.ProximalL1(z, t * lam)), "ProximalL1*lam"
    if c["h"] == "nonneg":
        return (lambda z, t: S.ProjectNonnegative(z)), "ProjectNonnegative"
    # box: bounds of the spec, possibly "Inf" / "-Inf" (one-sided / unbounded box)
    lo, up = _qev(c["lo"]), _qev(c["up"])
    if variant == 1:
        import cuqi
        with contextlib.redirect_stdout(io.StringIO()):
            rg = cuqi.implicitprior.RegularizedGaussian(np.zeros(n), 1.0, constraint="box", lower_bound=lo, upper_bound=up)
        return rg.proximal, "RegularizedGaussian.box"
    if variant == 2 and c["bform"] == "scalar":
        l0, u0 = float(lo[0]), float(up[0])
        return (lambda z, t: S.ProjectBox(z, l0, u0)), "ProjectBox.scalar"
    return (lambda z, t: S.ProjectBox(z, lo, up)), "ProjectBox"


def check_kkt(ctx, S, c, idx, thorough):
    A = np.array(c["A"], dtype=float)
    b, xs = _qv(c["b"]), _qv(c["xs"])
    n = c["n"]
    mu = float(np.linalg.eigvalsh(A.T @ A)[0])
    start = np.array([3.0, -2.0, 1.0][:n])

    def Aop(v, flag):
        return A @ v if flag == 1 else A.T @ v

    # which runs: ISTA always; FISTA (momentum, ~20x more iterations) on every third / fourth problem
    runs = [(False, 0, "matrix" if idx % 2 == 0 else "function", start)]
    if idx % (4 if thorough else 3) == 0:
        runs.append((True, 0, "function" if idx % 2 == 0 else "matrix", start))
    if idx % 5 == 0:
        runs.append((False, 1, "matrix", -start))
    if idx % 7 == 0:
        runs.append((idx % 2 == 0, 0, "matrix", xs.copy()))         # started at the fixed point
    for adaptive, si, form, x0 in runs:
        if _over_budget(ctx, "fista/"):
            return
        t = _q(c["steps"][si])
        abstol = 1e-8 if adaptive else 1e-10
        prox, pname = _prox_of(S, c, idx % 3)
        ctx.case(("kkt", c["A"], c["h"], c["lam"], c["lo"], c["up"], c["xs"], c["g"], adaptive, si, form, pname,
                  "at-fixed-point" if np.array_equal(x0, xs) else "away"),
                 nontrivial=not np.array_equal(x0, xs), facet="kkt/%s/%s" % (c["h"], "fista" if adaptive else "ista"))
        sig = "fista/%s/%s/adaptive=%d/form=%s/n=%d" % (c["h"], pname, adaptive, form, n)
        try:
            with warnings.catch_warnings():
                warnings.simplefilter("ignore")
                x, k = S.FISTA(A if form == "matrix" else Aop, b, x0.copy(), prox, maxit=60000 if adaptive else 20000, stepsize=t,
                               abstol=abstol, adaptive=adaptive).solve()
        except Exception as e:
            ctx.mismatch(sig + "/raises", c, "FISTA raised %r" % (e,))
            continue
        # |x_{k+1} - y_k| <= abstol and the prox-gradient map contracts with rho = 1 - t mu  =>  |x - x*| <= abstol/(t mu)
        tol = 10 * abstol / (t * mu) + 1e-12
        err = float(np.linalg.norm(np.asarray(x, float) - xs))
        if not np.isfinite(err) or err > tol:
            ctx.mismatch(sig, c, "returned point is not the fixed point of the proximal-gradient map (= the unique minimiser "
                         "of 1/2|Ax-b|^2 + h) within abstol/(t mu)", expected=xs, observed=x,
                         detail={"iterations": int(k), "tol": tol, "stepsize": t, "start": x0})


# ----------------------------------------------------------------------------------------------------------
# Levenberg-Marquardt
def _lm_funcs(c):
    fam = c["fam"]
    if fam == "lin":
        B = np.array(c["B"], dtype=float)
        cc = np.array(c["c"], dtype=float)
        return (lambda x: B @ x - cc), (lambda x: B.copy())
    a, d = float(c["a"]), float(c["d"])
    if fam == "sq":
        return (lambda x: np.array([x[0] ** 2 - a * a, x[1] - d])), (lambda x: np.array([[2 * x[0], 0.0], [0.0, 1.0]]))
    if fam == "para":
        return (lambda x: np.array([x[0] - a, d * (x[1] - x[0] ** 2)])), (lambda x: np.array([[1.0, 0.0], [-2 * d * x[0], d]]))
    from cuqiverif.core import MachineryError
    raise MachineryError("unknown LM family %r" % fam)


def check_lm(ctx, S, c):
    import scipy.sparse as spa
    res, jac = _lm_funcs(c)
    stat = [_qv(s) for s in c["stat"]]
    gradtol = 1e-8          # the solver's default; tighter values are below the attainable accuracy for non-zero residuals
    for i, (st, g0) in enumerate(zip(c["starts"], c["g0"])):
        x0 = _qv(st)
        ng0 = float(np.linalg.norm(_qv(g0)))
        for sparse in ((False, True) if i % 4 == 0 else (False,)):
            if _over_budget(ctx, "lm/", 12):
                return
            ctx.case(("lm", c["fam"], c["B"], c["c"], c["a"], c["d"], st, sparse), nontrivial=ng0 > 0, facet="lm/" + c["fam"])
            sig = "lm/%s/sparse=%d" % (c["fam"], sparse)
            jf = (lambda x: spa.csr_matrix(jac(x))) if sparse else jac
            try:
                with warnings.catch_warnings():
                    warnings.simplefilter("ignore")
                    with np.errstate(all="ignore"):
                        x, info = S.LM(res, x0.copy(), jf, maxit=2000, tol=1e-6, gradtol=gradtol, sparse=sparse).solve()
            except Exception as e:
                ctx.mismatch(sig + "/raises", c, "LM raised %r from start %r" % (e, x0.tolist()))
                continue
            x = np.asarray(x, dtype=float)
            # loop ends when |g| <= gradtol |g0|; the Hessians at the stationary points of the families have
            # smallest singular value >= 0.05, so |x - x*| <~ 20 gradtol |g0|
            tol = 1e-9 + 100 * gradtol * ng0
            dist = min(float(np.linalg.norm(x - s)) for s in stat) if np.all(np.isfinite(x)) else float("inf")
            if dist > tol:
                ctx.mismatch(sig, c, "LM did not return a stationary point of the sum of squares (J^T r = 0)",
                             expected=[s.tolist() for s in stat], observed=x, detail={"start": x0, "tol": tol})


# ----------------------------------------------------------------------------------------------------------
# SciPy wrappers
def _same(a, b):
    if isinstance(a, np.ndarray) or isinstance(b, np.ndarray):
        a, b = np.asarray(a), np.asarray(b)
        return a.shape == b.shape and bool(np.array_equal(a, b, equal_nan=True)) if a.dtype.kind in "fc" else bool(np.array_equal(a, b))
    if isinstance(a, float) and isinstance(b, float) and a != a and b != b:
        return True
    try:
        return bool(a == b)
    except Exception:
        return False


def _call(fn):
    with warnings.catch_warnings():
        warnings.simplefilter("ignore")
        with np.errstate(all="ignore"), contextlib.redirect_stdout(io.StringIO()):
            try:
                return fn(), None
            except Exception as e:
                return None, e


def _kwval(v):
    """a keyword value of the spec's option tables: Sci(m, e) = m * 10^e, IntV, StrV, BoxV (one (lo, up) per component), DictV"""
    t = v["t"]
    if t == "sci":
        return float(Fraction(v["m"]) * Fraction(10) ** int(v["e"]))
    if t == "int":
        return int(v["n"])
    if t == "str":
        return str(v["s"])
    if t == "bounds":
        return [(_q(lo), _q(up)) for lo, up in zip(v["lo"], v["up"])]
    if t == "dict":
        return {i["k"]: _kwval(i["v"]) for i in v["items"]}
    from cuqiverif.core import MachineryError
    raise MachineryError("unknown keyword value %r in the spec's option table" % (v,))


def _kwargs(kw):
    """fresh python objects at every call (the wrapper and the reference never share a mutable argument)"""
    return {i["k"]: _kwval(i["v"]) for i in kw}


def _objective(fn, sense):
    """fn = {obj, a, c} of the spec.  Returns the user's f, its gradient g, the residual r and Jacobian J (f = sense 1/2 |r|^2)
    and the optimum c."""
    a = np.array(fn["a"], dtype=float)
    cc = np.array(fn["c"], dtype=float)
    if fn["obj"] == "quad":
        sq = np.sqrt(a)
        f = lambda x: sense * 0.5 * float(np.sum(a * (x - cc) ** 2))
        g = lambda x: sense * a * (x - cc)
        r = lambda x: sq * (x - cc)
        J = lambda x: np.diag(sq)
    elif fn["obj"] == "para":
        pa, pd = float(a[0]), float(a[1])
        r = lambda x: np.array([x[0] - pa, pd * (x[1] - x[0] ** 2)])
        J = lambda x: np.array([[1.0, 0.0], [-2 * pd * x[0], pd]])
        f = lambda x: sense * 0.5 * float(np.sum(r(x) ** 2))
        g = lambda x: sense * (J(x).T @ r(x))
    else:
        from cuqiverif.core import MachineryError
        raise MachineryError("unknown objective %r" % (fn,))
    return {"f": f, "g": g, "r": r, "J": J, "c": cc}


def _wrap_new(S, w, ob, x0, grad, method, kw):
    """the wrapper object for the user's problem (constructor arguments as documented)"""
    me = None if method == "default" else method
    if w in ("minimize", "maximize"):
        return getattr(S, w)(ob["f"], x0, gradfunc=ob["g"] if grad else None, method=me, **kw)
    if w == "LS":
        return S.LS(ob["r"], x0, jacfun=ob["J"] if grad else None, method=method, loss=kw["loss"], tol=kw["tol"], maxit=kw["maxit"])
    return S.L_BFGS_B(ob["f"], x0, gradfunc=ob["g"] if grad else None, **kw)


def _wrap_reference(w, ob, sign, x0, grad, method, kw):
    """SciPy called directly: the documented target of the wrapper with the same arguments (LS: renamed by the spec's
    LsArgMap; maximize: the objective and its gradient multiplied by sign = -1)"""
    import scipy.optimize as opt
    me = None if method == "default" else method
    f, g = ob["f"], ob["g"]
    if w in ("minimize", "maximize"):
        return opt.minimize(lambda x: sign * f(x), x0, jac=(lambda x: sign * g(x)) if grad else None, method=me, **kw)
    if w == "LS":
        return opt.least_squares(ob["r"], x0, jac=ob["J"] if grad else "2-point", method=method, loss=kw["loss"],
                                 xtol=kw["tol"], max_nfev=kw["maxit"])
    return opt.fmin_l_bfgs_b(f, x0, fprime=g if grad else None, approx_grad=0 if grad else 1, **kw)


def _wrap_compare(ctx, c, sig, w, got, e1, ref, e2, cc, sense):
    """the wrapper's (solution, info) against SciPy's own result; c carries the spec's tables info / warn"""
    if e2 is not None:
        # SciPy itself refuses these arguments; the wrapper has to pass that on
        if e1 is None:
            ctx.mismatch(sig + "/no_error", c, "SciPy raises for these arguments but the wrapper returns", repr(e2), got)
        return
    if e1 is not None:
        ctx.mismatch(sig + "/wrapper_raises/" + type(e1).__name__, c,
                     "SciPy returns a result for documented arguments but the wrapper raises %r" % (e1,),
                     expected=ref[0] if w == "L_BFGS_B" else ref["x"], observed=repr(e1))
        return
    sol, info = got
    if w == "L_BFGS_B":
        _lbfgs_compare(ctx, c, sig, sol, info, ref)
        refx, ok = ref[0], int(ref[2]["warnflag"]) == 0
    else:
        refx, ok = ref["x"], bool(ref["success"])
        if not _same(np.asarray(sol), refx):
            ctx.mismatch(sig + "/solution", c, "wrapper does not return SciPy's solution%s" %
                         (" for the objective -f" if w == "maximize" else ""), refx, sol)
        for k, v in c["info"].items():
            if w == "LS" and (not isinstance(info, dict) or k not in info):
                # LS.solve documents "optimization information (dictionary)" without naming its keys
                ctx.observations.setdefault("LS_info_keys_absent", {})[k] = v
            elif v in ref and (k not in info or not _same(info[k], ref[v])):
                ctx.mismatch(sig + "/info/" + k, c, "info[%r] is not SciPy's %r" % (k, v), ref[v], info.get(k, "<missing>"))
    # the spec's optimum: asserted where SciPy itself reports convergence and is there (not with few iterations / active bounds)
    atol = 1e-5 if w == "LS" else (1e-4 if w == "L_BFGS_B" else 1e-3)
    if ok and np.allclose(np.asarray(refx, float), cc, atol=atol):
        ctx.observations["wrap_reference_at_optimum"] = ctx.observations.get("wrap_reference_at_optimum", 0) + 1
        if not np.allclose(np.asarray(sol, float), cc, atol=atol):
            ctx.mismatch(sig + "/optimum", c, "returned point is not the %s of the user's function" %
                         ("maximiser" if sense < 0 else "minimiser"), cc, sol)


def _wrap_sig(c):
    w = c["wrapper"]
    sig = "wrap/%s/method=%s/grad=%d" % (w, c["method"], 1 if c["grad"] else 0)
    if c["obj"] != "quad":
        sig += "/obj=" + c["obj"]
    if c["opt"] != ("default" if w in ("minimize", "maximize") else "tight"):
        sig += "/opt=" + c["opt"]
    return sig


def check_wrap(ctx, S, c):
    x0 = np.array(c["x0"], dtype=float)
    sense, sign = c["sense"], c["sign"]
    w, method, grad = c["wrapper"], c["method"], bool(c["grad"])
    ob = _objective(c, sense)
    cc = ob["c"]
    sig = _wrap_sig(c)
    ctx.case(("wrap", w, method, c["obj"], c["a"], c["c"], c["x0"], c["grad"], c["opt"]), facet="wrap/%s/%s" % (w, c["opt"]))
    got, e1 = _call(lambda: _wrap_new(S, w, ob, x0.copy(), grad, method, _kwargs(c["kw"])).solve())
    ref, e2 = _call(lambda: _wrap_reference(w, ob, sign, x0.copy(), grad, method, _kwargs(c["kw"])))
    _wrap_compare(ctx, c, sig, w, got, e1, ref, e2, cc, sense)
    if w == "L_BFGS_B" and c["opt"] == "tight" and c["obj"] == "quad":
        _lbfgs_scripted(ctx, S, c, sig, ob, x0)


def _lbfgs_scripted(ctx, S, c, sig, ob, x0):
    """Scripted raw results (every warnflag class of the spec's table) and the arguments handed over, observed at the name
    `fmin_l_bfgs_b` of the module.  How the wrapper reaches SciPy is not part of the property: when that name is gone or is
    not what the wrapper calls, this is recorded as an observation and the behavioural comparison above stands alone."""
    f, g = ob["f"], (ob["g"] if c["grad"] else None)
    real = getattr(S, "fmin_l_bfgs_b", None)
    if real is None:
        ctx.observe("L_BFGS_B_routing", "cuqi.solver._solver has no attribute fmin_l_bfgs_b: scripted warnflag classes not exercised")
        return
    for wf in (0, 1, 2):
        seen = {}

        def stub(func, x0_, fprime=None, approx_grad=0, **kwargs):
            seen.update(func=func, x0=x0_, fprime=fprime, approx_grad=approx_grad, kwargs=kwargs)
            return (np.array([0.25, -1.5]), 0.125, {"grad": np.array([1.0, 2.0]), "task": "ABNORMAL_TERMINATION_IN_LNSRCH",
                                                    "funcalls": 21, "nit": 7, "warnflag": wf})
        S.fmin_l_bfgs_b = stub
        try:
            got, e1 = _call(lambda: S.L_BFGS_B(f, x0.copy(), gradfunc=g, maxiter=7).solve())
        finally:
            S.fmin_l_bfgs_b = real
        if not seen:
            ctx.observe("L_BFGS_B_routing", "L_BFGS_B.solve does not call cuqi.solver._solver.fmin_l_bfgs_b: scripted warnflag "
                                            "classes not exercised")
            return
        ctx.case(("wrap", "L_BFGS_B", "stub", wf, c["grad"], c["c"], c["x0"]), facet="wrap/L_BFGS_B/stub")
        if e1 is not None:
            ctx.mismatch(sig + "/stub/raises", c, "L_BFGS_B raised %r on a scripted SciPy result" % (e1,))
            continue
        sol, info = got
        seen_call = dict(seen)
        raw = stub(None, None)
        seen = seen_call
        _lbfgs_compare(ctx, dict(c, warnflag=wf), sig + "/stub/warnflag=%d" % wf, sol, info, raw)
        okargs = _lbfgs_args_ok(seen, f, g, x0, {"maxiter": 7})
        if not okargs:
            ctx.mismatch(sig + "/stub/arguments", c, "SciPy is not asked to minimise func from x0 with the user's gradient "
                         "(approximated when gradfunc is None) and the user's keyword arguments",
                         observed={k: repr(v) for k, v in seen.items()})


def _lbfgs_args_ok(seen, f, g, x0, kwargs):
    """What fmin_l_bfgs_b was asked to do, judged by behaviour (not by object identity: a wrapper may wrap the callables):
    the objective evaluates like f, the start is x0, the gradient SciPy will use is the user's (fprime, or func returning
    (f, g)) or an approximation exactly when none was given, and the user's keyword arguments are passed on."""
    pts = [np.array([0.3, -1.2]), np.array([2.0, 0.5])]
    try:
        func, fprime, approx = seen.get("func"), seen.get("fprime"), bool(seen.get("approx_grad"))
        if not callable(func) or not np.array_equal(np.asarray(seen.get("x0"), float), x0):
            return False
        vals = [func(p.copy()) for p in pts]
        joint = all(isinstance(v, tuple) and len(v) == 2 for v in vals)        # func returns (f, g): SciPy's other convention
        fv = [v[0] if joint else v for v in vals]
        if not all(abs(float(a) - f(p)) <= 1e-12 * max(1.0, abs(f(p))) for a, p in zip(fv, pts)):
            return False
        if g is None:
            if not approx or fprime is not None or joint:
                return False
        else:
            if approx:
                return False
            gv = [v[1] for v in vals] if joint else ([fprime(p.copy()) for p in pts] if callable(fprime) else None)
            if gv is None or not all(np.allclose(np.asarray(a, float), g(p), rtol=1e-12, atol=1e-12) for a, p in zip(gv, pts)):
                return False
        kw = seen.get("kwargs") or {}
        return all(k in kw and kw[k] == v for k, v in kwargs.items())
    except Exception:
        return False


def _lbfgs_compare(ctx, c, sig, sol, info, raw):
    x, fval, d = raw
    if not _same(np.asarray(sol), x):
        ctx.mismatch(sig + "/solution", c, "L_BFGS_B does not return SciPy's solution", x, sol)
    look = {"f": fval, "d.grad": d["grad"], "d.nit": d["nit"], "d.funcalls": d["funcalls"]}
    for k, v in c["info"].items():
        if k not in info or not _same(info[k], look[v]):
            ctx.mismatch(sig + "/info/" + k, c, "info[%r] is not SciPy's %s" % (k, v), look[v], info.get(k, "<missing>"))
    succ, msg = c["warn"][min(int(d["warnflag"]), 2)]
    msg = d["task"] if msg == "task" else msg
    if "success" not in info or bool(info["success"]) != bool(succ):
        ctx.mismatch(sig + "/info/success", c, "success is not `1 if the minimisation has converged (warnflag 0), 0 if not`",
                     succ, info.get("success", "<missing>"))
    got_msg = info.get("message")
    if not (isinstance(got_msg, (str, bytes)) and len(got_msg) > 0):
        ctx.mismatch(sig + "/info/message", c, "message is not a description of the cause of the termination",
                     msg, info.get("message", "<missing>"))
    elif got_msg != msg:
        # documented as "Description of the cause of the termination": the wording is not part of the property
        ctx.observations.setdefault("L_BFGS_B_message_wording", {})[str(int(d["warnflag"]))] = [msg, got_msg if isinstance(got_msg, str) else repr(got_msg)]


# ----------------------------------------------------------------------------------------------------------
# sequences of public operations on ONE solver object (kind "seq")
SEQ_ABSTOL = 1e-8       # FISTA / ISTA stopping tolerance of the sequence objects


def _fp(v):
    """deep fingerprint of an operand: shape, dtype and bytes of arrays (also inside lists / dicts / sparse matrices / the
    matrix behind a forward-adjoint callable); callables themselves count as opaque"""
    import scipy.sparse as spa
    if hasattr(v, "_c16_matrix"):
        return ("op", _fp(v._c16_matrix))
    if spa.issparse(v):
        return ("sparse", v.shape, _fp(v.toarray()))
    if isinstance(v, np.ndarray):
        return ("nd", v.shape, str(v.dtype), v.tobytes())
    if isinstance(v, dict):
        return ("dict", tuple((k, _fp(v[k])) for k in sorted(v)))
    if isinstance(v, (list, tuple)):
        return (type(v).__name__, tuple(_fp(t) for t in v))
    if callable(v):
        return ("callable",)
    return ("scalar", repr(v))


def _op_form(A, form):
    """the operand A as the matrix itself or as the forward / adjoint callable around it"""
    if form == "matrix":
        return A

    def Aop(v, flag):
        if flag == 1:
            return A @ v
        if flag == 2:
            return A.T @ v
        raise ValueError("operator called with flag %r" % (flag,))
    Aop._c16_matrix = A
    return Aop


def _seq_value(S, fam, field, o, var):
    """python value of the public operand `field` for the spec's operand record o (var: form / proximal variant)"""
    if fam in ("cgls", "pcgls", "fista") and field == "A":
        return _op_form(np.array(o["A"], dtype=float), var["form"])
    if field in ("b", "x0") and fam in ("cgls", "pcgls", "fista"):
        return np.array(o[field], dtype=float)
    if fam in ("cgls", "pcgls"):
        if field == "P":
            import scipy.sparse as spa
            return spa.csc_matrix(np.array(o["P"], dtype=float))
        return {"shift": lambda: o["shift"], "maxit": lambda: int(o["maxit"]), "tol": lambda: 10.0 ** (-o["tol"])}[field]()
    if fam == "fista":
        if field == "proximal":
            return _prox_of(S, dict(o["proximal"], n=2), var["prox"])[0]
        return {"stepsize": lambda: _q(o["stepsize"]), "adaptive": lambda: bool(o["adaptive"]), "maxit": lambda: int(o["maxit"])}[field]()
    if fam == "lm":
        if field == "A":
            return _lm_funcs(o["A"])[0]
        if field == "jacfun":
            return _lm_funcs(o["A"])[1]
        return _qv(o["x0"]) if field == "x0" else int(o["maxit"])
    # SciPy wrappers
    sense = -1 if fam == "maximize" else 1
    if field == "x0":
        return np.array(o["x0"], dtype=float)
    ob = _objective(o["func"], sense)
    if field == "func":
        return ob["r"] if fam == "LS" else ob["f"]
    if field == "gradfunc":
        return ob["g"] if o["gradfunc"] else None
    if field == "jacfun":
        return ob["J"] if o["jacfun"] else None
    if field == "method":
        return None if o["method"] == "default" else o["method"]
    if field == "kwargs":
        return _kwargs(o["kwargs"]["kw"])
    return {"loss": lambda: str(o["loss"]), "tol": lambda: 10.0 ** (-o["tol"]), "maxit": lambda: int(o["maxit"])}[field]()


_SEQ_OPERANDS = {"cgls": ("A", "b", "x0", "shift", "maxit", "tol"), "pcgls": ("A", "b", "x0", "P", "maxit", "tol", "shift"),
                 "fista": ("A", "b", "x0", "proximal", "maxit", "stepsize", "adaptive"), "lm": ("A", "x0", "jacfun", "maxit"),
                 "L_BFGS_B": ("func", "x0", "gradfunc", "kwargs"), "minimize": ("func", "x0", "gradfunc", "method", "kwargs"),
                 "maximize": ("func", "x0", "gradfunc", "method", "kwargs"),
                 "LS": ("func", "x0", "jacfun", "method", "loss", "tol", "maxit")}


def _seq_new(S, fam, vals):
    """a freshly constructed solver for the operand values (documented constructor signatures)"""
    v = vals
    if fam == "cgls":
        return S.CGLS(v["A"], v["b"], v["x0"], v["maxit"], v["tol"], v["shift"])
    if fam == "pcgls":
        return S.PCGLS(v["A"], v["b"], v["x0"], v["P"], v["maxit"], v["tol"], v["shift"])
    if fam == "fista":
        return S.FISTA(v["A"], v["b"], v["x0"], v["proximal"], maxit=v["maxit"], stepsize=v["stepsize"], abstol=SEQ_ABSTOL,
                       adaptive=v["adaptive"])
    if fam == "lm":
        return S.LM(v["A"], v["x0"], v["jacfun"], maxit=v["maxit"], tol=1e-6, gradtol=1e-8, sparse=False)
    if fam == "L_BFGS_B":
        return S.L_BFGS_B(v["func"], v["x0"], gradfunc=v["gradfunc"], **v["kwargs"])
    if fam in ("minimize", "maximize"):
        return getattr(S, fam)(v["func"], v["x0"], gradfunc=v["gradfunc"], method=v["method"], **v["kwargs"])
    return S.LS(v["func"], v["x0"], jacfun=v["jacfun"], method=v["method"], loss=v["loss"], tol=v["tol"], maxit=v["maxit"])


def _seq_values(S, fam, o, var):
    return {f: _seq_value(S, fam, f, o, var) for f in _SEQ_OPERANDS[fam]}


def _seq_ctx(events, i):
    """what happened to the object before the solve at position i: first (nothing), presetX (reassigned before the first solve),
    setX (reassigned since the last solve), repeat (solved before, nothing reassigned since)"""
    solves = [j for j in range(i) if events[j]["act"] == "solve"]
    since = [e["field"] for e in events[(solves[-1] + 1 if solves else 0):i] if e["act"] == "set"]
    if not solves:
        return "first" if not since else "preset" + "+".join(since)
    return "repeat" if not since else "set" + "+".join(since)


def _seq_variants(fam, idx):
    if fam in ("cgls", "pcgls"):
        return [{"form": "matrix"}, {"form": "function"}]
    if fam == "fista":
        return [{"form": "matrix", "prox": idx % 3}, {"form": "function", "prox": (idx + 1) % 3}]
    return [{}]


def _seq_tag(fam, o, var):
    """the part of a signature that identifies the call site: operator form and the discrete operands"""
    if fam in ("cgls", "pcgls"):
        return "form=%s/shift=%d/m=%d" % (var["form"], o["shift"], len(o["A"]))
    if fam == "fista":
        return "form=%s/adaptive=%d/prox=%s" % (var["form"], 1 if o["adaptive"] else 0, o["proximal"]["h"])
    if fam == "lm":
        return "fam=%s" % o["A"]["fam"]
    if fam == "LS":
        return "method=%s/grad=%d/loss=%s" % (o["method"], 1 if o["jacfun"] else 0, o["loss"])
    tag = "grad=%d/kwargs=%s" % (1 if o["gradfunc"] else 0, o["kwargs"]["name"])
    return tag if fam == "L_BFGS_B" else "method=%s/%s" % (o["method"], tag)


def _seq_solve(fam, solver):
    with warnings.catch_warnings():
        warnings.simplefilter("ignore")
        with np.errstate(all="ignore"), contextlib.redirect_stdout(io.StringIO()):
            try:
                return solver.solve(), None
            except Exception as e:
                return None, e


def _seq_tol(fam, o, ev):
    """comparison tolerance for the end point, derived from the stopping rule of the solver (never tighter)"""
    if fam in ("cgls", "pcgls"):
        return CG_CMP, True                                   # relative to max(1, |x|_inf), as for kind cg
    if fam == "fista":
        A = np.array(o["A"], dtype=float)
        mu = float(np.linalg.eigvalsh(A.T @ A)[0])
        return 10 * SEQ_ABSTOL / (_q(o["stepsize"]) * mu) + 1e-12, False
    ng0 = float(np.linalg.norm(_qv(ev["g0"])))
    return 1e-9 + 100 * 1e-8 * ng0, False


def _seq_near(x, pts, tol, rel):
    x = np.asarray(x, dtype=float)
    if x.shape != np.shape(pts[0]) or not np.all(np.isfinite(x)):
        return False
    if rel:
        return any(_close(x, p, tol) for p in pts)
    return min(float(np.linalg.norm(x - p)) for p in pts) <= tol


def check_seq(ctx, S, c, idx=0):
    fam, events = c["fam"], c["events"]
    iterative = fam in ("cgls", "pcgls", "fista", "lm")
    sense = c["sense"]
    for var in _seq_variants(fam, idx):
        if _over_budget(ctx, "seq/%s/" % fam, 40):
            return
        held = _seq_values(S, fam, c["ops"], var)            # the very objects the solver is given
        try:
            solver = _seq_new(S, fam, held)
        except Exception as e:
            ctx.mismatch("seq/%s/construct/%s/raises" % (fam, _seq_tag(fam, c["ops"], var)), c, "constructor raised %r" % (e,))
            continue
        last = None                                            # (operands, result) of the previous solve
        for i, ev in enumerate(events):
            o = ev["ops"]
            if ev["act"] == "set":
                f = ev["field"]
                val = _seq_value(S, fam, f, o, var)
                try:
                    setattr(solver, f, val)
                except Exception as e:
                    # a refused assignment is acceptable: nothing further is asserted about this object
                    ctx.observations.setdefault("seq_refused_assignments", {})["%s.%s" % (fam, f)] = repr(e)
                    break
                held[f] = val
                if fam == "lm" and f == "A":
                    held["jacfun"] = _seq_value(S, fam, "jacfun", o, var)      # unchanged for the lin family (same B)
                continue
            where = _seq_ctx(events, i)
            base = "seq/%s/%s/%s" % (fam, where, _seq_tag(fam, o, var))
            ctx.case(("seq", fam, sorted(var.items()), c["ops"], [(e["act"], e["field"], e["ops"]) for e in events[:i + 1]]),
                     nontrivial=where != "first", facet="seq/%s/%s" % (fam, where.split("+")[0]))
            before = {k: _fp(v) for k, v in held.items()}
            got, err = _seq_solve(fam, solver)
            after = {k: _fp(v) for k, v in held.items()}
            # a freshly constructed object on copies of the current operands
            fresh, ferr = None, None
            if iterative:
                fresh_vals = _seq_values(S, fam, o, var)
                fresh, ferr = _call(lambda: _seq_new(S, fam, fresh_vals).solve())
            for k in sorted(before):
                if before[k] != after[k]:
                    ctx.mismatch(base + "/mutates/" + k, c, "solve() changed the operand %r it was given (deep fingerprint of the "
                                 "user's object before / after the call differs)" % k, observed=held[k] if not callable(held[k]) else None)
            if iterative:
                if err is not None:
                    if ferr is None:
                        ctx.mismatch(base + "/raises", c, "solve() raised %r after this sequence of operations; a new object with the same "
                                     "operands returns" % (err,), expected=fresh[0], observed=repr(err))
                    last = None
                    continue
                x = np.asarray(got[0], dtype=float)
                tol, rel = _seq_tol(fam, o, ev)
                exp = [_qv(p) for p in ev["exp"]]
                if fam in ("cgls", "pcgls", "fista") and int(got[1]) > int(o["maxit"]):
                    ctx.mismatch(base + "/itercount", c, "more iterations than the maxit the object holds", "<= %d" % o["maxit"], int(got[1]))
                if exp and not _seq_near(x, exp, tol, rel):
                    ctx.mismatch(base + "/solution", c, "the point returned after this sequence of operations is not the solution for the "
                                 "operands the object holds NOW (spec: SeqExpected depends on the current operands only)",
                                 expected=exp, observed=x, detail={"tol": tol, "events": [(e["act"], e["field"]) for e in events[:i + 1]]})
                elif ferr is None and exp and not _seq_near(x, [np.asarray(fresh[0], dtype=float)], 2 * tol, rel):
                    ctx.mismatch(base + "/fresh", c, "a freshly constructed solver with the same operands returns another point",
                                 expected=fresh[0], observed=x)
                if last is not None and last[0] == o and exp:
                    if not _seq_near(x, [last[1]], 2 * tol, rel):
                        ctx.mismatch(base + "/repeat", c, "solve() on the unchanged object returns another point than the call before",
                                     expected=last[1], observed=x)
                    elif not np.array_equal(x, last[1]):
                        ctx.observations["seq_repeat_not_bitwise"] = ctx.observations.get("seq_repeat_not_bitwise", 0) + 1
                last = (o, x)
            else:
                # SciPy wrappers: the reference is SciPy called directly with the operands the object holds now
                ob = _objective(o["func"], sense)
                grad = bool(o["jacfun"] if fam == "LS" else o["gradfunc"])
                kw = (lambda: {k: _seq_value(S, fam, k, o, var) for k in ("loss", "tol", "maxit")}) if fam == "LS" else \
                     (lambda: _kwargs(o["kwargs"]["kw"]))
                ref, e2 = _call(lambda: _wrap_reference(fam, ob, -1 if fam == "maximize" else 1, np.array(o["x0"], dtype=float), grad,
                                                        o.get("method", "default"), kw()))
                _wrap_compare(ctx, c, base, fam, got, err, ref, e2, ob["c"], sense)
                if err is None and last is not None and last[0] == o and not _same(np.asarray(got[0]), np.asarray(last[1])):
                    ctx.mismatch(base + "/repeat", c, "solve() on the unchanged object returns another point than the call before",
                                 expected=last[1], observed=got[0])
                last = (o, np.asarray(got[0]).copy()) if err is None else None


# ----------------------------------------------------------------------------------------------------------
# ill-conditioned least-squares problems (kind "cgill"): more than n iterations are needed in floating point
def _ill_reference(A, b, x0, Pinv, shift, tol, maxit):
    """The spec's machine (Start / Iterate of kind cg, with the stopping rule |s_k| <= tol |s_0| of the documented
    interface) executed in floating point.  Returns (x, k).  Used only to DEMONSTRATE that an instance needs more than n
    iterations (vacuity guard) - never as the expected value, which is the spec's exact xsol."""
    x = x0.copy()
    r = b - A @ x
    s = Pinv.T @ (A.T @ r - shift * x)
    p = s.copy()
    g0 = gam = float(s @ s)
    k = 0
    while k < maxit and gam > 0 and np.sqrt(gam) > tol * np.sqrt(g0):
        k += 1
        t = Pinv @ p
        q = A @ t
        alpha = gam / float(q @ q + shift * (t @ t))
        x = x + alpha * t
        r = r - alpha * q
        s = Pinv.T @ (A.T @ r - shift * x)
        gam1, gam = gam, float(s @ s)
        p = s + (gam / gam1) * p
    return x, k


def check_cgill(ctx, S, c):
    """c: TLC case of kind cgill - exact dyadic data (A, b, shift), the exact solution xsol of the shifted normal equations,
    tol = 10^-tolexp and a maxit far above n.  The solver's contract is its stopping rule, not the finite termination of
    exact arithmetic: the returned point must be xsol within what the stopping rule guarantees."""
    import scipy.sparse as spa
    n, m, solver = c["n"], c["m"], c["solver"]
    A = np.array([[_q(v) for v in row] for row in c["A"]], dtype=float)
    b, xsol = _qv(c["b"]), _qv(c["xsol"])
    x0 = np.array(c["x0"], dtype=float)
    shift = _q(c["shift"])
    tol, maxit = 10.0 ** (-int(c["tolexp"])), int(c["maxit"])
    P = np.array(c["P"], dtype=float) if solver == "pcgls" else np.eye(n)
    Pinv = np.linalg.inv(P)
    # |s_k| <= tol |s_0| with s = P^-T (A^T r - shift x) = -P^-T M (x - xsol), M = A^T A + shift I
    #   =>  |x - xsol| <= tol |s_0| / lambda_min(P^-T M P^-1) * |P^-1|
    M = A.T @ A + shift * np.eye(n)
    lam = float(np.linalg.eigvalsh(Pinv.T @ M @ Pinv)[0])
    s0 = float(np.linalg.norm(Pinv.T @ (A.T @ (b - A @ x0) - shift * x0)))
    cmp_tol = 10 * tol * s0 / lam * float(np.linalg.norm(Pinv, 2)) + 1e-9
    xr, kr = _ill_reference(A, b, x0, Pinv, shift, tol, maxit)
    xn, _ = _ill_reference(A, b, x0, Pinv, shift, tol, n)
    more = kr > n and float(np.abs(xn - xsol).max()) > 100 * cmp_tol and float(np.abs(xr - xsol).max()) <= cmp_tol
    ob = ctx.observations.setdefault("cgill_reference", {"instances": 0, "need_more_than_n_iterations": 0, "max_iterations": 0})
    ob["instances"] += 1
    ob["need_more_than_n_iterations"] += 1 if more else 0
    ob["max_iterations"] = max(ob["max_iterations"], kr)
    shtag = "0" if c["shexp"] == 0 else "2^-%d" % c["shexp"]
    base = "cgill/%s/%%s/shift=%s/form=%%s/m=%d/n=%d/k=%d" % (solver, shtag, m, n, c["k"])
    res = {}
    for form in ("matrix", "function"):
        if _over_budget(ctx, "cgill/"):
            return
        ctx.case(("cgill", solver, c["k"], c["pat"], c["tall"], c["shexp"], c["x0"], c["P"], form), nontrivial=True,
                 facet="cgill/%s/%s" % (solver, form))
        calls = []

        def Aop(v, flag):
            calls.append(flag)
            if flag == 1:
                return A @ v
            if flag == 2:
                return A.T @ v
            raise ValueError("operator called with flag %r" % (flag,))
        op = A.copy() if form == "matrix" else Aop
        try:
            with warnings.catch_warnings():
                warnings.simplefilter("ignore")
                with np.errstate(all="ignore"):
                    if solver == "cgls":
                        x, k = S.CGLS(op, b.copy(), x0.copy(), maxit, tol, shift).solve()
                    else:
                        x, k = S.PCGLS(op, b.copy(), x0.copy(), spa.csc_matrix(P), maxit, tol, shift).solve()
        except Exception as e:
            ctx.mismatch(base % ("raises", form), c, "solver raised %r" % (e,), expected=xsol, observed=repr(e))
            continue
        x = np.asarray(x, dtype=float)
        res[form] = x
        err = float(np.abs(x - xsol).max()) if x.shape == xsol.shape and np.all(np.isfinite(x)) else float("inf")
        if err > cmp_tol:
            ctx.mismatch(base % ("solution", form), c,
                         "maxit = %d and tol = %g were given, the solver returned after %d iteration(s), and the point is not the "
                         "solution of the (shifted) normal equations within what |s_k| <= tol |s_0| guarantees (the columns of A are "
                         "nearly collinear: in floating point more than n = %d iterations are needed; the spec's recurrence run in "
                         "floating point takes %d)" % (maxit, tol, int(k), n, kr),
                         expected=xsol, observed=x, detail={"tol": cmp_tol, "error": err, "iterations": int(k),
                                                            "reference_iterations": kr, "lambda_min": lam})
        if int(k) > maxit:
            ctx.mismatch(base % ("itercount", form), c, "more iterations than maxit", "<= %d" % maxit, int(k))
    if len(res) == 2 and not _close(res["matrix"], res["function"], 1e-6):
        ctx.mismatch(base % ("forms", "both"), c, "matrix form and function form return different points",
                     expected=res["matrix"], observed=res["function"])


# ----------------------------------------------------------------------------------------------------------
# one process, a list of different problems (kind "proc")
def _objective_n(fn, sense):
    """objectives of any dimension of the spec (NObjF / NObjGrad): quad and the Rosenbrock-type chain polynomial"""
    a = np.array(fn["a"], dtype=float)
    cc = np.array(fn["c"], dtype=float)
    if fn["obj"] == "quad":
        return _objective(fn, sense)
    if fn["obj"] != "chain":
        from cuqiverif.core import MachineryError
        raise MachineryError("unknown objective %r" % (fn.get("obj"),))
    a1 = float(a[0])
    sq = np.sqrt(a1)

    def r(x):
        x = np.asarray(x, dtype=float)
        return np.concatenate([x[:-1] - 1.0, sq * (x[1:] - x[:-1] ** 2)])

    def J(x):
        x = np.asarray(x, dtype=float)
        n = len(x)
        Jm = np.zeros((2 * (n - 1), n))
        for i in range(n - 1):
            Jm[i, i] = 1.0
            Jm[n - 1 + i, i] = -2 * sq * x[i]
            Jm[n - 1 + i, i + 1] = sq
        return Jm

    def f(x):
        x = np.asarray(x, dtype=float)
        return sense * 0.5 * float(np.sum((x[:-1] - 1.0) ** 2) + a1 * np.sum((x[1:] - x[:-1] ** 2) ** 2))

    def g(x):
        x = np.asarray(x, dtype=float)
        gr = np.zeros_like(x)
        gr[:-1] += (x[:-1] - 1.0) - 2 * a1 * (x[1:] - x[:-1] ** 2) * x[:-1]
        gr[1:] += a1 * (x[1:] - x[:-1] ** 2)
        return sense * gr
    return {"f": f, "g": g, "r": r, "J": J, "c": cc}


_DROP = object()


def _plain(v):
    """picklable copy of a solver result (SciPy's OptimizeResult -> dict of plain values; opaque objects are dropped)"""
    if isinstance(v, np.ndarray):
        return np.array(v)                                          # also CUQIarray -> ndarray
    if isinstance(v, dict):
        out = {}
        for k, t in v.items():
            t = _plain(t)
            if t is not _DROP:
                out[k] = t
        return out
    if isinstance(v, (list, tuple)):
        t = [_plain(i) for i in v]
        if any(i is _DROP for i in t):
            return _DROP
        return tuple(t) if isinstance(v, tuple) else t
    if isinstance(v, (bool, int, float, str, bytes, type(None), np.generic)):
        return v
    return _DROP


def _proc_run_list(S, calls):
    """Run the calls of one list one after the other IN THIS PROCESS: for every call a NEW wrapper object is built and solved, and
    SciPy is called directly with the same arguments (documented defaults where the call gives none).  Returns one record per call."""
    out = []
    for c in calls:
        x0 = np.array(c["x0"], dtype=float)
        ob = _objective_n(c, c["sense"])
        grad = bool(c["grad"])
        got, e1 = _call(lambda: _wrap_new(S, c["wrapper"], ob, x0.copy(), grad, c["method"], _kwargs(c["kw"])).solve())
        ref, e2 = _call(lambda: _wrap_reference(c["wrapper"], ob, c["sign"], x0.copy(), grad, c["method"], _kwargs(c["kw"])))
        out.append({"got": _plain(got) if got is not None else None, "e1": None if e1 is None else (type(e1).__name__, repr(e1)),
                    "ref": _plain(ref) if ref is not None else None, "e2": None if e2 is None else (type(e2).__name__, repr(e2))})
    return out


def _proc_child(path_in, path_out):
    """entry point of the fresh process of one list (python -m cuqiverif.props.c16 <in> <out>)"""
    import pickle
    S = _solver_mod()
    calls = json.load(open(path_in))
    pickle.dump(_proc_run_list(S, calls), open(path_out, "wb"))


def _proc_spawn(workdir, idx, calls):
    import os, subprocess, sys
    repo = os.environ.get("CUQIVERIF_REPO", "/repo")
    here = os.path.dirname(os.path.dirname(os.path.dirname(os.path.abspath(__file__))))      # .../harness
    pin, pout = os.path.join(workdir, "proc-%d.in.json" % idx), os.path.join(workdir, "proc-%d.out.pkl" % idx)
    json.dump(calls, open(pin, "w"))
    env = dict(os.environ, PYTHONPATH=here + os.pathsep + repo, OMP_NUM_THREADS="1", TQDM_DISABLE="1")
    p = subprocess.run([sys.executable, "-m", "cuqiverif.props.c16", pin, pout], env=env, stdout=subprocess.PIPE,
                       stderr=subprocess.STDOUT, text=True, timeout=900)
    return p, pout


def _exc(t):
    return None if t is None else type(str(t[0]), (Exception,), {})(t[1])


def _proc_compare(ctx, c, where, calls, recs):
    """one list: every call against SciPy called directly in the same process, and against the spec's optimum"""
    order = ">".join(k["name"] for k in calls)
    for i, (k, r) in enumerate(zip(calls, recs)):
        w = k["wrapper"]
        sig = "proc/%s/%s/%s/pos=%d/after=%s" % (where, w, k["name"], i, "+".join(t["name"] for t in calls[:i]) or "nothing")
        ctx.case(("proc", where, order, i), nontrivial=i > 0, facet="proc/%s/%s" % (where, "first" if i == 0 else "later"))
        ref = r["ref"]
        if ref is not None and w == "L_BFGS_B":
            ref = tuple(ref)
        _wrap_compare(ctx, dict(k, kind="proc", calls=calls), sig, w, r["got"], _exc(r["e1"]), ref, _exc(r["e2"]),
                      np.array(k["c"], dtype=float), k["sense"])
        if ref is not None:
            nit = int(ref[2]["nit"]) if w == "L_BFGS_B" else ref.get("nit")
            if nit is not None:
                ctx.observations.setdefault("proc_reference_iterations", {})[k["name"]] = int(nit)


def check_proc(ctx, S, cases, workdir, guard=True):
    """cases: the behaviours of kind proc (one per order of a list).  Each one is run in a FRESH python process (state of the
    module / of default arguments is as after import), all of them in parallel; finally every list is run once more in THIS
    process, which has already solved thousands of problems."""
    import concurrent.futures, os, pickle
    from cuqiverif.core import MachineryError
    if not cases:
        return
    os.makedirs(workdir, exist_ok=True)
    with concurrent.futures.ThreadPoolExecutor(max_workers=8) as pool:
        futs = [pool.submit(_proc_spawn, workdir, i, c["calls"]) for i, c in enumerate(cases)]
        done = [f.result() for f in futs]
    for c, (p, pout) in zip(cases, done):
        if p.returncode != 0 or not os.path.exists(pout):
            raise MachineryError("the process of the list %s ended with code %s:\n%s" %
                                 (">".join(k["name"] for k in c["calls"]), p.returncode, "\n".join(p.stdout.splitlines()[-12:])))
        recs = pickle.load(open(pout, "rb"))
        _proc_compare(ctx, c, "fresh", c["calls"], recs)
    for c in cases:
        if _over_budget(ctx, "proc/", 60):
            break
        _proc_compare(ctx, c, "inproc", c["calls"], _proc_run_list(S, c["calls"]))
    # vacuity: some list must contain a call whose SciPy run needs more iterations than the documented default limit of
    # another (smaller) call of the same list - otherwise a limit left behind by the smaller problem could not show
    nits = ctx.observations.get("proc_reference_iterations", {})
    sens = sorted(set((a["name"], b["name"]) for c in cases for a in c["calls"] for b in c["calls"]
                      if a["name"] != b["name"] and b["doclimit"] and nits.get(a["name"], 0) > b["doclimit"]))
    ctx.observe("proc_limit_sensitive_pairs", ["%s needs %d iterations > documented limit %d of %s" %
                                               (a, nits[a], [k["doclimit"] for c in cases for k in c["calls"] if k["name"] == b][0], b)
                                               for a, b in sens])
    if guard and not ctx.violations and len(sens) < 3:
        raise MachineryError("kind proc: only %d (large, small) pairs where the large problem needs more iterations than the "
                             "documented limit of the small one: the facet would be vacuous" % len(sens))


# ----------------------------------------------------------------------------------------------------------
# kind "lay": the LAYOUT dimension of FISTA / ISTA, LM, the SciPy wrappers and the projections (CGLS / PCGLS: check_cg)
def _lay_mut(ctx, sig, c, changed):
    for a in changed:
        ctx.mismatch(sig + "/mutates/" + a, c, "the call changed the argument %r it was given (shape / strides / dtype / flags / bytes "
                     "before and after the call differ)" % a)


def check_lay_fista(ctx, S, c, idx):
    """c: a proximal-gradient problem constructed from its KKT system (as kind kkt) with a start vector and the layouts of A, b, x0.
    The expected point c["exp"] = {x*} does not depend on the layouts; same tolerance as kind kkt."""
    lay, islay = _lay_of(c)
    n = c["n"]
    Af = np.array(c["A"], dtype=float)
    bvals, x0vals = [_q(q) for q in c["b"]], [_q(q) for q in c["x0"]]
    exp = [_qv(p) for p in c["exp"]]
    mu = float(np.linalg.eigvalsh(Af.T @ Af)[0])
    t = _q(c["steps"][0])
    runs = [(False, "matrix" if idx % 2 == 0 else "function"), (False, "function" if idx % 2 == 0 else "matrix")]
    if idx % 3 == 0 or lay["x0"] != "f64":
        runs.append((True, "matrix" if idx % 2 == 1 else "function"))
    for adaptive, form in runs:
        if _over_budget(ctx, "lay/fista/"):
            return
        abstol = 1e-8 if adaptive else 1e-10
        prox, pname = _prox_of(S, c, idx % 3)
        args = {"A": _lay_build(c["A"], lay["A"]), "b": _lay_build(bvals, lay["b"]), "x0": _lay_build(x0vals, lay["x0"])}
        ctx.case(("lay", "fista", c["A"], c["h"], c["lam"], c["lo"], c["up"], c["xs"], c["g"], c["x0"], _lay_tag(lay), adaptive, form, pname),
                 nontrivial=islay, facet="lay/fista/%s" % ("fista" if adaptive else "ista"))
        sig = "lay/fista/%s/%s/adaptive=%d/form=%s" % (_lay_tag(lay), c["h"], adaptive, form)
        before = {k: _snap(v) for k, v in args.items()}
        try:
            with warnings.catch_warnings():
                warnings.simplefilter("ignore")
                with np.errstate(all="ignore"):
                    x, k = S.FISTA(_as_operator(args["A"], form), args["b"], args["x0"], prox, maxit=60000 if adaptive else 20000,
                                   stepsize=t, abstol=abstol, adaptive=adaptive).solve()
        except Exception as e:
            if islay:
                _lay_refused(ctx, "fista", lay, form, e)
            else:
                ctx.mismatch(sig + "/raises", c, "FISTA raised %r" % (e,))
            continue
        _lay_returned(ctx, "fista")
        _lay_mut(ctx, sig, c, _changed(before, args))
        tol = 10 * abstol / (t * mu) + 1e-12
        x = np.asarray(x, dtype=float)
        err = min(float(np.linalg.norm(x - p)) for p in exp) if x.shape == exp[0].shape and np.all(np.isfinite(x)) else float("inf")
        if err > tol:
            ctx.mismatch(sig + "/solution", c, "with the arguments stored as %s the returned point is not the fixed point of the "
                         "proximal-gradient map (= the unique minimiser of 1/2|Ax-b|^2 + h) within abstol/(t mu); the spec's end point "
                         "does not depend on the layout of any argument" % _lay_tag(lay), expected=exp[0], observed=x,
                         detail={"iterations": int(k), "tol": tol, "stepsize": t, "prox": pname})


def check_lay_lm(ctx, S, c, idx):
    import scipy.sparse as spa
    lay, islay = _lay_of(c)
    res, jac = _lm_funcs(c)
    stat = [_qv(p) for p in c["exp"]]
    x0vals = [_q(q) for q in c["x0"]]
    ng0 = float(np.linalg.norm(_qv(c["g0"])))
    gradtol = 1e-8
    for sparse in ((False, True) if idx % 3 == 0 else (False,)):
        if _over_budget(ctx, "lay/lm/", 12):
            return
        x0 = _lay_build(x0vals, lay["x0"])
        ctx.case(("lay", "lm", c["fam"], c["B"], c["c"], c["a"], c["d"], c["x0"], lay["x0"], sparse), nontrivial=islay and ng0 > 0,
                 facet="lay/lm/" + c["fam"])
        sig = "lay/lm/x0=%s/%s/sparse=%d" % (lay["x0"], c["fam"], sparse)
        jf = (lambda x: spa.csr_matrix(jac(x))) if sparse else jac
        before = {"x0": _snap(x0)}
        try:
            with warnings.catch_warnings():
                warnings.simplefilter("ignore")
                with np.errstate(all="ignore"):
                    x, info = S.LM(res, x0, jf, maxit=2000, tol=1e-6, gradtol=gradtol, sparse=sparse).solve()
        except Exception as e:
            if islay:
                _lay_refused(ctx, "lm", lay, "sparse=%d" % sparse, e)
            else:
                ctx.mismatch(sig + "/raises", c, "LM raised %r" % (e,))
            continue
        _lay_returned(ctx, "lm")
        _lay_mut(ctx, sig, c, _changed(before, {"x0": x0}))
        x = np.asarray(x, dtype=float)
        tol = 1e-9 + 100 * gradtol * ng0                        # as kind lm
        dist = min(float(np.linalg.norm(x - p)) for p in stat) if x.shape == stat[0].shape and np.all(np.isfinite(x)) else float("inf")
        if dist > tol:
            ctx.mismatch(sig + "/solution", c, "with the start vector stored as %s LM did not return a stationary point of the sum of "
                         "squares (J^T r = 0)" % lay["x0"], expected=[p.tolist() for p in stat], observed=x, detail={"tol": tol})


def check_lay_wrap(ctx, S, c):
    """the wrapper relation for a start vector in the layout of the case: SciPy called directly with an equal object is the reference"""
    lay, islay = _lay_of(c)
    sense, sign = c["sense"], c["sign"]
    w, method, grad = c["wrapper"], c["method"], bool(c["grad"])
    ob = _objective(c, sense)
    x0vals = [float(t) for t in c["x0"]]
    x0 = _lay_build(x0vals, lay["x0"])
    sig = "lay/wrap/x0=%s/%s/method=%s/grad=%d" % (lay["x0"], w, method, 1 if grad else 0)
    ctx.case(("lay", "wrap", w, method, c["obj"], c["a"], c["c"], c["x0"], c["grad"], c["opt"], lay["x0"]), nontrivial=islay,
             facet="lay/wrap/" + w)
    before = {"x0": _snap(x0)}
    got, e1 = _call(lambda: _wrap_new(S, w, ob, x0, grad, method, _kwargs(c["kw"])).solve())
    changed = _changed(before, {"x0": x0})
    ref, e2 = _call(lambda: _wrap_reference(w, ob, sign, _lay_build(x0vals, lay["x0"]), grad, method, _kwargs(c["kw"])))
    _lay_mut(ctx, sig, c, changed)
    if e1 is not None and lay["x0"] == "list":
        _lay_refused(ctx, w, lay, method, e1)                   # x0 is documented as ndarray: a refused list asserts nothing
        return
    if e1 is None:
        _lay_returned(ctx, w)
    _wrap_compare(ctx, c, sig, w, got, e1, ref, e2, ob["c"], sense)


def _prox_bound(form, vec, lb, like):
    """one bound of the box as the spec hands it over: left out, one float, or a vector in the layout lb (in the shape of the point)"""
    if form == "none":
        return None
    if form == "scalar":
        return float(vec[0])
    v = _lay_build([float(t) for t in vec], lb)
    if like in ("col", "row"):
        v = _lay_build([float(t) for t in vec], like)
    return v


def check_lay_prox(ctx, S, c):
    """the shipped projections / soft-thresholding on a point (and bounds) in the layouts of the case; their arguments are documented as
    array_like: exact equality with the spec's image, in the shape of the input; the inputs stay what they were"""
    lay, islay = _lay_of(c)
    lx, lb = lay["x0"], lay["b"]
    op = c["op"]
    xv, out = [_q(q) for q in c["x"]], _qv(c["out"])
    lo, up = _qev(c["lo"]), _qev(c["up"])
    gam = _q(c["gam"])
    name = {"nonneg": "ProjectNonnegative", "box": "ProjectBox", "l1": "ProximalL1"}[op]
    sig = "lay/prox/%s/%s/x=%s/bounds=%s" % (name, c["box"], lx, lb)

    def call(X, L, U):
        if op == "nonneg":
            return S.ProjectNonnegative(X)
        if op == "l1":
            return S.ProximalL1(X, gam)
        kw = {}
        if L is not None:
            kw["lower"] = L
        if U is not None:
            kw["upper"] = U
        return S.ProjectBox(X, **kw)

    if lx == "scalar":
        # 0-d: every component on its own (the maps act componentwise), as python float and as 0-d array
        todo = []
        for i in range(len(xv)):
            for kind0, X in (("float", float(xv[i])), ("0d", np.array(xv[i]))):
                L = None if c["form"][0] == "none" else float(lo[0] if c["form"][0] == "scalar" else lo[i])
                U = None if c["form"][1] == "none" else float(up[0] if c["form"][1] == "scalar" else up[i])
                todo.append(("%d.%s" % (i, kind0), X, L, U, np.array(out[i]), ()))
    else:
        X = _lay_build(xv, lx)
        shape = np.shape(X)
        todo = [("", X, _prox_bound(c["form"][0], lo, lb, lx), _prox_bound(c["form"][1], up, lb, lx), out.reshape(shape), shape)]
    for tag, X, L, U, want, shape in todo:
        ctx.case(("lay", "prox", op, c["x"], c["gam"], c["box"], lx, lb, tag), nontrivial=islay, facet="lay/prox/" + op)
        args = {"x": X, "lower": L, "upper": U}
        before = {k: _snap(v) for k, v in args.items()}
        try:
            with warnings.catch_warnings():
                warnings.simplefilter("ignore")
                with np.errstate(all="ignore"):
                    v = np.asarray(call(X, L, U), dtype=float)
        except Exception as e:
            ctx.mismatch(sig + "/raises", c, "%s raised %r on an admissible input (array_like point stored as %s, bounds as %s)"
                         % (name, e, lx, lb), expected=want, observed=repr(e))
            continue
        _lay_mut(ctx, sig, c, _changed(before, args))
        if v.shape != want.shape or not np.array_equal(v, want):
            ctx.mismatch(sig, c, "%s is not the exact Euclidean projection / proximal map of the point stored as %s (bounds as %s)"
                         % (name, lx, lb), expected=want, observed=v)


def check_lay(ctx, S, c, idx):
    sv = c["solver"]
    if sv == "fista":
        check_lay_fista(ctx, S, c, idx)
    elif sv == "lm":
        check_lay_lm(ctx, S, c, idx)
    elif sv == "wrap":
        check_lay_wrap(ctx, S, c)
    elif sv == "prox":
        check_lay_prox(ctx, S, c)
    else:
        from cuqiverif.core import MachineryError
        raise MachineryError("kind lay: unknown solver %r" % (sv,))


# ----------------------------------------------------------------------------------------------------------
def _dispatch(ctx, S, cases, thorough):
    sib = {}
    for c in cases:
        if c["kind"] == "cg" and c["shift"] == 0:
            sib[_cg_key(c)] = c
    counts = {}
    kidx = sidx = 0
    lidx = {}
    for c in cases:
        k = c["kind"]
        counts[k] = counts.get(k, 0) + 1
        if k == "cg":
            check_cg(ctx, S, c, sib.get(_cg_key(c)))
        elif k == "cgill":
            check_cgill(ctx, S, c)
        elif k == "prox":
            check_prox(ctx, S, c)
        elif k == "kkt":
            check_kkt(ctx, S, c, kidx, thorough)
            kidx += 1
        elif k == "lm":
            check_lm(ctx, S, c)
        elif k == "wrap":
            check_wrap(ctx, S, c)
        elif k == "seq":
            check_seq(ctx, S, c, sidx)
            sidx += 1
        elif k == "lay":
            check_lay(ctx, S, c, lidx.get(c["solver"], 0))
            lidx[c["solver"]] = lidx.get(c["solver"], 0) + 1
    return counts


def _vacuity(ctx, cases):
    """the sequence facets and the non-default keyword arguments must really have been exercised"""
    from cuqiverif.core import MachineryError
    need = {"cgls": ("A", "b", "x0", "shift", "maxit", "tol"), "fista": ("A", "b", "x0", "proximal", "stepsize", "adaptive", "maxit"),
            "lm": ("A", "x0", "maxit"), "L_BFGS_B": ("func", "x0", "gradfunc", "kwargs"),
            "minimize": ("func", "x0", "gradfunc", "method", "kwargs"), "maximize": ("x0", "method", "kwargs"),
            "LS": ("func", "x0", "jacfun", "method", "loss", "tol", "maxit"), "pcgls": ()}
    seen = {}
    for c in cases:
        if c["kind"] != "seq":
            continue
        ev = c["events"]
        seen.setdefault(c["fam"], set())
        for i, e in enumerate(ev):
            # a reassignment BETWEEN two solves whose later solve has a specified end point
            if e["act"] == "set" and any(x["act"] == "solve" for x in ev[:i]) and any(x["act"] == "solve" and x["exp"] for x in ev[i + 1:]):
                seen[c["fam"]].add(e["field"])
    for fam, fields in need.items():
        if fam not in seen or not set(fields) <= seen[fam]:
            raise MachineryError("Solvers emitted no solve-reassign-solve behaviour with a specified end point for %s.%s" %
                                 (fam, sorted(set(fields) - seen.get(fam, set()))))
    for fam in need:
        if ctx.facets.get("seq/%s/repeat" % fam, 0) == 0:
            raise MachineryError("no repeated solve() replayed for %s" % fam)
    opts = {}
    for c in cases:
        if c["kind"] == "wrap":
            opts.setdefault(c["wrapper"], set()).add(c["opt"])
    for w, n in (("L_BFGS_B", 10), ("minimize", 4), ("maximize", 4), ("LS", 6)):
        if len(opts.get(w, ())) < n:
            raise MachineryError("wrapper %s compared with only %d keyword-argument sets" % (w, len(opts.get(w, ()))))
    if not ctx.violations and ctx.observations.get("wrap_reference_at_optimum", 0) < 200:
        raise MachineryError("SciPy itself reached the spec's optimum in only %d wrapper cases: the optimum facet would be vacuous" %
                             ctx.observations.get("wrap_reference_at_optimum", 0))
    ctx.observe("seq_reassigned_operands", {k: sorted(v) for k, v in seen.items()})


def _vacuity_layouts(ctx, cases):
    """every layout of every argument must have been emitted for every solver, and the integer / single-precision START VECTORS of the
    proximal-gradient solver and of LM (the solvers that accept them) must have produced points that were compared"""
    from cuqiverif.core import MachineryError
    seen = {}
    for c in cases:
        lay = c.get("lay")
        if not lay or c["kind"] not in ("cg", "lay"):
            continue
        sv = c["solver"] if c["kind"] == "cg" or c["solver"] != "wrap" else c["wrapper"]
        for a in ("A", "b", "x0"):
            seen.setdefault((sv, a), set()).add(lay[a])
    vec = {"f64", "int", "f32", "view", "rev", "ro", "list"}
    need = {(sv, a): (vec | {"fortran"} if a == "A" else vec) for sv in ("cgls", "pcgls", "fista") for a in ("A", "b", "x0")}
    need.update({(sv, "x0"): vec for sv in ("lm", "minimize", "maximize", "LS", "L_BFGS_B")})
    need[("prox", "x0")] = vec | {"col", "row", "scalar"}
    need[("prox", "b")] = {"f64", "int", "f32", "ro", "list", "view"}
    for k, want in need.items():
        if not want <= seen.get(k, set()):
            raise MachineryError("Solvers emitted no case with the argument %s of %s stored as %s" % (k[1], k[0], sorted(want - seen.get(k, set()))))
    ctx.observe("layouts_emitted", {"%s.%s" % k: sorted(v) for k, v in sorted(seen.items())})
    fista_int = [c for c in cases if c["kind"] == "lay" and c["solver"] == "fista" and c["lay"]["x0"] == "int"
                 and any(q[1] != 1 for q in c["xs"])]
    if not fista_int:
        raise MachineryError("no proximal-gradient problem with an integer start vector and a NON-integer minimiser was emitted: a "
                             "truncating iterate buffer could not show")
    if not ctx.violations:
        ret = ctx.observations.get("layout_returned", {})
        for sv in ("fista", "lm", "cgls", "pcgls", "minimize", "maximize", "LS", "L_BFGS_B"):
            if ret.get(sv, 0) == 0:
                raise MachineryError("no layout case of %s returned a point: the layout facet would be vacuous" % sv)


def _sort_key(c):
    return json.dumps(c, sort_keys=True)


def run(ctx):
    from cuqiverif.core import MachineryError
    from cuqiverif import tlc as _tlc
    import concurrent.futures, os
    S = _solver_mod()
    devs = (("PcglsIgnoresShift", "NormalEquations"), ("MaximizeDropsSign", "WrapRelation"),
            ("StaleCachedOperand", "SeqCurrentOperands"), ("DefaultsLeakBetweenCalls", "CallsIndependent"),
            ("IterateKeepsStartDtype", "LayoutIndependent"))
    wd = lambda label: os.path.join(_tlc.WORK, "Solvers-c16-%s-%d" % (label, os.getpid()))
    # the (small) deviation runs are started together with the main run: three JVM starts in sequence cost minutes on a loaded machine
    # SolverScale.tla (scale dimension of every solver problem, both sides of cuqi.config.MAX_DIM_INV): its own small TLC runs
    sdevs = (("AbsoluteStop", "ScalingLaw"), ("TransposeReusesFactor", "NormalResidualInv"))
    pool = concurrent.futures.ThreadPoolExecutor(max_workers=len(devs) + len(sdevs) + 1)
    fut = {dev: pool.submit(ctx.tlc, "Solvers", cfg="Solvers.dev_%s.cfg" % dev, workers=2, timeout=2400, expect_violation=True,
                            workdir=wd(dev)) for dev, _ in devs}
    sfut = {dev: pool.submit(ctx.tlc, "SolverScale", cfg="SolverScale.dev_%s.cfg" % dev, workers=1, timeout=2400, expect_violation=True,
                             workdir=wd("scale-" + dev)) for dev, _ in sdevs}
    sfut["main"] = pool.submit(ctx.tlc, "SolverScale", cfg="SolverScale.%s.cfg" % ctx.tier, workers=2, timeout=2400, workdir=wd("scale-main"))
    slabels = ["scale-main"] + ["scale-" + d for d, _ in sdevs]
    try:
        res = ctx.tlc("Solvers", cfg="Solvers.%s.cfg" % ctx.tier, workers=16, timeout=3600, workdir=wd("main"),
                      require_actions=["Start", "Iterate", "Solve", "SetOp", "Call"] if ctx.tier == "thorough" else None)
    except BaseException:
        concurrent.futures.wait(list(fut.values()) + list(sfut.values()))
        for label in ["main"] + [d for d, _ in devs] + slabels:             # nothing of a failed run stays under .work
            _tlc.cleanup(wd(label))
        raise
    finally:
        concurrent.futures.wait(list(fut.values()) + list(sfut.values()))   # no JVM of this run is left behind when the main run fails
        pool.shutdown()
    try:
        ctx.model_must_hold(res, "Solvers")
        cases = sorted(res.cases, key=_sort_key)
        kinds = set(c["kind"] for c in cases)
        if kinds != {"cg", "cgill", "prox", "kkt", "lm", "wrap", "seq", "proc", "lay"}:
            raise MachineryError("Solvers emitted kinds %r" % sorted(kinds))
        # named deviations: the invariants that decide the property must fail when the deviation is switched on
        for dev, inv in devs:
            r2 = fut[dev].result()
            if r2.ok or r2.violated != inv:
                raise MachineryError("deviation %s does not violate %s on the model (violated=%r): vacuous invariant" % (dev, inv, r2.violated))
        sres = sfut["main"].result()
        ctx.model_must_hold(sres, "SolverScale")
        scale_cases = sorted(sres.cases, key=_sort_key)
        if set(c["kind"] for c in scale_cases) != {"cgscale", "postscale"}:
            raise MachineryError("SolverScale emitted kinds %r" % sorted(set(c["kind"] for c in scale_cases)))
        for dev, inv in sdevs:
            r2 = sfut[dev].result()
            if r2.ok or r2.violated != inv:
                raise MachineryError("deviation %s does not violate %s on SolverScale (violated=%r): vacuous invariant" % (dev, inv, r2.violated))
            ctx.observations.setdefault("deviations_refuted_by_tlc", {})[dev] = inv
    finally:
        for f in list(fut.values()) + list(sfut.values()):
            try:
                f.result()
            except BaseException:
                pass
        for label in ["main"] + [d for d, _ in devs] + slabels:
            _tlc.cleanup(wd(label))
    counts = _dispatch(ctx, S, cases, ctx.tier == "thorough")
    from cuqiverif import c16_scale
    sc_cg, sc_post = c16_scale.run_scale(ctx, S, scale_cases)
    counts["cgscale"] = sum(1 for c in scale_cases if c["kind"] == "cgscale")
    counts["postscale"] = sum(1 for c in scale_cases if c["kind"] == "postscale")
    if not ctx.violations:
        for kk in ("above/sym", "above/nonsym", "below/sym", "below/nonsym", "tiny"):
            if not sc_cg.get(kk):
                raise MachineryError("SolverScale: no returned point for the facet %s (vacuous)" % kk)
        if not all(sc_post.get(kk) for kk in ("fista", "prox", "lm")):
            raise MachineryError("SolverScale: kind post replayed nothing for one of fista / prox / lm: %r" % (sc_post,))
    ex = [c for c in scale_cases if c["kind"] == "cgscale" and c["solver"] == "pcgls" and c["above"] and not c["psym"]]
    ctx.sample({"case": ex[len(ex) // 2]}, limit=11)
    # lists of different problems, each list in a fresh process (and once more in this one, after everything else)
    procs = [c for c in cases if c["kind"] == "proc"]
    try:
        check_proc(ctx, S, procs, wd("proc"))
    finally:
        _tlc.cleanup(wd("proc"))
    ctx.observe("cases_by_kind", counts)
    _vacuity(ctx, cases)
    ill = ctx.observations.get("cgill_reference", {})
    if not ctx.violations and ill.get("need_more_than_n_iterations", 0) < max(1, ill.get("instances", 0) // 2):
        raise MachineryError("kind cgill: the spec's recurrence run in floating point needs more than n iterations (and n iterations "
                             "leave an error far above the tolerance) for only %d of %d instances: the facet would be vacuous" %
                             (ill.get("need_more_than_n_iterations", 0), ill.get("instances", 0)))
    _vacuity_layouts(ctx, cases)
    ex = [c for c in cases if c["kind"] == "lay" and c["solver"] == "fista" and c["lay"]["x0"] == "int"]
    ctx.sample({"case": ex[len(ex) // 2]}, limit=9)
    for k in ("seq", "proc", "cgill", "cg", "prox", "kkt", "lm", "wrap"):
        ex = [c for c in cases if c["kind"] == k]
        c = ex[len(ex) // 2]
        if k == "seq":
            ex = [c for c in ex if c["fam"] == "fista" and any(e["act"] == "set" and e["field"] == "A" for e in c["events"])]
            c = ex[len(ex) // 2]
        ctx.sample({"case": c if k != "lm" else {kk: c[kk] for kk in ("kind", "fam", "B", "c", "a", "d", "stat")}}, limit=9)
    inf_box = [c for c in cases if c["kind"] == "kkt" and c["h"] == "box" and ("Inf" in c["up"] or "-Inf" in c["lo"])]
    if not inf_box or not any(c["kind"] == "prox" and c["op"] == "box" and ("Inf" in c["up"] or "-Inf" in c["lo"]) for c in cases):
        raise MachineryError("Solvers emitted no box with an infinite bound (prox / kkt): the one-sided facet would be vacuous")
    ctx.sample({"case": inf_box[len(inf_box) // 2]}, limit=10)
    ctx.rule = ("one case per problem emitted by TLC from Solvers.tla (cg: A, b, x0, shift, P with the exact rational vectors of every "
                "operator application and the exact solution; prox: lattice input with exact output, boxes with finite / infinite / "
                "default bounds in every documented way of passing them; kkt: A, b, x*, g, regulariser (incl. one-sided boxes), "
                "steps; lm: family with its stationary points and starts; wrap: wrapper x method x objective x documented keyword "
                "arguments; seq: every behaviour of the spec's Solve / SetOp machine of length SeqLen with at most SeqSets "
                "reassignments of one public operand, one comparison per Solve of the behaviour; cgill: constructed ill-conditioned "
                "problem with its exact solution; proc: every order of a list of calls, one comparison per call and process; lay / cg with a "
                "field lay: problem x layout of A x layout of b x layout of x0 - each argument's layout varied alone, all three the same, a few "
                "mixed triples, thorough: every pair); distinct = problem x "
                "call-site / operator form / solver variant (seq: behaviour prefix x form); trivial (not counted) = cg start that "
                "already solves the normal equations, prox input that is its own image, proximal-gradient run started at the fixed "
                "point, LM start that is stationary, the first Solve of a sequence on an object nothing was reassigned on")
    ctx.exhaustive = ctx.tier == "quick"      # thorough adds a SAMPLE of the size-3 problems (every Dim3Mod-th matrix)
    ctx.traces = counts.get("cg", 0) + counts.get("seq", 0) + counts.get("proc", 0)
    ctx.assumptions += ["numpy.linalg.eigvalsh for the strong-convexity constant in the FISTA tolerance",
                        "SciPy called directly (fmin_l_bfgs_b / minimize / least_squares, the documented targets) is the reference "
                        "for the wrapper relation, for default and non-default keyword arguments",
                        "seq: only plain reassignment of PUBLIC attributes in the form the object was constructed with (matrix stays "
                        "matrix, callable stays callable); PCGLS keeps its operands in private attributes (Solve only); maximize.func / "
                        "gradfunc hold negated callables and are not reassigned",
                        "sizes bounded by the cfg; cg problems with iterates beyond MagBound compared through their exact solution",
                        "cgill: numpy.linalg.eigvalsh for the smallest eigenvalue in the tolerance 10 tol |s0| / lambda_min (what the stopping "
                        "rule |s_k| <= tol |s_0| guarantees); exact iterates are not followed (beyond 32-bit rationals): postcondition form",
                        "layouts: a layout stores the spec's exact numbers (int only for integer data, float32 only for exactly representable "
                        "data); a solver that RAISES for a layout asserts nothing (observation layout_refused); a float32 start vector makes "
                        "CGLS / PCGLS iterate and return in single precision (numpy in-place update): compared at (maxit + 2) eps32, iteration "
                        "count not bounded above; function form: the user's callable multiplies with the laid-out matrix",
                        "proc: every order of a list runs in its own python process (sys.executable -m cuqiverif.props.c16); SciPy called "
                        "directly in the same process with the documented defaults is the reference"]


def replay(ctx, case):
    if case.get("kind") == "model":
        return run(ctx)
    S = _solver_mod()
    if case["kind"] == "proc":
        from cuqiverif import tlc as _tlc
        import os
        wdir = os.path.join(_tlc.WORK, "Solvers-c16-procreplay-%d" % os.getpid())
        try:
            check_proc(ctx, S, [{"kind": "proc", "calls": case["calls"]}], wdir, guard=False)
        finally:
            _tlc.cleanup(wdir)
    elif case["kind"] in ("cgscale", "postscale"):
        from cuqiverif import c16_scale
        if "pair" in case:
            case = dict(case, sc=case["pair"], scales=[])
        if "e" in case and case["kind"] == "postscale":
            case = dict(case, exps=[])
        c16_scale.run_scale(ctx, S, [case])
    elif case["kind"] == "cg":
        sib = None
        if case["solver"] == "pcgls" and case["shift"] != 0:
            # re-emit the shift-0 sibling from TLC to stay spec-driven
            res = ctx.tlc("Solvers", cfg="Solvers.%s.cfg" % ("quick" if case["n"] <= 2 else "thorough"), workers=16, timeout=3600)
            for c in res.cases:
                if c["kind"] == "cg" and c["shift"] == 0 and _cg_key(c) == _cg_key(case):
                    sib = c
        check_cg(ctx, S, case, sib)
    elif case["kind"] == "kkt":
        for idx in range(42):
            check_kkt(ctx, S, case, idx, True)
    elif case["kind"] == "seq":
        for idx in range(3):                                    # every operator form x way of passing the proximal map
            check_seq(ctx, S, case, idx)
    else:
        _dispatch(ctx, S, [case], True)


if __name__ == "__main__":
    import sys
    _proc_child(sys.argv[1], sys.argv[2])
