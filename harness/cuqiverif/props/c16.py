"""C16 - solvers return points that satisfy the optimality conditions of their problem.

Spec: specs/Solvers.tla (+ lib/MatQ.tla).  TLC runs CGLS / PCGLS as a state machine over exact rationals and checks
r = b - Ax, s = P^-T(A^T r - shift x), orthogonality of the residuals, finite termination and the shifted normal
equations at termination; it verifies the KKT / fixed-point identity of the constructed proximal-gradient problems,
the projection / proximal characterisations on a lattice, the stationary points of the Levenberg-Marquardt problems
and the sign relation of the SciPy wrappers.  Every problem is emitted with its exact rational answers; this module
runs the real solvers on them.
"""
META = {
    "claimed": True,
    "engine": "Solvers.tla",
    "text": ("TLC model-checks CGLS/PCGLS as a rational state machine <<x,r,s,p,gamma,k>> (all full-rank A in {-1,0,1}^(m x n), "
             "m,n<=2, shift in {0,1}, integer starts/right-hand sides in a box, unit-triangular preconditioners; a sample of "
             "size-3 problems in the thorough tier): residual invariants, orthogonality, termination within n steps, normal "
             "equations / minimum-norm solution at termination; the KKT fixed-point identity of l1 / non-negativity / box "
             "problems constructed from x*, g, unimodular A (boxes with finite, one-sided = infinite, unbounded and per-component "
             "mixed bounds; the certificate x*, g stays finite); projections and soft-thresholding as exact lattice maps, the box "
             "projection as the componentwise piecewise map x<lower -> lower, x>upper -> upper, else x over extended-real bounds "
             "('Inf'/'-Inf' sentinels) with its laws (finite image, idempotent, identity on the box, nearest point, closed forms, "
             "documented defaults lower 0 / upper 1); "
             "Levenberg-Marquardt problems with known stationary points; the SciPy-wrapper relation.  The harness replays every "
             "emitted problem into cuqi.solver: per-iteration conformance of CGLS/PCGLS through the operator callable (the vectors "
             "A(.,1)/A(.,2) are applied to), final solutions in matrix and function form, iteration counts, FISTA/ISTA and LM end "
             "points against x* (proximal map = ProjectBox / RegularizedGaussian box preset with the spec's possibly infinite "
             "bounds), projections/prox exactly (ProjectBox with bounds omitted / None / float / ndarray / list, positional and "
             "keyword, and the RegularizedGaussian presets), wrappers against SciPy called directly."),
    "note": ("Bounded sizes (n <= 3). Problems whose exact CG iterates exceed TLC's 32-bit integers are followed up to that point "
             "and then compared through their exact solution only (status 'abandoned' in the emitted case). FISTA/LM tolerances are "
             "derived from the solvers' own stopping rules (abstol/(t mu), gradtol |g0|)."),
    "technique": "TLA+ spec (Solvers) model-checked with TLC; TLC-emitted problems and exact rational iterates replayed into cuqi.solver",
}

import contextlib, io, json, warnings
from fractions import Fraction

import numpy as np


# ----------------------------------------------------------------------------------------------------------
def _q(q):
    return float(Fraction(q[0], q[1]))


def _qv(v):
    return np.array([_q(q) for q in v], dtype=float)


def _qe(q):
    """extended real of the spec: a rational <<n, d>> or the sentinel "Inf" / "-Inf" (bound of a one-sided box)"""
    if q == "Inf":
        return float("inf")
    if q == "-Inf":
        return float("-inf")
    return _q(q)


def _qev(v):
    return np.array([_qe(q) for q in v], dtype=float)


def _solver_mod():
    from cuqiverif.core import MachineryError
    try:
        import cuqi.solver._solver as S
    except Exception as e:  # pragma: no cover
        raise MachineryError("cannot import cuqi.solver._solver: %r" % e)
    for name in ("CGLS", "PCGLS", "FISTA", "LM", "L_BFGS_B", "minimize", "maximize", "LS", "ProjectNonnegative",
                 "ProjectBox", "ProximalL1", "fmin_l_bfgs_b"):
        if not hasattr(S, name):
            raise MachineryError("cuqi.solver._solver.%s disappeared" % name)
    return S


def _over_budget(ctx, prefix, limit=25):
    """A broken solver can make every run hit its iteration cap; once `limit` mismatches of a group are recorded the
    remaining cases of that group are skipped (the verdict is already VIOLATION) so that the check terminates."""
    return sum(1 for v in ctx.violations if v["signature"].startswith(prefix)) >= limit


def _close(a, b, tol):
    a, b = np.asarray(a, float), np.asarray(b, float)
    return a.shape == b.shape and bool(np.all(np.isfinite(a))) and bool(np.all(np.abs(a - b) <= tol * max(1.0, np.abs(b).max() if b.size else 1.0)))


# ----------------------------------------------------------------------------------------------------------
# conjugate gradients
CG_TOL = 1e-10        # relative normal-residual tolerance handed to the solver
CG_CMP = 1e-8         # comparison tolerance for iterates / solutions (relative to max(1, |v|_inf))


def _cg_key(c):
    return (c["solver"], json.dumps(c["A"]), json.dumps(c["b"]), json.dumps(c["x0"]), json.dumps(c["P"]))


def _cg_run(S, c, form, shift=None):
    """Run the real solver.  Returns (x, k, calls) ; calls = [(flag, vector)] for the function form."""
    import scipy.sparse as spa
    A = np.array(c["A"], dtype=float).reshape(c["m"], c["n"])
    b = np.array(c["b"], dtype=float)
    x0 = np.array(c["x0"], dtype=float)
    shift = c["shift"] if shift is None else shift
    calls = []

    def Aop(v, flag):
        calls.append((flag, np.array(v, dtype=float).copy()))
        if flag == 1:
            return A @ v
        if flag == 2:
            return A.T @ v
        raise ValueError("operator called with flag %r" % (flag,))

    op = A if form == "matrix" else Aop
    maxit = c["n"] + 6
    with warnings.catch_warnings():
        warnings.simplefilter("ignore")
        with np.errstate(all="ignore"):
            if c["solver"] == "cgls":
                x, k = S.CGLS(op, b, x0, maxit, CG_TOL, shift).solve()
            else:
                P = spa.csc_matrix(np.array(c["P"], dtype=float))
                x, k = S.PCGLS(op, b, x0, P, maxit, CG_TOL, shift).solve()
    return np.asarray(x, dtype=float), int(k), calls


def _expected_calls(c):
    """The sequence of operator applications the spec's Start / Iterate actions perform."""
    exp = []
    for st in c["steps"]:
        exp.append((1, _qv(st["fwd"])))
        exp.append((2, _qv(st["adj"])))
    return exp


def _calls_conform(calls, exp):
    """first index at which the recorded calls depart from the expected ones (None if the prefix conforms)"""
    for i, (flag, v) in enumerate(exp):
        if i >= len(calls):
            return i, "missing call"
        if calls[i][0] != flag:
            return i, "flag %r instead of %r" % (calls[i][0], flag)
        if not _close(calls[i][1], v, CG_CMP):
            return i, "vector differs"
    return None


def check_cg(ctx, S, c, sibling=None):
    """c: TLC case of kind cg.  sibling: the case with the same data and shift 0 (used to EXPLAIN a mismatch of PCGLS
    with shift as the named deviation PcglsIgnoresShift)."""
    n, solver = c["n"], c["solver"]
    xsol = _qv(c["xsol"])
    K = c["k"]
    base = "%s/%%s/shift=%d/form=%%s/m=%d/n=%d" % (solver, c["shift"], c["m"], n)
    res = {}
    for form in ("matrix", "function"):
        # trivial: the start vector already solves the normal equations (the spec's machine makes no iteration)
        ctx.case(("cg", solver, c["A"], c["b"], c["x0"], c["shift"], c["P"], form), nontrivial=K >= 1,
                 facet="cg/" + solver + "/" + form)
        try:
            x, k, calls = _cg_run(S, c, form)
        except Exception as e:
            ctx.mismatch(base % ("raises", form), c, "solver raised %r" % (e,), expected=xsol, observed=repr(e))
            continue
        res[form] = x
        bad = []
        if not _close(x, xsol, CG_CMP):
            bad.append(("solution", "returned point is not the solution of the (shifted, preconditioned) normal equations "
                                    "/ the minimum-norm correction of x0", xsol, x))
        if k > n + 1:
            bad.append(("itercount", "more than n (+1) iterations for an n-dimensional problem (exact termination after <= n)",
                        "<= %d" % (n + 1), k))
        if c["status"] == "converged" and K >= 1 and k < K:
            bad.append(("itercount", "stopped before the normal residual vanished", ">= %d" % K, k))
        if form == "function":
            exp = _expected_calls(c)
            dep = _calls_conform(calls, exp)
            if dep is not None:
                i, why = dep
                bad.append(("calls", "operator application #%d (%s, iteration %d) departs from the spec's recurrence: %s"
                            % (i, "forward" if exp[i][0] == 1 else "adjoint", i // 2, why),
                            [exp[i][0], exp[i][1]], [calls[i][0], calls[i][1]] if i < len(calls) else None))
        if not bad:
            continue
        # explanation by the named deviation: PCGLS behaves exactly as the spec's machine WITHOUT shift
        if solver == "pcgls" and c["shift"] != 0 and sibling is not None:
            ok_dev = _close(x, _qv(sibling["xsol"]), CG_CMP)
            if form == "function":
                ok_dev = ok_dev and _calls_conform(calls, _expected_calls(sibling)) is None
            if ok_dev:
                ctx.mismatch("pcgls/shift_ignored/form=%s/m=%d/n=%d" % (form, c["m"], n), c,
                             "PCGLS accepts `shift` but solves the unshifted problem (behaves as deviation PcglsIgnoresShift)",
                             expected=xsol, observed=x)
                continue
        for facet, what, e, o in bad:
            ctx.mismatch(base % (facet, form), c, what, expected=e, observed=o)
    if len(res) == 2 and not _close(res["matrix"], res["function"], 1e-12):
        ctx.mismatch(base % ("forms", "both"), c, "matrix form and function form return different points",
                     expected=res["matrix"], observed=res["function"])
    ctx.observations.setdefault("cg_status", {}).setdefault(c["status"], 0)
    ctx.observations["cg_status"][c["status"]] += 1


# ----------------------------------------------------------------------------------------------------------
# projections / proximal maps
def _regularized_gaussian(**kw):
    import cuqi
    with contextlib.redirect_stdout(io.StringIO()):
        return cuqi.implicitprior.RegularizedGaussian(np.zeros(2), 1.0, **kw)


def _bound_forms(form, vec):
    """The ways one bound of the spec's box is handed to ProjectBox: form "none" -> left out (documented default),
    "scalar" -> one float (possibly +-inf) and the equivalent constant array, "vector" -> ndarray and list."""
    if form == "none":
        return [("none", None)]
    if form == "scalar":
        return [("float", float(vec[0])), ("array", vec.copy())]
    return [("array", vec.copy()), ("list", [float(t) for t in vec])]


def _box_calls(S, c, x):
    """[(call-site, thunk)] for one box case; the bounds (lo, up: effective bounds, form: how they are passed) come from
    the spec.  A bound with form "none" is left out (keyword call) or passed as None (positional call): the docstring of
    ProjectBox defines `Zero if None` / `One if None`."""
    lo, up = _qev(c["lo"]), _qev(c["up"])
    lf, uf = c["form"]
    name = c["box"]
    calls = []
    for i, (ln, L) in enumerate(_bound_forms(lf, lo)):
        for j, (un, U) in enumerate(_bound_forms(uf, up)):
            if i != j and lf == uf:
                continue                       # same representation for both bounds unless their forms differ
            tag = "%s.%s-%s" % (name, ln, un)
            kw = {}
            if L is not None:
                kw["lower"] = L
            if U is not None:
                kw["upper"] = U
            calls.append(("ProjectBox.%s.kw" % tag, (lambda kw=kw: S.ProjectBox(x.copy(), **kw))))
            calls.append(("ProjectBox.%s" % tag, (lambda L=L, U=U: S.ProjectBox(x.copy(), L, U))))
            if "list" not in (ln, un):
                rkw = {}
                if L is not None:
                    rkw["lower_bound"] = L
                if U is not None:
                    rkw["upper_bound"] = U
                calls.append(("RegularizedGaussian.box.%s" % tag,
                              (lambda rkw=rkw: _regularized_gaussian(constraint="box", **rkw).proximal(x.copy(), 0.7))))
    return calls


def check_prox(ctx, S, c):
    x = _qv(c["x"])
    out = _qv(c["out"])
    gam, lam = _q(c["gam"]), _q(c["lam"])
    op = c["op"]
    calls = []          # (call-site, thunk)
    if op == "nonneg":
        calls.append(("ProjectNonnegative", lambda: S.ProjectNonnegative(x.copy())))
        calls.append(("RegularizedGaussian.nonnegativity",
                      lambda: _regularized_gaussian(constraint="nonnegativity").proximal(x.copy(), 0.7)))
    elif op == "box":
        calls = _box_calls(S, c, x)
    elif op == "l1":
        calls.append(("ProximalL1", lambda: S.ProximalL1(x.copy(), gam)))
        calls.append(("RegularizedGaussian.l1.default", lambda: _regularized_gaussian(regularization="l1").proximal(x.copy(), gam)))
    elif op == "l1s":
        calls.append(("RegularizedGaussian.l1.strength",
                      lambda: _regularized_gaussian(regularization="l1", strength=lam).proximal(x.copy(), gam)))
    for site, thunk in calls:
        # trivial: the map leaves the input where it is (a point of the set / below no threshold)
        ctx.case(("prox", site, c["x"], c["gam"], c["lam"], c["box"]), nontrivial=not np.array_equal(x, out), facet="prox/" + op)
        try:
            with warnings.catch_warnings():
                warnings.simplefilter("ignore")
                with np.errstate(all="ignore"):
                    v = np.asarray(thunk(), dtype=float)
        except Exception as e:
            ctx.mismatch("prox/%s/%s/raises" % (op, site), c, "%s raised %r on an admissible input (finite point; bounds lower <= upper, "
                         "possibly infinite)" % (site, e), expected=out, observed=repr(e))
            continue
        if v.shape != out.shape or not np.array_equal(v, out):
            ctx.mismatch("prox/%s/%s" % (op, site), c, "%s is not the exact Euclidean projection / proximal map" % site,
                         expected=out, observed=v)


# ----------------------------------------------------------------------------------------------------------
# proximal gradient on problems constructed from their KKT system
def _prox_of(S, c, variant):
    lam = _q(c["lam"])
    n = c["n"]
    if c["h"] == "l1":
        if variant == 0 and lam == 1.0:
            return S.ProximalL1, "ProximalL1"
        if variant == 1:
            import cuqi
            with contextlib.redirect_stdout(io.StringIO()):
                rg = cuqi.implicitprior.RegularizedGaussian(np.zeros(n), 1.0, regularization="l1", strength=lam)
            return rg.proximal, "RegularizedGaussian.l1"
        return (lambda z, t: S.ProximalL1(z, t * lam)), "ProximalL1*lam"
    if c["h"] == "nonneg":
        return (lambda z, t: S.ProjectNonnegative(z)), "ProjectNonnegative"
    # box: bounds of the spec, possibly "Inf" / "-Inf" (one-sided / unbounded box)
    lo, up = _qev(c["lo"]), _qev(c["up"])
    if variant == 1:
        import cuqi
        with contextlib.redirect_stdout(io.StringIO()):
            rg = cuqi.implicitprior.RegularizedGaussian(np.zeros(n), 1.0, constraint="box", lower_bound=lo, upper_bound=up)
        return rg.proximal, "RegularizedGaussian.box"
    if variant == 2 and c["bform"] == "scalar":
        l0, u0 = float(lo[0]), float(up[0])
        return (lambda z, t: S.ProjectBox(z, l0, u0)), "ProjectBox.scalar"
    return (lambda z, t: S.ProjectBox(z, lo, up)), "ProjectBox"


def check_kkt(ctx, S, c, idx, thorough):
    A = np.array(c["A"], dtype=float)
    b, xs = _qv(c["b"]), _qv(c["xs"])
    n = c["n"]
    mu = float(np.linalg.eigvalsh(A.T @ A)[0])
    start = np.array([3.0, -2.0, 1.0][:n])

    def Aop(v, flag):
        return A @ v if flag == 1 else A.T @ v

    # which runs: ISTA always; FISTA (momentum, ~20x more iterations) on every third / fourth problem
    runs = [(False, 0, "matrix" if idx % 2 == 0 else "function", start)]
    if idx % (4 if thorough else 3) == 0:
        runs.append((True, 0, "function" if idx % 2 == 0 else "matrix", start))
    if idx % 5 == 0:
        runs.append((False, 1, "matrix", -start))
    if idx % 7 == 0:
        runs.append((idx % 2 == 0, 0, "matrix", xs.copy()))         # started at the fixed point
    for adaptive, si, form, x0 in runs:
        if _over_budget(ctx, "fista/"):
            return
        t = _q(c["steps"][si])
        abstol = 1e-8 if adaptive else 1e-10
        prox, pname = _prox_of(S, c, idx % 3)
        ctx.case(("kkt", c["A"], c["h"], c["lam"], c["lo"], c["up"], c["xs"], c["g"], adaptive, si, form, pname,
                  "at-fixed-point" if np.array_equal(x0, xs) else "away"),
                 nontrivial=not np.array_equal(x0, xs), facet="kkt/%s/%s" % (c["h"], "fista" if adaptive else "ista"))
        sig = "fista/%s/%s/adaptive=%d/form=%s/n=%d" % (c["h"], pname, adaptive, form, n)
        try:
            with warnings.catch_warnings():
                warnings.simplefilter("ignore")
                x, k = S.FISTA(A if form == "matrix" else Aop, b, x0.copy(), prox, maxit=60000 if adaptive else 20000, stepsize=t,
                               abstol=abstol, adaptive=adaptive).solve()
        except Exception as e:
            ctx.mismatch(sig + "/raises", c, "FISTA raised %r" % (e,))
            continue
        # |x_{k+1} - y_k| <= abstol and the prox-gradient map contracts with rho = 1 - t mu  =>  |x - x*| <= abstol/(t mu)
        tol = 10 * abstol / (t * mu) + 1e-12
        err = float(np.linalg.norm(np.asarray(x, float) - xs))
        if not np.isfinite(err) or err > tol:
            ctx.mismatch(sig, c, "returned point is not the fixed point of the proximal-gradient map (= the unique minimiser "
                         "of 1/2|Ax-b|^2 + h) within abstol/(t mu)", expected=xs, observed=x,
                         detail={"iterations": int(k), "tol": tol, "stepsize": t, "start": x0})


# ----------------------------------------------------------------------------------------------------------
# Levenberg-Marquardt
def _lm_funcs(c):
    fam = c["fam"]
    if fam == "lin":
        B = np.array(c["B"], dtype=float)
        cc = np.array(c["c"], dtype=float)
        return (lambda x: B @ x - cc), (lambda x: B.copy())
    a, d = float(c["a"]), float(c["d"])
    if fam == "sq":
        return (lambda x: np.array([x[0] ** 2 - a * a, x[1] - d])), (lambda x: np.array([[2 * x[0], 0.0], [0.0, 1.0]]))
    if fam == "para":
        return (lambda x: np.array([x[0] - a, d * (x[1] - x[0] ** 2)])), (lambda x: np.array([[1.0, 0.0], [-2 * d * x[0], d]]))
    from cuqiverif.core import MachineryError
    raise MachineryError("unknown LM family %r" % fam)


def check_lm(ctx, S, c):
    import scipy.sparse as spa
    res, jac = _lm_funcs(c)
    stat = [_qv(s) for s in c["stat"]]
    gradtol = 1e-8          # the solver's default; tighter values are below the attainable accuracy for non-zero residuals
    for i, (st, g0) in enumerate(zip(c["starts"], c["g0"])):
        x0 = _qv(st)
        ng0 = float(np.linalg.norm(_qv(g0)))
        for sparse in ((False, True) if i % 4 == 0 else (False,)):
            if _over_budget(ctx, "lm/", 12):
                return
            ctx.case(("lm", c["fam"], c["B"], c["c"], c["a"], c["d"], st, sparse), nontrivial=ng0 > 0, facet="lm/" + c["fam"])
            sig = "lm/%s/sparse=%d" % (c["fam"], sparse)
            jf = (lambda x: spa.csr_matrix(jac(x))) if sparse else jac
            try:
                with warnings.catch_warnings():
                    warnings.simplefilter("ignore")
                    with np.errstate(all="ignore"):
                        x, info = S.LM(res, x0.copy(), jf, maxit=2000, tol=1e-6, gradtol=gradtol, sparse=sparse).solve()
            except Exception as e:
                ctx.mismatch(sig + "/raises", c, "LM raised %r from start %r" % (e, x0.tolist()))
                continue
            x = np.asarray(x, dtype=float)
            # loop ends when |g| <= gradtol |g0|; the Hessians at the stationary points of the families have
            # smallest singular value >= 0.05, so |x - x*| <~ 20 gradtol |g0|
            tol = 1e-9 + 100 * gradtol * ng0
            dist = min(float(np.linalg.norm(x - s)) for s in stat) if np.all(np.isfinite(x)) else float("inf")
            if dist > tol:
                ctx.mismatch(sig, c, "LM did not return a stationary point of the sum of squares (J^T r = 0)",
                             expected=[s.tolist() for s in stat], observed=x, detail={"start": x0, "tol": tol})


# ----------------------------------------------------------------------------------------------------------
# SciPy wrappers
def _same(a, b):
    if isinstance(a, np.ndarray) or isinstance(b, np.ndarray):
        a, b = np.asarray(a), np.asarray(b)
        return a.shape == b.shape and bool(np.array_equal(a, b, equal_nan=True)) if a.dtype.kind in "fc" else bool(np.array_equal(a, b))
    if isinstance(a, float) and isinstance(b, float) and a != a and b != b:
        return True
    try:
        return bool(a == b)
    except Exception:
        return False


def _call(fn):
    with warnings.catch_warnings():
        warnings.simplefilter("ignore")
        with np.errstate(all="ignore"), contextlib.redirect_stdout(io.StringIO()):
            try:
                return fn(), None
            except Exception as e:
                return None, e


def check_wrap(ctx, S, c):
    import scipy.optimize as opt
    a = np.array(c["a"], dtype=float)
    cc = np.array(c["c"], dtype=float)
    x0 = np.array(c["x0"], dtype=float)
    sense, sign = c["sense"], c["sign"]
    w, method = c["wrapper"], c["method"]
    f = lambda x: sense * 0.5 * float(np.sum(a * (x - cc) ** 2))
    g = lambda x: sense * a * (x - cc)
    sig = "wrap/%s/method=%s/grad=%d" % (w, method, 1 if c["grad"] else 0)
    ctx.case(("wrap", w, method, c["a"], c["c"], c["x0"], c["grad"]), facet="wrap/" + w)
    if w in ("minimize", "maximize"):
        me = None if method == "default" else method
        cls = getattr(S, w)
        got, e1 = _call(lambda: cls(f, x0.copy(), gradfunc=g if c["grad"] else None, method=me).solve())
        ref, e2 = _call(lambda: opt.minimize(lambda x: sign * f(x), x0.copy(),
                                             jac=(lambda x: sign * g(x)) if c["grad"] else None, method=me))
        if e2 is not None:
            # SciPy itself refuses these arguments; the wrapper has to pass that on
            if e1 is None:
                ctx.mismatch(sig + "/no_error", c, "SciPy raises for these arguments but the wrapper returns", repr(e2), got)
            return
        if e1 is not None:
            ctx.mismatch(sig + "/wrapper_raises/" + type(e1).__name__, c,
                         "SciPy returns a result for a documented method but the wrapper raises %r" % (e1,),
                         expected={k: repr(ref.get(v)) for k, v in c["info"].items()}, observed=repr(e1))
            return
        sol, info = got
        if not _same(np.asarray(sol), ref["x"]):
            ctx.mismatch(sig + "/solution", c, "wrapper does not return SciPy's solution for the objective %s" %
                         ("-f" if sign < 0 else "f"), ref["x"], sol)
        for k, v in c["info"].items():
            if v in ref and (k not in info or not _same(info[k], ref[v])):
                ctx.mismatch(sig + "/info/" + k, c, "info[%r] is not SciPy's %r" % (k, v), ref[v], info.get(k, "<missing>"))
        if ref["success"] and not np.allclose(np.asarray(sol, float), cc, atol=1e-3):
            ctx.mismatch(sig + "/optimum", c, "returned point is not the %s of the user's function" %
                         ("maximiser" if sense < 0 else "minimiser"), cc, sol)
    elif w == "LS":
        sq = np.sqrt(a)
        r = lambda x: sq * (x - cc)
        J = lambda x: np.diag(sq)
        got, e1 = _call(lambda: S.LS(r, x0.copy(), jacfun=J if c["grad"] else None, method=method, loss="linear",
                                     tol=1e-9, maxit=500).solve())
        ref, e2 = _call(lambda: opt.least_squares(r, x0.copy(), jac=J if c["grad"] else "2-point", method=method, loss="linear",
                                                  xtol=1e-9, max_nfev=500))
        if e2 is not None:
            if e1 is None:
                ctx.mismatch(sig + "/no_error", c, "SciPy raises for these arguments but the wrapper returns", repr(e2), got)
            return
        if e1 is not None:
            ctx.mismatch(sig + "/wrapper_raises/" + type(e1).__name__, c,
                         "SciPy returns a result (jacfun=None is documented as 'the solver approximates the Jacobian') but "
                         "the wrapper raises %r" % (e1,), expected=ref["x"], observed=repr(e1))
            return
        sol, info = got
        if not _same(np.asarray(sol), ref["x"]):
            ctx.mismatch(sig + "/solution", c, "LS does not return SciPy's solution", ref["x"], sol)
        for k, v in c["info"].items():
            if not isinstance(info, dict) or k not in info:
                # LS.solve documents "optimization information (dictionary)" without naming its keys
                ctx.observations.setdefault("LS_info_keys_absent", {})[k] = v
            elif not _same(info[k], ref[v]):
                ctx.mismatch(sig + "/info/" + k, c, "info[%r] is not SciPy's %r" % (k, v), ref[v], info[k])
        if not np.allclose(np.asarray(sol, float), cc, atol=1e-5):
            ctx.mismatch(sig + "/optimum", c, "returned point is not the least-squares solution", cc, sol)
    elif w == "L_BFGS_B":
        kw = {"maxiter": 50, "pgtol": 1e-10}
        got, e1 = _call(lambda: S.L_BFGS_B(f, x0.copy(), gradfunc=g if c["grad"] else None, **kw).solve())
        ref, e2 = _call(lambda: opt.fmin_l_bfgs_b(f, x0.copy(), fprime=g if c["grad"] else None,
                                                  approx_grad=0 if c["grad"] else 1, **kw))
        if e1 is not None or e2 is not None:
            ctx.mismatch(sig + "/raises", c, "L_BFGS_B wrapper / SciPy raised", repr(e2), repr(e1))
            return
        sol, info = got
        _lbfgs_compare(ctx, c, sig, sol, info, ref)
        if not np.allclose(np.asarray(sol, float), cc, atol=1e-4):
            ctx.mismatch(sig + "/optimum", c, "returned point is not the minimiser", cc, sol)
        # scripted raw results: every warnflag class of the spec's table, and the arguments handed to SciPy
        real = S.fmin_l_bfgs_b
        for wf in (0, 1, 2):
            seen = {}

            def stub(func, x0_, fprime=None, approx_grad=0, **kwargs):
                seen.update(func=func, x0=x0_, fprime=fprime, approx_grad=approx_grad, kwargs=kwargs)
                return (np.array([0.25, -1.5]), 0.125, {"grad": np.array([1.0, 2.0]), "task": "ABNORMAL_TERMINATION_IN_LNSRCH",
                                                        "funcalls": 21, "nit": 7, "warnflag": wf})
            S.fmin_l_bfgs_b = stub
            try:
                got, e1 = _call(lambda: S.L_BFGS_B(f, x0.copy(), gradfunc=g if c["grad"] else None, maxiter=7).solve())
            finally:
                S.fmin_l_bfgs_b = real
            ctx.case(("wrap", "L_BFGS_B", "stub", wf, c["grad"], c["c"], c["x0"]), facet="wrap/L_BFGS_B/stub")
            if e1 is not None:
                ctx.mismatch(sig + "/stub/raises", c, "L_BFGS_B raised %r on a scripted SciPy result" % (e1,))
                continue
            sol, info = got
            seen_call = dict(seen)
            raw = stub(None, None)
            seen = seen_call
            _lbfgs_compare(ctx, dict(c, warnflag=wf), sig + "/stub/warnflag=%d" % wf, sol, info, raw)
            okargs = _lbfgs_args_ok(seen, f, g if c["grad"] else None, x0, {"maxiter": 7})
            if not okargs:
                ctx.mismatch(sig + "/stub/arguments", c, "SciPy is not asked to minimise func from x0 with the user's gradient "
                             "(approximated when gradfunc is None) and the user's keyword arguments",
                             observed={k: repr(v) for k, v in seen.items()})


def _lbfgs_args_ok(seen, f, g, x0, kwargs):
    """What fmin_l_bfgs_b was asked to do, judged by behaviour (not by object identity: a wrapper may wrap the callables):
    the objective evaluates like f, the start is x0, the gradient SciPy will use is the user's (fprime, or func returning
    (f, g)) or an approximation exactly when none was given, and the user's keyword arguments are passed on."""
    pts = [np.array([0.3, -1.2]), np.array([2.0, 0.5])]
    try:
        func, fprime, approx = seen.get("func"), seen.get("fprime"), bool(seen.get("approx_grad"))
        if not callable(func) or not np.array_equal(np.asarray(seen.get("x0"), float), x0):
            return False
        vals = [func(p.copy()) for p in pts]
        joint = all(isinstance(v, tuple) and len(v) == 2 for v in vals)        # func returns (f, g): SciPy's other convention
        fv = [v[0] if joint else v for v in vals]
        if not all(abs(float(a) - f(p)) <= 1e-12 * max(1.0, abs(f(p))) for a, p in zip(fv, pts)):
            return False
        if g is None:
            if not approx or fprime is not None or joint:
                return False
        else:
            if approx:
                return False
            gv = [v[1] for v in vals] if joint else ([fprime(p.copy()) for p in pts] if callable(fprime) else None)
            if gv is None or not all(np.allclose(np.asarray(a, float), g(p), rtol=1e-12, atol=1e-12) for a, p in zip(gv, pts)):
                return False
        kw = seen.get("kwargs") or {}
        return all(k in kw and kw[k] == v for k, v in kwargs.items())
    except Exception:
        return False


def _lbfgs_compare(ctx, c, sig, sol, info, raw):
    x, fval, d = raw
    if not _same(np.asarray(sol), x):
        ctx.mismatch(sig + "/solution", c, "L_BFGS_B does not return SciPy's solution", x, sol)
    look = {"f": fval, "d.grad": d["grad"], "d.nit": d["nit"], "d.funcalls": d["funcalls"]}
    for k, v in c["info"].items():
        if k not in info or not _same(info[k], look[v]):
            ctx.mismatch(sig + "/info/" + k, c, "info[%r] is not SciPy's %s" % (k, v), look[v], info.get(k, "<missing>"))
    succ, msg = c["warn"][min(int(d["warnflag"]), 2)]
    msg = d["task"] if msg == "task" else msg
    if "success" not in info or bool(info["success"]) != bool(succ):
        ctx.mismatch(sig + "/info/success", c, "success is not `1 if the minimisation has converged (warnflag 0), 0 if not`",
                     succ, info.get("success", "<missing>"))
    got_msg = info.get("message")
    if not (isinstance(got_msg, (str, bytes)) and len(got_msg) > 0):
        ctx.mismatch(sig + "/info/message", c, "message is not a description of the cause of the termination",
                     msg, info.get("message", "<missing>"))
    elif got_msg != msg:
        # documented as "Description of the cause of the termination": the wording is not part of the property
        ctx.observations.setdefault("L_BFGS_B_message_wording", {})[str(int(d["warnflag"]))] = [msg, got_msg if isinstance(got_msg, str) else repr(got_msg)]


# ----------------------------------------------------------------------------------------------------------
def _dispatch(ctx, S, cases, thorough):
    sib = {}
    for c in cases:
        if c["kind"] == "cg" and c["shift"] == 0:
            sib[_cg_key(c)] = c
    counts = {}
    kidx = 0
    for c in cases:
        k = c["kind"]
        counts[k] = counts.get(k, 0) + 1
        if k == "cg":
            check_cg(ctx, S, c, sib.get(_cg_key(c)))
        elif k == "prox":
            check_prox(ctx, S, c)
        elif k == "kkt":
            check_kkt(ctx, S, c, kidx, thorough)
            kidx += 1
        elif k == "lm":
            check_lm(ctx, S, c)
        elif k == "wrap":
            check_wrap(ctx, S, c)
    return counts


def _sort_key(c):
    return json.dumps(c, sort_keys=True)


def run(ctx):
    from cuqiverif.core import MachineryError
    from cuqiverif import tlc as _tlc
    import concurrent.futures, os
    S = _solver_mod()
    devs = (("PcglsIgnoresShift", "NormalEquations"), ("MaximizeDropsSign", "WrapRelation"))
    wd = lambda label: os.path.join(_tlc.WORK, "Solvers-c16-%s-%d" % (label, os.getpid()))
    # the (small) deviation runs are started together with the main run: three JVM starts in sequence cost minutes on a loaded machine
    pool = concurrent.futures.ThreadPoolExecutor(max_workers=2)
    fut = {dev: pool.submit(ctx.tlc, "Solvers", cfg="Solvers.dev_%s.cfg" % dev, workers=2, timeout=2400, expect_violation=True,
                            workdir=wd(dev)) for dev, _ in devs}
    try:
        res = ctx.tlc("Solvers", cfg="Solvers.%s.cfg" % ctx.tier, workers=16, timeout=3600, workdir=wd("main"),
                      require_actions=["Start", "Iterate"] if ctx.tier == "thorough" else None)
    except BaseException:
        concurrent.futures.wait(list(fut.values()))
        for label in ["main"] + [d for d, _ in devs]:                       # nothing of a failed run stays under .work
            _tlc.cleanup(wd(label))
        raise
    finally:
        concurrent.futures.wait(list(fut.values()))          # no JVM of this run is left behind when the main run fails
        pool.shutdown()
    try:
        ctx.model_must_hold(res, "Solvers")
        cases = sorted(res.cases, key=_sort_key)
        kinds = set(c["kind"] for c in cases)
        if kinds != {"cg", "prox", "kkt", "lm", "wrap"}:
            raise MachineryError("Solvers emitted kinds %r" % sorted(kinds))
        # named deviations: the invariants that decide the property must fail when the deviation is switched on
        for dev, inv in devs:
            r2 = fut[dev].result()
            if r2.ok or r2.violated != inv:
                raise MachineryError("deviation %s does not violate %s on the model (violated=%r): vacuous invariant" % (dev, inv, r2.violated))
    finally:
        for label in ["main"] + [d for d, _ in devs]:
            _tlc.cleanup(wd(label))
    counts = _dispatch(ctx, S, cases, ctx.tier == "thorough")
    ctx.observe("cases_by_kind", counts)
    for k in ("cg", "prox", "kkt", "lm", "wrap"):
        ex = [c for c in cases if c["kind"] == k]
        c = ex[len(ex) // 2]
        ctx.sample({"case": c if k != "lm" else {kk: c[kk] for kk in ("kind", "fam", "B", "c", "a", "d", "stat")}})
    inf_box = [c for c in cases if c["kind"] == "kkt" and c["h"] == "box" and ("Inf" in c["up"] or "-Inf" in c["lo"])]
    if not inf_box or not any(c["kind"] == "prox" and c["op"] == "box" and ("Inf" in c["up"] or "-Inf" in c["lo"]) for c in cases):
        raise MachineryError("Solvers emitted no box with an infinite bound (prox / kkt): the one-sided facet would be vacuous")
    ctx.sample({"case": inf_box[len(inf_box) // 2]})
    ctx.rule = ("one case per problem emitted by TLC from Solvers.tla (cg: A, b, x0, shift, P with the exact rational vectors of every "
                "operator application and the exact solution; prox: lattice input with exact output, boxes with finite / infinite / "
                "default bounds in every documented way of passing them; kkt: A, b, x*, g, regulariser (incl. one-sided boxes), "
                "steps; lm: family with its stationary points and starts; wrap: wrapper x method x objective); distinct = problem x "
                "call-site / operator form / solver variant; trivial (not counted) = cg start that already solves the normal "
                "equations, prox input that is its own image, proximal-gradient run started at the fixed point, LM start that is "
                "stationary")
    ctx.exhaustive = ctx.tier == "quick"      # thorough adds a SAMPLE of the size-3 problems (every Dim3Mod-th matrix)
    ctx.traces = counts.get("cg", 0)
    ctx.assumptions += ["numpy.linalg.eigvalsh for the strong-convexity constant in the FISTA tolerance",
                        "SciPy called directly is the reference for the wrapper relation",
                        "sizes bounded by the cfg; cg problems with iterates beyond MagBound compared through their exact solution"]


def replay(ctx, case):
    if case.get("kind") == "model":
        return run(ctx)
    S = _solver_mod()
    if case["kind"] == "cg":
        sib = None
        if case["solver"] == "pcgls" and case["shift"] != 0:
            # re-emit the shift-0 sibling from TLC to stay spec-driven
            res = ctx.tlc("Solvers", cfg="Solvers.%s.cfg" % ("quick" if case["n"] <= 2 else "thorough"), workers=16, timeout=3600)
            for c in res.cases:
                if c["kind"] == "cg" and c["shift"] == 0 and _cg_key(c) == _cg_key(case):
                    sib = c
        check_cg(ctx, S, case, sib)
    elif case["kind"] == "kkt":
        for idx in range(42):
            check_kkt(ctx, S, case, idx, True)
    else:
        _dispatch(ctx, S, [case], True)
